"""C17 implementation driver: runs the REAL optimisation passes of /repo on generated circuits (always on a FRESH tape).

Two streams (JSON on stdin: {"seed", "tier", "n_drv", "n_diff"}; one JSON line on stdout):
 * "drivers": circuits over a coded gate alphabet with dyadic angles (multiples of 2^-48, |angle| < 32, so every float
   sum is exact) run through cancel_inverses / merge_rotations / remove_barrier / combine_global_phases / undo_swaps /
   commute_controlled; input and output are returned as integer-coded gate lists for the Coq driver models (tie K).
 * "diff": random circuits with exactly representable angles run through every pass of the property; input and
   output circuits are returned as exact Gallina circuits (prefixed by state preparations) for the Coq reference
   simulator, or - when a gate is not exactly representable - compared numerically here up to a global phase.
"""
import sys, json, random, math, warnings, functools, copy
sys.path.insert(0, "/verif/harness")
from qrules import *
from qx import pyth_angle, exact_circuit_gallina
import numpy as np
warnings.filterwarnings("ignore")
install_patches()
from pennylane.ops.op_math import Adjoint
from pennylane.tape import QuantumScript

T = qp.transforms
UNIT = 2 ** 48

# ------------------------------------------------------------------------------------------------ coded alphabet (tie K)
NAMES = ["Hadamard", "PauliX", "PauliY", "PauliZ", "CNOT", "CZ", "CY", "CH", "SWAP", "Toffoli", "CCZ",      # 0-10 self-inverse
         "S", "T", "SX", "ISWAP", "Identity",                                                                 # 11-15
         "RX", "RY", "RZ", "PhaseShift", "CRX", "CRY", "CRZ", "ControlledPhaseShift", "IsingXX", "IsingYY",   # 16-25
         "IsingXY", "IsingZZ",                                                                                # 26-27
         "MultiRZ", "PSWAP", "Barrier", "GlobalPhase", "CSWAP", "SISWAP"]                                     # 28-33
CODE = {n: i for i, n in enumerate(NAMES)}
ARITY = {"Hadamard": 1, "PauliX": 1, "PauliY": 1, "PauliZ": 1, "CNOT": 2, "CZ": 2, "CY": 2, "CH": 2, "SWAP": 2, "Toffoli": 3,
         "CCZ": 3, "S": 1, "T": 1, "SX": 1, "ISWAP": 2, "Identity": 1, "RX": 1, "RY": 1, "RZ": 1, "PhaseShift": 1, "CRX": 2,
         "CRY": 2, "CRZ": 2, "ControlledPhaseShift": 2, "IsingXX": 2, "IsingYY": 2, "IsingXY": 2, "IsingZZ": 2, "MultiRZ": None,
         "PSWAP": 2, "Barrier": None, "GlobalPhase": 0, "CSWAP": 3, "SISWAP": 2}
PARAM = {"RX", "RY", "RZ", "PhaseShift", "CRX", "CRY", "CRZ", "ControlledPhaseShift", "IsingXX", "IsingYY", "IsingXY",
         "IsingZZ", "MultiRZ", "PSWAP", "GlobalPhase"}
ROT1 = ["RX", "RY", "RZ", "PhaseShift", "CRX", "CRY", "CRZ", "ControlledPhaseShift", "IsingXX", "IsingYY", "IsingXY", "IsingZZ"]
CTRL_NAMES = {"CNOT", "CZ", "CY", "CH", "Toffoli", "CCZ", "CRX", "CRY", "CRZ", "ControlledPhaseShift", "CSWAP"}


def mk_coded(g):
    """g = [code, adj, wires, units] -> PennyLane operator"""
    nm = NAMES[g[0]]
    cls = getattr(qp, nm)
    ang = g[3] / UNIT
    if nm == "GlobalPhase":
        op = qp.GlobalPhase(ang)
    elif nm in PARAM:
        op = cls(ang, wires=g[2])
    else:
        op = cls(wires=g[2])
    return Adjoint(op) if g[1] else op


def code_of(op):
    """PennyLane operator -> [code, adj, wires, units]; raises KeyError/ValueError when outside the alphabet"""
    adj = False
    if isinstance(op, Adjoint):
        adj, op = True, op.base
    nm = type(op).__name__
    if nm in ("X", "Y", "Z", "H"):
        nm = {"X": "PauliX", "Y": "PauliY", "Z": "PauliZ", "H": "Hadamard"}[nm]
    if nm == "I":
        nm = "Identity"
    c = CODE[nm]
    u = 0
    if nm in PARAM:
        v = float(np.asarray(op.data[0]).reshape(-1)[0]) * UNIT
        if v != int(v):
            raise ValueError("non-dyadic output angle")
        u = int(v)
    return [c, bool(adj), [int(w) for w in op.wires], u]


def fresh_tape(ops, wires=None):
    ops = list(ops)
    ws = qp.wires.Wires.all_wires([o.wires for o in ops]) if wires is None else wires
    m = [qp.expval(qp.Z(ws[0]))] if len(ws) else [qp.state()]
    return QuantumScript(ops, m)


def is_ctrl_commuting(a, b):
    return bool(qp.is_commuting(a, b))


# ------------------------------------------------------------------------------------------------ driver stream
def dy_angle(rng):
    r = rng.random()
    if r < 0.35:
        return int(round(rng.choice([0.0, math.pi, -math.pi, 2 * math.pi, math.pi / 2, -math.pi / 2]) * UNIT))
    if r < 0.40:
        return rng.choice([1, -1, 2814, 2815, -2814, -2815, 3000])          # right at the atol = 1e-8 threshold
    return rng.randint(-24, 24) * (UNIT // 8)


def rand_wires(rng, nw, k):
    return rng.sample(range(nw), k)


def gen_coded(rng, nw, flavour):
    """biased random coded circuit"""
    one = ["Hadamard", "PauliX", "PauliY", "PauliZ", "S", "T", "SX", "Identity"]
    two = ["CNOT", "CZ", "CY", "CH", "SWAP", "ISWAP"]
    three = ["Toffoli", "CCZ", "CSWAP"]
    rot1 = ["RX", "RY", "RZ", "PhaseShift"]
    rot2 = ["CRX", "CRY", "CRZ", "ControlledPhaseShift", "IsingXX", "IsingYY", "IsingXY", "IsingZZ", "PSWAP"]
    gates = []
    L = rng.randint(0, 4 + 3 * nw)

    def fresh():
        r = rng.random()
        ar = 1 if nw == 1 else (rng.choice([1, 1, 2, 2, 3]) if nw >= 3 else rng.choice([1, 1, 2]))
        if flavour == "gphase" and r < 0.3:
            return [CODE["GlobalPhase"], False, [], dy_angle(rng)]
        if flavour in ("barrier", "all") and r < (0.25 if flavour == "barrier" else 0.05):
            return [CODE["Barrier"], False, rand_wires(rng, nw, rng.randint(1, nw)), 0]
        if flavour == "all" and r < 0.1:
            return [CODE["GlobalPhase"], False, [], dy_angle(rng)]
        if flavour == "swap" and r < 0.3 and nw >= 2:
            return [CODE["SWAP"], False, rand_wires(rng, nw, 2), 0]
        if flavour == "merge":
            isrot = rng.random() < 0.7
        elif flavour == "commute":
            isrot = rng.random() < 0.4
        else:
            isrot = rng.random() < 0.3
        if isrot:
            if ar >= 2 and rng.random() < 0.15:
                nm, k = "MultiRZ", rng.randint(2, min(nw, 3))
            else:
                nm = rng.choice(rot1 if ar == 1 else rot2); k = ARITY[nm]
            g = [CODE[nm], False, rand_wires(rng, nw, k), dy_angle(rng)]
        else:
            nm = rng.choice(one if ar == 1 else two if ar == 2 else three)
            g = [CODE[nm], False, rand_wires(rng, nw, ARITY[nm]), 0]
        if rng.random() < (0.2 if flavour != "commute" else 0.05) and NAMES[g[0]] not in ("Barrier", "GlobalPhase", "Identity"):
            g[1] = True
        return g

    while len(gates) < L:
        g = fresh()
        gates.append(g)
        r = rng.random()
        if r < 0.45 and NAMES[g[0]] not in ("Barrier", "GlobalPhase"):
            # partner: inverse / same gate / mergeable rotation, possibly with permuted wires, possibly behind a spectator
            h = [g[0], g[1], list(g[2]), g[3]]
            q = rng.random()
            if q < 0.4:
                h[1] = not h[1] if NAMES[g[0]] not in ("Hadamard", "PauliX", "PauliY", "PauliZ", "CNOT", "CZ", "CY", "CH", "SWAP", "Toffoli", "CCZ") or rng.random() < 0.2 else h[1]
            elif q < 0.6 and NAMES[g[0]] in PARAM:
                h[3] = -g[3] if rng.random() < 0.5 else dy_angle(rng)
            elif q < 0.7 and NAMES[g[0]] in PARAM:
                h[3] = rng.choice([1, -1, 2814, 2815, -2815, 5000]) - g[3]
            if len(h[2]) > 1 and rng.random() < 0.35:
                w = list(h[2]); rng.shuffle(w); h[2] = w
            if rng.random() < 0.3:
                free = [w for w in range(nw) if w not in g[2]]
                if free:
                    gates.append([CODE[rng.choice(["Hadamard", "PauliX", "T", "S"])], False, [rng.choice(free)], 0])
            gates.append(h)
            if rng.random() < 0.3:       # nested pairs: A B B^-1 A^-1
                gates.append([g[0], not g[1] if NAMES[g[0]] in PARAM or NAMES[g[0]] in ("S", "T", "SX", "ISWAP") else g[1], list(g[2]), g[3]])
    return gates


CORPUS_DRV = [
    ("cancel_inverses", {"recursive": True}, 2, [[0, False, [0], 0], [1, False, [1], 0], [1, False, [1], 0], [0, False, [0], 0]]),
    ("cancel_inverses", {"recursive": True}, 2, [[4, False, [0, 1], 0], [0, False, [0], 0], [0, False, [0], 0], [4, False, [0, 1], 0]]),
    ("cancel_inverses", {"recursive": False}, 2, [[4, False, [0, 1], 0], [0, False, [0], 0], [0, False, [0], 0], [4, False, [0, 1], 0]]),
    ("cancel_inverses", {"recursive": True}, 3, [[9, False, [0, 1, 2], 0], [9, False, [1, 0, 2], 0], [9, False, [0, 2, 1], 0], [10, False, [2, 0, 1], 0], [10, False, [0, 1, 2], 0]]),
    ("cancel_inverses", {"recursive": True}, 2, [[5, False, [0, 1], 0], [5, False, [1, 0], 0], [4, False, [0, 1], 0], [4, False, [1, 0], 0]]),
    ("cancel_inverses", {"recursive": True}, 2, [[11, False, [0], 0], [11, True, [0], 0], [12, True, [1], 0], [12, False, [1], 0], [16, False, [0], UNIT], [16, True, [0], UNIT], [16, False, [0], UNIT], [16, True, [0], 2 * UNIT]]),
    ("cancel_inverses", {"recursive": True}, 2, [[24, False, [0, 1], UNIT], [24, True, [1, 0], UNIT], [20, False, [0, 1], UNIT], [20, True, [1, 0], UNIT]]),
    ("cancel_inverses", {"recursive": True}, 2, [[11, True, [0], 0], [11, True, [0], 0], [0, True, [1], 0], [0, False, [1], 0], [0, True, [0], 0], [0, True, [0], 0]]),
    ("cancel_inverses", {"recursive": True}, 3, [[28, False, [0, 1], UNIT], [28, True, [0, 1, 2], UNIT]]),      # raises (zip strict)
    ("cancel_inverses", {"recursive": True}, 3, [[28, False, [0, 1], UNIT], [28, True, [1, 0, 2], UNIT]]),      # cancels (wrongly)
    ("cancel_inverses", {"recursive": True}, 3, [[28, False, [1, 0, 2], UNIT], [28, True, [0, 1], UNIT]]),
    ("cancel_inverses", {"recursive": False}, 3, [[28, True, [0, 1, 2], UNIT], [28, False, [0, 1, 2], UNIT], [28, True, [0, 1, 2], UNIT], [28, False, [2, 1, 0], UNIT]]),
    ("merge_rotations", {"atol": 1e-8, "include": None}, 2, [[16, False, [0], UNIT], [16, False, [0], -UNIT], [17, False, [1], UNIT], [17, False, [1], UNIT], [17, False, [1], 3]]),
    ("merge_rotations", {"atol": 1e-8, "include": None}, 2, [[16, False, [0], 0], [0, False, [0], 0], [18, False, [1], 0], [18, False, [0], 0]]),
    ("merge_rotations", {"atol": 1e-8, "include": None}, 2, [[20, False, [0, 1], UNIT], [20, False, [1, 0], UNIT], [24, False, [0, 1], UNIT], [24, False, [1, 0], UNIT], [24, False, [1, 0], 5]]),
    ("merge_rotations", {"atol": 1e-8, "include": ["RX"]}, 1, [[16, False, [0], UNIT], [16, False, [0], UNIT], [18, False, [0], UNIT], [18, False, [0], UNIT]]),
    ("merge_rotations", {"atol": 1e-8, "include": None}, 1, [[16, False, [0], 2814], [16, False, [0], 0], [18, False, [0], 2815], [18, False, [0], 0], [16, True, [0], 7], [16, False, [0], 7]]),
    ("remove_barrier", {}, 2, [[30, False, [0, 1], 0], [0, False, [0], 0], [30, False, [1], 0], [30, True, [0], 0]]),
    ("combine_global_phases", {}, 2, [[31, False, [], UNIT], [0, False, [0], 0], [31, False, [], -UNIT], [31, True, [], 5]]),
    ("combine_global_phases", {}, 1, [[0, False, [0], 0]]),
    ("undo_swaps", {}, 3, [[0, False, [0], 0], [1, False, [1], 0], [8, False, [0, 1], 0], [8, False, [0, 2], 0], [2, False, [0], 0]]),
    ("commute_controlled", {"direction": "right"}, 3, [[1, False, [2], 0], [4, False, [0, 2], 0], [3, False, [0], 0], [4, False, [0, 1], 0], [0, False, [1], 0]]),
    ("commute_controlled", {"direction": "left"}, 3, [[4, False, [0, 2], 0], [1, False, [2], 0], [4, False, [0, 1], 0], [3, False, [0], 0], [0, False, [1], 0]]),
]


def run_driver_pass(name, opts, ops):
    tape = fresh_tape(ops, wires=qp.wires.Wires(range(8)))
    if name == "cancel_inverses":
        [o], _ = T.cancel_inverses(tape, recursive=opts["recursive"])
    elif name == "merge_rotations":
        [o], _ = T.merge_rotations(tape, atol=opts["atol"], include_gates=opts["include"])
    elif name == "remove_barrier":
        [o], _ = T.remove_barrier(tape)
    elif name == "combine_global_phases":
        [o], _ = T.combine_global_phases(tape)
    elif name == "undo_swaps":
        [o], _ = T.undo_swaps(tape)
    elif name == "commute_controlled":
        [o], _ = T.commute_controlled(tape, direction=opts["direction"])
    return list(o.operations)


def driver_stream(rng, n):
    cases = []
    plan = [("cancel_inverses", "all", 0.34), ("merge_rotations", "merge", 0.26), ("remove_barrier", "barrier", 0.06),
            ("combine_global_phases", "gphase", 0.08), ("undo_swaps", "swap", 0.10), ("commute_controlled", "commute", 0.16)]
    todo = [(nm, o, nw, g) for nm, o, nw, g in CORPUS_DRV]
    while len(todo) < n:
        r, acc = rng.random(), 0.0
        for nm, fl, p in plan:
            acc += p
            if r < acc:
                break
        nw = rng.choice([1, 2, 2, 3, 3, 4])
        gates = gen_coded(rng, nw, fl)
        if nm == "cancel_inverses":
            opts = {"recursive": rng.random() < 0.65}
        elif nm == "merge_rotations":
            # merge_rotations first expands Adjoint operators by decomposition; only Adjoint(rotation) -> rotation(-a) is modelled
            gates = [g for g in gates if not (g[1] and NAMES[g[0]] not in ROT1)]
            opts = {"atol": rng.choice([1e-8, 1e-8, 0.25, 0.0]),
                    "include": rng.choice([None, None, ["RX", "CRX", "IsingXX"], ["RZ", "PhaseShift", "CRZ"], []])}
        elif nm == "commute_controlled":
            gates = [g for g in gates if NAMES[g[0]] not in ("GlobalPhase",)]
            opts = {"direction": rng.choice(["left", "right"])}
        elif nm == "undo_swaps":
            gates = [g for g in gates if NAMES[g[0]] not in ("GlobalPhase",)]
            opts = {}
        else:
            opts = {}
        todo.append((nm, opts, nw, gates))
    for nm, opts, nw, gates in todo:
        ops = [mk_coded(g) for g in gates]
        rec = {"pass": nm, "opts": opts, "nw": nw, "in": gates}
        if nm == "commute_controlled":
            # commutation oracle recorded from the real run: qp.is_commuting for (single-wire gate, controlled gate) pairs
            orc = {}
            for i, a in enumerate(ops):
                if len(a.wires) != 1:
                    continue
                for j, b in enumerate(ops):
                    if i != j and isinstance(b, qp.ops.op_math.Controlled) and set(a.wires) & set(b.wires):
                        try:
                            orc[f"{i},{j}"] = is_ctrl_commuting(a, b)
                        except Exception as e:      # noqa
                            orc[f"{i},{j}"] = None
            rec["comm"] = orc
            rec["is_controlled"] = [bool(isinstance(b, qp.ops.op_math.Controlled)) for b in ops]
        try:
            out = run_driver_pass(nm, opts, ops)
            try:
                rec["out"] = [code_of(o) for o in out]
            except (KeyError, ValueError) as e:
                rec["out"] = None
                rec["uncoded"] = f"{type(e).__name__}: {e}"[:100]
                rec["out_repr"] = [repr(o) for o in out]
        except Exception as e:
            rec["out"] = "ERR"
            rec["detail"] = f"{type(e).__name__}: {str(e)[:200]}"
        cases.append(rec)
    return cases


# ------------------------------------------------------------------------------------------------ differential stream
G1 = ["RX", "RY", "RZ", "PhaseShift", "Hadamard", "PauliX", "PauliY", "PauliZ", "S", "T", "SX"]
G2 = ["CNOT", "CZ", "CY", "CH", "SWAP", "CRX", "CRY", "CRZ", "IsingXX", "IsingYY", "IsingZZ", "IsingXY", "ControlledPhaseShift", "ISWAP"]
G3 = ["Toffoli", "CCZ", "CSWAP"]
SELF_INV = ["Hadamard", "PauliX", "PauliY", "PauliZ", "CNOT", "CZ", "CY", "CH", "SWAP", "Toffoli", "CCZ"]


def mk(nm, ws, rng):
    cls = getattr(qp, nm)
    return cls(*[pyth_angle(rng) for _ in range(cls.num_params)], wires=ws)


def rand_gate(rng, labels, pool1=G1, pool2=G2, pool3=G3, extra=()):
    nw = len(labels)
    r = rng.random()
    for p, f in extra:
        if r < p:
            return f()
        r -= p
    ar = 1 if nw == 1 else (rng.choice([1, 1, 1, 2, 2, 3]) if nw >= 3 and pool3 else rng.choice([1, 1, 2]))
    if ar == 2 and not pool2:
        ar = 1
    nm = rng.choice(pool1 if ar == 1 else pool2 if ar == 2 else pool3)
    return mk(nm, rng.sample(labels, ar), rng)


def partner(rng, g, labels):
    """an operator likely to interact with g in a peephole pass"""
    q = rng.random()
    ws = list(g.wires)
    if len(ws) > 1 and rng.random() < 0.35:
        rng.shuffle(ws)
    base = g.base if isinstance(g, Adjoint) else g
    nm = type(base).__name__
    cls = type(base)
    if q < 0.35:        # inverse
        if isinstance(g, Adjoint):
            return cls(*base.data, wires=ws)
        if g.name in SELF_INV and rng.random() < 0.8:
            return cls(wires=ws)
        return Adjoint(cls(*base.data, wires=ws))
    if q < 0.7 and cls.num_params >= 1:   # same type, new / negated angle
        if rng.random() < 0.4:
            return cls(*[-float(d) for d in base.data], wires=ws)
        return cls(*[pyth_angle(rng) for _ in range(cls.num_params)], wires=ws)
    return cls(*base.data, wires=ws)


def rand_circuit(rng, labels, length=None, pair_p=0.4, spect=("Hadamard", "T", "PauliX", "RZ"), **kw):
    ops = []
    L = rng.randint(1, 4 + 2 * len(labels)) if length is None else length
    while len(ops) < L:
        g = rand_gate(rng, labels, **kw)
        ops.append(g)
        if rng.random() < pair_p and g.name not in ("Barrier", "GlobalPhase", "QubitUnitary", "AmplitudeEmbedding") and not hasattr(g, "hyperparameters_skip"):
            try:
                h = partner(rng, g, labels)
            except Exception:
                continue
            if rng.random() < 0.3:
                free = [w for w in labels if w not in g.wires]
                if free:
                    ops.append(mk(rng.choice(list(spect)), [rng.choice(free)], rng))
            ops.append(h)
    return ops


def unitary_of(ops, wire_order):
    """float unitary of a gate list (Barrier = identity by definition; wire-less GlobalPhase = scalar)"""
    n = len(wire_order)
    U = np.eye(2 ** n, dtype=complex)
    for o in ops:
        if o.name in ("Barrier", "Snapshot"):
            continue
        if len(o.wires) == 0:
            U = complex(np.asarray(qp.matrix(o)).reshape(-1)[0]) * U
            continue
        U = np.asarray(qp.matrix(o, wire_order=wire_order)) @ U
    return U


def phase_dist(U, V):
    """min over phases of max |V - e^{ia} U|"""
    idx = np.unravel_index(np.argmax(np.abs(U)), U.shape)
    if abs(U[idx]) < 1e-12 or abs(V[idx]) < 1e-12:
        return 9.9
    ph = V[idx] / U[idx]
    ph = ph / abs(ph)
    return float(np.abs(V - ph * U).max())


def prep_ops(rng, labels, k):
    """k = 0: |0..0>;  1: generic product state (all amplitudes non-zero and unequal);  2: random basis/Hadamard mix"""
    if k == 0:
        return []
    ops = []
    if k == 1:
        from qx import PYTH
        for i, w in enumerate(labels):
            p, q, r = PYTH[(2 * i) % len(PYTH)]
            ops.append(qp.RY(2 * math.atan2(q, p), wires=w))
            p, q, r = PYTH[(2 * i + 3) % len(PYTH)]
            ops.append(qp.RZ(2 * math.atan2(q, p), wires=w))
        return ops
    for w in labels:
        r = rng.random()
        if r < 0.4:
            ops.append(qp.PauliX(w))
        if rng.random() < 0.5:
            ops.append(qp.Hadamard(w))
            if rng.random() < 0.5:
                ops.append(qp.S(w))
    return ops


# ---- pass table ---------------------------------------------------------------------------------
def lab(rng, nw, allow_str=True):
    if allow_str and rng.random() < 0.3:
        return ["a", "b", 7, "q", -1][:nw]
    return list(range(nw))


def case_cancel(rng):
    labels = lab(rng, rng.choice([1, 2, 2, 3, 3, 4]))
    ex = [(0.04, lambda: qp.Barrier(wires=rng.sample(labels, rng.randint(1, len(labels))))),
          (0.04, lambda: qp.GlobalPhase(pyth_angle(rng))),
          (0.04, lambda: qp.Identity(rng.choice(labels)))]
    if len(labels) >= 2:
        ex.append((0.05, lambda: qp.MultiRZ(pyth_angle(rng), wires=rng.sample(labels, rng.randint(2, len(labels))))))
        ex.append((0.04, lambda: qp.ctrl(qp.S(labels[0]), control=[labels[1]]) if rng.random() < 0.5 else qp.ctrl(qp.S(labels[1]), control=[labels[0]])))
        ex.append((0.04, lambda: qp.PauliRot(pyth_angle(rng), rng.choice(["XX", "XZ", "ZY"]), wires=rng.sample(labels, 2))))
    ops = rand_circuit(rng, labels, pair_p=0.55, extra=ex)
    opts = {"recursive": rng.random() < 0.6}
    return labels, ops, opts, lambda t: T.cancel_inverses(t, recursive=opts["recursive"])


def case_merge(rng):
    labels = lab(rng, rng.choice([1, 2, 2, 3, 3]))
    p1 = ["RX", "RY", "RZ", "PhaseShift", "RX", "RZ", "Hadamard", "PauliX", "S", "T", "Rot"]
    p2 = ["CRX", "CRY", "CRZ", "IsingXX", "IsingYY", "IsingZZ", "IsingXY", "ControlledPhaseShift", "CNOT", "CZ", "SWAP"]
    ops = rand_circuit(rng, labels, pair_p=0.6, pool1=p1, pool2=p2, pool3=["Toffoli"])
    opts = {"atol": rng.choice([1e-8, 1e-8, 1e-3, 0.0]), "include": rng.choice([None, None, None, ["RX", "CRX", "Rot"], ["RZ", "IsingZZ", "PhaseShift"]])}
    return labels, ops, opts, lambda t: T.merge_rotations(t, atol=opts["atol"], include_gates=opts["include"])


def case_commute(rng):
    labels = lab(rng, rng.choice([2, 2, 3, 3, 4]))
    p1 = ["PauliX", "PauliZ", "PauliY", "Hadamard", "S", "T", "SX", "RX", "RZ", "RY", "PhaseShift", "Rot", "RZ", "RX", "PauliX", "PauliZ"]
    p2 = ["CNOT", "CNOT", "CZ", "CY", "CH", "CRX", "CRY", "CRZ", "ControlledPhaseShift", "SWAP", "IsingXX", "IsingZZ", "CNOT", "CZ"]
    ex = []
    if len(labels) >= 3:
        ex.append((0.05, lambda: qp.ctrl(mk(rng.choice(["RX", "RZ", "S", "PauliY", "PhaseShift"]), [labels[2]], rng), control=rng.sample(labels[:2], rng.randint(1, 2)))))
        ex.append((0.04, lambda: qp.MultiControlledX(wires=rng.sample(labels, 3))))
    ops = rand_circuit(rng, labels, pair_p=0.15, pool1=p1, pool2=p2, pool3=["Toffoli", "CCZ", "CSWAP"], extra=ex)
    opts = {"direction": rng.choice(["left", "right"])}
    return labels, ops, opts, lambda t: T.commute_controlled(t, direction=opts["direction"])


def case_fusion(rng):
    labels = lab(rng, rng.choice([1, 2, 2, 3]))
    p1 = ["RX", "RY", "RZ", "PhaseShift", "Hadamard", "PauliX", "PauliY", "PauliZ", "S", "T", "SX", "Rot", "Rot", "U3", "U2", "U1"]
    ops = rand_circuit(rng, labels, pair_p=0.3, pool1=p1, pool2=["CNOT", "CZ", "CRX", "SWAP"], pool3=["Toffoli"],
                       extra=[(0.04, lambda: qp.QubitUnitary(rand_su(rng, 1), wires=[rng.choice(labels)]))])
    opts = {"atol": rng.choice([1e-8, 1e-8, 1e-4, 0.0]), "exclude": rng.choice([None, None, ["RX"], ["Hadamard", "Rot"]])}
    return labels, ops, opts, lambda t: T.single_qubit_fusion(t, atol=opts["atol"], exclude_gates=opts["exclude"])


def case_undo_swaps(rng):
    labels = lab(rng, rng.choice([2, 2, 3, 3, 4]))
    ops = rand_circuit(rng, labels, pair_p=0.2, pool2=["SWAP", "SWAP", "SWAP", "CNOT", "CZ", "CRX", "IsingXY"])
    return labels, ops, {}, lambda t: T.undo_swaps(t)


def case_gphase(rng):
    labels = lab(rng, rng.choice([1, 2, 3]))
    ops = rand_circuit(rng, labels, pair_p=0.2, extra=[(0.3, lambda: qp.GlobalPhase(pyth_angle(rng)) if rng.random() < 0.8 else qp.GlobalPhase(pyth_angle(rng), wires=rng.sample(labels, 1)))])
    return labels, ops, {}, lambda t: T.combine_global_phases(t)


def case_barrier(rng):
    labels = lab(rng, rng.choice([1, 2, 3, 4]))
    ops = rand_circuit(rng, labels, pair_p=0.2, extra=[(0.3, lambda: qp.Barrier(wires=rng.sample(labels, rng.randint(1, len(labels))), only_visual=rng.random() < 0.5))])
    return labels, ops, {}, lambda t: T.remove_barrier(t)


def rand_su(rng, k):
    rs = np.random.RandomState(rng.randint(0, 2 ** 31 - 1))
    d = 2 ** k
    A = rs.normal(size=(d, d)) + 1j * rs.normal(size=(d, d))
    Q, R = np.linalg.qr(A)
    Q = Q * (np.diag(R) / np.abs(np.diag(R)))
    if rng.random() < 0.3:    # special structured unitaries
        Q = rng.choice([np.eye(d), np.diag(np.exp(1j * rs.uniform(0, 6, size=d))), np.eye(d)[::-1]]).astype(complex)
    return Q


def case_u2rot(rng):
    labels = lab(rng, rng.choice([1, 2, 2, 3]))
    ex = [(0.35, lambda: qp.QubitUnitary(rand_su(rng, 1), wires=[rng.choice(labels)]))]
    if len(labels) >= 2:
        ex.append((0.25, lambda: qp.QubitUnitary(rand_su(rng, 2), wires=rng.sample(labels, 2))))
    ops = rand_circuit(rng, labels, length=rng.randint(1, 5), pair_p=0.1, extra=ex)
    return labels, ops, {}, lambda t: T.unitary_to_rot(t)


PATTERNS = {
    "ssz": lambda: [qp.S(0), qp.S(0), qp.PauliZ(0)],
    "hh": lambda: [qp.Hadamard(0), qp.Hadamard(0)],
    "cnot3": lambda: [qp.CNOT([0, 1]), qp.CNOT([1, 0]), qp.CNOT([0, 1]), qp.SWAP([0, 1])],
    "xcx": lambda: [qp.PauliX(0), qp.CNOT([0, 1]), qp.PauliX(0), qp.PauliX(1), qp.CNOT([0, 1])],
    "hzhx": lambda: [qp.Hadamard(0), qp.PauliZ(0), qp.Hadamard(0), qp.PauliX(0)],
    "czh": lambda: [qp.CZ([0, 1]), qp.Hadamard(1), qp.CNOT([0, 1]), qp.Hadamard(1)],
    "cn5": lambda: [qp.CNOT([1, 2]), qp.CNOT([0, 1]), qp.CNOT([1, 2]), qp.CNOT([0, 2]), qp.CNOT([0, 1])],
}


def use_all(rng, ops, labels):
    """append a T gate on every label the circuit does not use (pattern matching mishandles tapes whose wires are not
    exactly 0..n-1: known finding pinned by the corpus)"""
    used = set(w for o in ops for w in o.wires)
    return ops + [qp.T(w) for w in labels if w not in used]


def case_pattern(rng):
    labels = lab(rng, rng.choice([2, 3, 3, 4]), allow_str=False)
    names = rng.sample(sorted(PATTERNS), rng.randint(1, 2))
    names = [nm for nm in names if nm != "cn5" or len(labels) >= 3] or ["hh"]
    p1 = ["Hadamard", "PauliX", "PauliZ", "S", "T", "RZ"]
    ops = rand_circuit(rng, labels, pair_p=0.2, pool1=p1, pool2=["CNOT", "CNOT", "CZ", "SWAP"], pool3=[])
    # plant a fragment of one pattern
    pat = PATTERNS[names[0]]()
    k = len(qp.wires.Wires.all_wires([o.wires for o in pat]))
    ws = rng.sample(labels, k)
    frag = [o.map_wires(dict(zip(range(k), ws))) for o in pat][: rng.randint(2, len(pat))]
    pos = rng.randint(0, len(ops))
    ops = use_all(rng, ops[:pos] + frag + ops[pos:], labels)
    return labels, ops, {"patterns": names}, lambda t: T.pattern_matching_optimization(t, pattern_tapes=[QuantumScript(PATTERNS[nm]()) for nm in names])


def case_relphase(rng):
    labels = lab(rng, 4, allow_str=False)
    w = rng.sample(labels, 4)
    frag = [qp.CCZ([w[0], w[1], w[3]]), qp.ctrl(qp.S(w[1]), control=[w[0]]), qp.ctrl(qp.S(w[2]), control=[w[0], w[1]]), qp.MultiControlledX(wires=[w[0], w[1], w[2], w[3]])]
    if rng.random() < 0.3:
        frag = frag[: rng.randint(1, 4)]
    p1 = ["Hadamard", "PauliX", "T", "S", "PauliZ"]
    pre = rand_circuit(rng, labels, length=rng.randint(0, 3), pair_p=0.1, pool1=p1, pool2=["CNOT", "CZ"], pool3=[])
    post = rand_circuit(rng, labels, length=rng.randint(0, 3), pair_p=0.1, pool1=p1, pool2=["CNOT", "CZ"], pool3=[])
    return labels, use_all(rng, pre + frag + post, labels), {}, lambda t: T.match_relative_phase_toffoli(t)


def case_ctrl_ix(rng):
    nc = rng.choice([1, 1, 2])
    labels = lab(rng, nc + 2, allow_str=False)
    w = rng.sample(labels, nc + 2)
    frag = [qp.ctrl(qp.S(w[nc]), control=w[:nc]), qp.ctrl(qp.PauliX(w[nc + 1]), control=w[: nc + 1])]
    if rng.random() < 0.25:
        frag = frag[:1] if rng.random() < 0.5 else frag[1:]
    p1 = ["Hadamard", "PauliX", "T", "S", "PauliZ"]
    pre = rand_circuit(rng, labels, length=rng.randint(0, 3), pair_p=0.1, pool1=p1, pool2=["CNOT", "CZ"], pool3=[])
    post = rand_circuit(rng, labels, length=rng.randint(0, 3), pair_p=0.1, pool1=p1, pool2=["CNOT", "CZ"], pool3=[])
    return labels, use_all(rng, pre + frag + post, labels), {"num_controls": nc}, lambda t: T.match_controlled_iX_gate(t, num_controls=nc)


def case_rowcol(rng):
    import networkx as nx
    n = rng.choice([2, 3, 3, 4, 4])
    labels = lab(rng, n, allow_str=rng.random() < 0.5)
    ops = [qp.CNOT(rng.sample(labels, 2)) for _ in range(rng.randint(1, 8))]
    # the pass orders wires by first use (tape.wires); make every wire appear
    used = set(w for o in ops for w in o.wires)
    for w in labels:
        if w not in used:
            ops.append(qp.CNOT([w, rng.choice([x for x in labels if x != w])]))
    conn = None
    kind = "full"
    if rng.random() < 0.5 and n >= 3:
        kind = rng.choice(["line", "star"])
        conn = nx.path_graph(n) if kind == "line" else nx.star_graph(n - 1)
    return labels, ops, {"connectivity": kind}, lambda t: T.rowcol(t, connectivity=conn)


def case_merge_amp(rng):
    labels = lab(rng, rng.choice([2, 3, 4]))
    n = len(labels)
    k = rng.randint(1, n - 1)
    perm = rng.sample(labels, n)
    groups = [perm[:k], perm[k:]] if rng.random() < 0.8 else [perm[:k]]
    if len(groups) == 2 and len(groups[1]) >= 2 and rng.random() < 0.3:
        groups = [groups[0], groups[1][:1], groups[1][1:]]
    ops = []
    rs = np.random.RandomState(rng.randint(0, 2 ** 31 - 1))
    for g in groups:
        v = rs.normal(size=2 ** len(g)) + 1j * rs.normal(size=2 ** len(g)) * (rng.random() < 0.5)
        v = v / np.linalg.norm(v)
        ops.append(qp.AmplitudeEmbedding(v, wires=g))
        if rng.random() < 0.3:
            free = [w for w in labels if all(w not in gg for gg in groups) ]
            if free:
                ops.append(qp.Hadamard(rng.choice(free)))
    ops += rand_circuit(rng, labels, length=rng.randint(0, 3), pair_p=0.0)
    return labels, ops, {"groups": len(groups)}, lambda t: T.merge_amplitude_embedding(t)


def case_compile(rng):
    labels = lab(rng, rng.choice([1, 2, 2, 3, 3]))
    avail = {
        "cancel": lambda: T.cancel_inverses,
        "cancel_nr": lambda: functools.partial(T.cancel_inverses, recursive=False),
        "merge": lambda: T.merge_rotations,
        "merge_a": lambda: functools.partial(T.merge_rotations, atol=1e-5),
        "comm_r": lambda: T.commute_controlled,
        "comm_l": lambda: functools.partial(T.commute_controlled, direction="left"),
        "fusion": lambda: T.single_qubit_fusion,
        "barrier": lambda: T.remove_barrier,
        "gphase": lambda: T.combine_global_phases,
    }
    if rng.random() < 0.25:
        names = None
    else:
        names = [rng.choice(sorted(avail)) for _ in range(rng.randint(1, 4))]
    basis = rng.choice([None, None, ["CNOT", "RX", "RY", "RZ"], ["CNOT", "RX", "RY", "RZ", "GlobalPhase"], ["CNOT", "Rot", "PhaseShift", "RZ", "RY", "RX"]])
    npass = rng.choice([1, 1, 2, 3])
    # (a single-wire Barrier makes single_qubit_fusion raise: known finding pinned by the corpus, avoided here)
    ex = [(0.03, lambda: qp.Barrier(wires=rng.sample(labels, 2)) if len(labels) >= 2 else qp.Identity(labels[0])), (0.03, lambda: qp.GlobalPhase(pyth_angle(rng)))]
    ops = rand_circuit(rng, labels, pair_p=0.45, extra=ex)
    kw = {"basis_set": basis, "num_passes": npass}
    if names is not None:
        kw["pipeline"] = [avail[nm]() for nm in names]
    return labels, ops, {"pipeline": names, "basis_set": basis, "num_passes": npass}, lambda t: qp.compile(t, **kw)


def case_zx(which):
    def f(rng):
        labels = lab(rng, rng.choice([1, 2, 2, 3]), allow_str=False)
        p1 = ["Hadamard", "T", "S", "PauliX", "PauliZ", "T", "T"] + (["RZ"] if which in ("reduce_non_clifford",) else [])
        ops = rand_circuit(rng, labels, pair_p=0.25, pool1=p1, pool2=["CNOT", "CNOT", "CZ"], pool3=[], spect=("Hadamard", "T", "PauliX"))
        # the ZX passes return wires 0..k-1 in order of first use (known finding, pinned by the corpus); relabel the random
        # circuits so that this order coincides with the labels and everything else about the passes is still tested
        order = []
        for o in ops:
            for w in o.wires:
                if w not in order:
                    order.append(w)
        ops = [o.map_wires({w: i for i, w in enumerate(order)}) for o in ops]
        labels = list(range(len(order)))
        fn = getattr(qp.transforms.zx, which)
        return labels, ops, {}, lambda t: fn(t)
    return f


PASSES = [
    ("cancel_inverses", case_cancel, 5.0, "unitary"),
    ("merge_rotations", case_merge, 5.0, "unitary"),
    ("commute_controlled", case_commute, 5.0, "unitary"),
    ("single_qubit_fusion", case_fusion, 3.0, "unitary"),
    ("undo_swaps", case_undo_swaps, 2.0, "zero_state"),
    ("combine_global_phases", case_gphase, 1.5, "unitary"),
    ("remove_barrier", case_barrier, 1.0, "unitary"),
    ("pattern_matching_optimization", case_pattern, 2.5, "unitary"),
    ("unitary_to_rot", case_u2rot, 2.0, "unitary"),
    ("match_relative_phase_toffoli", case_relphase, 0.7, "unitary"),
    ("match_controlled_iX_gate", case_ctrl_ix, 1.0, "unitary"),
    ("rowcol", case_rowcol, 1.5, "unitary"),
    ("merge_amplitude_embedding", case_merge_amp, 1.0, "zero_state"),
    ("compile", case_compile, 4.0, "unitary"),
    ("zx.optimize_t_count", case_zx("optimize_t_count"), 0.6, "unitary"),
    ("zx.push_hadamards", case_zx("push_hadamards"), 0.6, "unitary"),
    ("zx.reduce_non_clifford", case_zx("reduce_non_clifford"), 0.6, "unitary"),
    ("zx.todd", case_zx("todd"), 0.6, "unitary"),
]

# hand-picked regression circuits (run first): (pass, labels, ops factory, call)
CORPUS_DIFF = [
    ("cancel_inverses", [0, 1, 2], lambda: [qp.MultiRZ(0.5, wires=[0, 1]), qp.adjoint(qp.MultiRZ(0.5, wires=[0, 1, 2]))],
     {"recursive": True, "corpus": "variable-arity-adjoint"}, lambda t: T.cancel_inverses(t)),
    ("cancel_inverses", [0, 1, 2], lambda: [qp.MultiRZ(0.5, wires=[0, 1]), qp.adjoint(qp.MultiRZ(0.5, wires=[1, 0, 2]))],
     {"recursive": True, "corpus": "arity-mismatch-cancels"}, lambda t: T.cancel_inverses(t)),
    ("cancel_inverses", [0, 1, 2], lambda: [qp.Toffoli([0, 1, 2]), qp.Toffoli([1, 0, 2]), qp.CCZ([0, 1, 2]), qp.CCZ([2, 0, 1]), qp.Toffoli([0, 2, 1]), qp.Toffoli([0, 1, 2])],
     {"recursive": True, "corpus": "toffoli-orders"}, lambda t: T.cancel_inverses(t)),
    ("cancel_inverses", [0, 1], lambda: [qp.CNOT([0, 1]), qp.CNOT([1, 0]), qp.CY([0, 1]), qp.CY([1, 0]), qp.CH([0, 1]), qp.CH([1, 0])],
     {"recursive": True, "corpus": "cnot-reversed"}, lambda t: T.cancel_inverses(t)),
    ("merge_rotations", [0, 1], lambda: [qp.CRX(math.pi / 2, [0, 1]), qp.CRX(math.pi / 2, [1, 0]), qp.RX(math.pi, 0), qp.RX(math.pi, 0)],
     {"atol": 1e-8, "include": None, "corpus": "crx-reversed"}, lambda t: T.merge_rotations(t)),
    ("zx.push_hadamards", [0, 1], lambda: [qp.Hadamard(1), qp.T(0)], {"corpus": "zx-wire-order"}, lambda t: qp.transforms.zx.push_hadamards(t)),
    ("zx.optimize_t_count", [0, 1], lambda: [qp.Hadamard(1), qp.T(0)], {"corpus": "zx-wire-order"}, lambda t: qp.transforms.zx.optimize_t_count(t)),
    ("zx.reduce_non_clifford", [0, 1], lambda: [qp.Hadamard(1), qp.T(0)], {"corpus": "zx-wire-order"}, lambda t: qp.transforms.zx.reduce_non_clifford(t)),
    ("zx.todd", [0, 1], lambda: [qp.Hadamard(1), qp.T(0)], {"corpus": "zx-wire-order"}, lambda t: qp.transforms.zx.todd(t)),
    ("pattern_matching_optimization", [0, 1, 2, 3], lambda: [qp.PauliX(0), qp.CNOT([0, 3]), qp.PauliX(0), qp.T(2)], {"patterns": ["xcx"], "corpus": "pattern-nonconsecutive-wires"},
     lambda t: T.pattern_matching_optimization(t, pattern_tapes=[QuantumScript(PATTERNS["xcx"]())])),
    ("pattern_matching_optimization", [0, 1, 2], lambda: [qp.PauliX(2), qp.CNOT([2, 0]), qp.PauliX(2), qp.T(2)], {"patterns": ["xcx"], "corpus": "pattern-nonconsecutive-wires-raises"},
     lambda t: T.pattern_matching_optimization(t, pattern_tapes=[QuantumScript(PATTERNS["xcx"]())])),
    ("single_qubit_fusion", [0], lambda: [qp.SX(0), qp.Barrier(wires=[0])], {"atol": 1e-8, "exclude": None, "corpus": "fusion-single-wire-barrier"}, lambda t: T.single_qubit_fusion(t)),
    ("commute_controlled", [0, 1, 2], lambda: [qp.PauliX(1), qp.CNOT([0, 1]), qp.PauliZ(1), qp.CNOT([1, 2]), qp.S(0), qp.CZ([0, 2]), qp.RX(math.pi / 2, 2), qp.Toffoli([0, 1, 2])],
     {"direction": "right", "corpus": "x-z-through-cnot"}, lambda t: T.commute_controlled(t)),
    # shortcut branches of fuse_rot_angles (one of the two rotations has no Y part; only the other, or both)
    ("merge_rotations", [0], lambda: [qp.Rot(0.3, 0.0, 0.9, wires=0), qp.Rot(0.2, 0.7, -0.4, wires=0)],
     {"atol": 1e-8, "include": None, "corpus": "rot-noY-then-Y"}, lambda t: T.merge_rotations(t)),
    ("merge_rotations", [0], lambda: [qp.Rot(0.2, 0.7, -0.4, wires=0), qp.Rot(0.3, 0.0, 0.9, wires=0), qp.Rot(0.5, 0.0, -0.2, wires=0), qp.Rot(-0.1, 0.0, 0.6, wires=0)],
     {"atol": 1e-8, "include": None, "corpus": "rot-Y-then-noY"}, lambda t: T.merge_rotations(t)),
    ("single_qubit_fusion", [0, 1], lambda: [qp.Rot(0.3, 0.0, 0.9, wires=0), qp.RY(0.7, wires=0), qp.RZ(0.4, wires=1), qp.S(1), qp.RY(1.1, wires=1), qp.T(1)],
     {"atol": 1e-8, "exclude": None, "corpus": "fusion-noY-then-Y"}, lambda t: T.single_qubit_fusion(t)),
    ("single_qubit_fusion", [0, 1], lambda: [qp.CNOT([0, 1]), qp.Rot(0.5, 1.1, 0.8, wires=1), qp.Rot(-0.8, -1.1, 1.3, wires=1), qp.Hadamard(1), qp.CNOT([1, 0])],
     {"atol": 1e-8, "exclude": None, "corpus": "fusion-cancelling-Y"}, lambda t: T.single_qubit_fusion(t)),
    # leftward pushes over more than one controlled gate (the search for the next gate runs on the reversed prefix)
    ("commute_controlled", [0, 1, 2], lambda: [qp.CZ([1, 2]), qp.CNOT([1, 0]), qp.CZ([0, 2]), qp.PauliZ(0)],
     {"direction": "left", "corpus": "left-two-hops"}, lambda t: T.commute_controlled(t, direction="left")),
    ("commute_controlled", [0, 1, 2], lambda: [qp.CRY(0.4, [0, 1]), qp.Toffoli([0, 1, 2]), qp.CNOT([2, 0]), qp.S(0), qp.PauliX(2), qp.RZ(0.3, 1)],
     {"direction": "left", "corpus": "left-mixed"}, lambda t: T.commute_controlled(t, direction="left")),
]


def jsonable_opts(o):
    return json.loads(json.dumps(o, default=str))


def diff_stream(rng, n, npreps):
    runs = []
    weights = [p[2] for p in PASSES]
    plan = [(c[0], None, c) for c in CORPUS_DIFF]
    while len(plan) < n:
        ps = rng.choices(PASSES, weights=weights)[0]
        plan.append((ps[0], ps, None))
    for name, ps, corp in plan:
        run = {"pass": name, "status": "ok"}
        runs.append(run)
        try:
            if corp is not None:
                labels, ops, opts, call = corp[1], corp[2](), corp[3], corp[4]
                mode = "unitary"
            else:
                labels, ops, opts, call = ps[1](rng)
                mode = ps[3]
        except Exception as e:
            run.update({"status": "generror", "detail": f"{type(e).__name__}: {str(e)[:200]}"})
            continue
        run.update({"labels": [str(l) for l in labels], "n": len(labels), "opts": jsonable_opts(opts), "ops_in": [repr(o) for o in ops], "mode": mode})
        try:
            res = call(fresh_tape(ops, wires=qp.wires.Wires(labels)))
            out_tape = res[0][0]
            out = list(out_tape.operations)
        except qp.exceptions.QuantumFunctionError as e:
            if "less qubits than the pattern" in str(e):      # explicit documented rejection of pattern_matching_optimization
                run.update({"status": "rejected", "detail": str(e)[:100]})
                continue
            run.update({"status": "raised", "detail": f"{type(e).__name__}: {str(e)[:300]}", "where": ""})
            continue
        except Exception as e:
            import traceback
            run.update({"status": "raised", "detail": f"{type(e).__name__}: {str(e)[:300]}", "where": traceback.format_exc().strip().splitlines()[-3:][0][:200]})
            continue
        run["ops_out"] = [repr(o) for o in out]
        run["changed"] = run["ops_out"] != run["ops_in"]
        extra_w = [w for o in out for w in o.wires if w not in labels]
        if extra_w:
            run.update({"status": "newwires", "detail": str(extra_w)[:100]})
            continue
        # numeric comparison is always computed (cheap, <= 4 wires) and used as the verdict only when the exact route is unavailable
        try:
            if mode == "unitary":
                run["num_dist"] = phase_dist(unitary_of(ops, labels), unitary_of(out, labels))
            else:
                z = np.zeros(2 ** len(labels), dtype=complex); z[0] = 1
                a = state_of(ops, labels); b = state_of(out, labels)
                ov = abs(np.vdot(a, b))
                run["num_dist"] = float(abs(1 - ov))
        except Exception as e:
            run["num_dist"] = None
            run["num_err"] = f"{type(e).__name__}: {str(e)[:200]}"
        try:
            if any(o.name in ("QubitUnitary", "AmplitudeEmbedding", "StatePrep") for o in ops + out):
                raise NotExtractable("numeric operator")
            preps = [0] if mode == "zero_state" else ([1, 2] if npreps == 2 else [1, 2, 0])
            circs = []
            for k in preps:
                pre = prep_ops(rng, labels, k)
                circs.append(exact_circuit_gallina(pre + ops, labels))
                circs.append(exact_circuit_gallina(pre + out, labels))
            run["exact"] = circs
            run["preps"] = preps
        except NotExtractable as e:
            run["exact"] = None
            run["notex"] = str(e)[:120]
        except Exception as e:
            run["exact"] = None
            run["notex"] = f"translator: {type(e).__name__}: {str(e)[:120]}"
    return runs


def state_of(ops, labels):
    """float state from |0..0>; AmplitudeEmbedding/StatePrep as first operations set the register"""
    n = len(labels)
    psi = np.zeros(2 ** n, dtype=complex); psi[0] = 1
    for o in ops:
        if o.name in ("Barrier",):
            continue
        if o.name in ("AmplitudeEmbedding", "StatePrep"):
            # valid only while the target wires are still in |0>: embed the vector on those wires
            v = np.asarray(o.state_vector(wire_order=labels)).reshape(-1)
            # psi = (|0><0| on o.wires contracted) (x) v : since wires are in |0>, multiply amplitudes
            t = psi.reshape([2] * n)
            idx = [labels.index(w) for w in o.wires]
            sl = [slice(None)] * n
            for i in idx:
                sl[i] = 0
            rest = t[tuple(sl)]                      # amplitudes of the other wires
            vv = np.asarray(o.state_vector()).reshape([2] * len(idx))
            full = np.tensordot(vv, rest, axes=0)    # axes: idx..., others...
            others = [i for i in range(n) if i not in idx]
            full = np.moveaxis(full, range(n), idx + others)
            psi = full.reshape(-1)
            continue
        if len(o.wires) == 0:
            psi = complex(np.asarray(qp.matrix(o)).reshape(-1)[0]) * psi
            continue
        psi = np.asarray(qp.matrix(o, wire_order=labels)) @ psi
    return psi


if __name__ == "__main__":
    req = json.load(sys.stdin)
    rng = random.Random(req["seed"] * 7919 + 17)
    out = {}
    if req.get("n_drv", 0):
        out["drivers"] = driver_stream(rng, req["n_drv"])
    rng2 = random.Random(req["seed"] * 104729 + 171)
    if req.get("n_diff", 0):
        out["diff"] = diff_stream(rng2, req["n_diff"], req.get("npreps", 2))
    print(json.dumps(out))
