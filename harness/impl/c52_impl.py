"""Runs the real pennylane grouping code on the JSON cases from stdin; prints one JSON line.

case = {"gt": "qwc"|"commuting"|"anticommuting", "method": "lf"|"rlf"|"dsatur"|"gis",
        "obs": [[[letter, wire], ...], ...]   ([] = qp.I() without wires), "coeffs": [int, ...],
        "scal": optional list of [num, den] (dyadic) scalars used only for the diagonalisation call}
"""
import json, math, sys
import numpy as np
import rustworkx as rx
import pennylane as qp
from pennylane.pauli import (group_observables, compute_partition_indices, PauliGroupingStrategy,
                             diagonalize_qwc_pauli_words)
import importlib
GO = importlib.import_module("pennylane.pauli.grouping.group_observables")
from pennylane.pauli.grouping.graph_colouring import recursive_largest_first

LET = {"I": qp.Identity, "X": qp.X, "Y": qp.Y, "Z": qp.Z}


def mk_op(factors):
    if not factors:
        return qp.Identity()
    ops = [LET[l](w) for l, w in factors]
    return ops[0] if len(ops) == 1 else qp.prod(*ops)


def pw_of(op):
    """(coefficient, [[wire, letter], ...]) of a Pauli-word operator"""
    pr = op.pauli_rep
    if pr is None or len(pr) != 1:
        raise ValueError("not a single pauli word: %r" % (op,))
    pw = next(iter(pr))
    c = pr[pw]
    return complex(c), [[w, l] for w, l in pw.items()], len(op.wires) > 0


def exact(c):
    c = complex(c)
    if c.imag != 0 or c.real != round(c.real * 64) / 64:
        raise ValueError("inexact coefficient %r" % (c,))
    return [int(round(c.real * 64)), 64]


def op_out(op):
    c, pw, hw = pw_of(op)
    return {"c": exact(c), "pw": pw, "hw": hw}


def mat_of(op, wires):
    if len(op.wires) == 0:
        return np.eye(2 ** len(wires), dtype=complex)
    return np.asarray(qp.matrix(op, wire_order=wires), dtype=complex)


def diag_call(group, wires, numeric):
    """real diagonalize_qwc_pauli_words on `group`; numeric check U P U^dag == returned op, diagonal"""
    try:
        gates, new_ops = diagonalize_qwc_pauli_words(group)
    except ValueError:
        return "ERR"
    out = {"gates": [[g.name, g.wires.tolist()[0], float(g.data[0])] for g in gates],
           "ops": [op_out(o) for o in new_ops], "num": None}
    if numeric and wires:
        U = np.eye(2 ** len(wires), dtype=complex)
        for g in gates:          # each acts on its own wire; order irrelevant
            U = np.asarray(qp.matrix(g, wire_order=wires), dtype=complex) @ U
        ok = len(new_ops) == len(group)
        for P, D in zip(group, new_ops):
            lhs = U @ mat_of(P, wires) @ U.conj().T
            rhs = mat_of(D, wires)
            ok = ok and np.allclose(lhs, rhs, atol=1e-9) and np.allclose(rhs, np.diag(np.diag(rhs)), atol=1e-12)
        out["num"] = bool(ok)
    return out


def run_case(c):
    gt, method = c["gt"], c["method"]
    obs = [mk_op(f) for f in c["obs"]]
    coeffs = [float(x) for x in c["coeffs"]]
    wobs = [o for o in obs if len(o.wires) > 0]
    r = {}
    all_wires = qp.wires.Wires.all_wires([o.wires for o in obs]).tolist()
    r["wires"] = all_wires
    if wobs:
        st = PauliGroupingStrategy(wobs, grouping_type=gt, graph_colourer=method)
        r["bin"] = [[int(v) for v in row] for row in st.binary_observables]
        r["adj"] = [[bool(v) for v in row] for row in st.adj_matrix]
        sta = PauliGroupingStrategy(obs, grouping_type=gt, graph_colourer=method)
        r["adj_all"] = [[bool(v) for v in row] for row in sta.adj_matrix]
        if method == "rlf":
            d = recursive_largest_first(st.binary_observables, st.adj_matrix)
            r["rlf"] = [[[int(v) for v in row] for row in g] for g in d.values()]
            r["cols"], r["cols_all"], r["sidx"] = [], [], []
        else:
            col = rx.graph_greedy_color(st.complement_graph, strategy=GO.RX_STRATEGIES[method])
            r["cols"] = [int(col[i]) for i in range(len(wobs))]
            cola = rx.graph_greedy_color(sta.complement_graph, strategy=GO.RX_STRATEGIES[method])
            r["cols_all"] = [int(cola[i]) for i in range(len(obs))]
            st2 = PauliGroupingStrategy(wobs, grouping_type=gt, graph_colourer=method)
            r["sidx"] = [list(map(int, g)) for g in st2.idx_partitions_from_graph()]
    else:
        r.update({"bin": [], "adj": [], "adj_all": [], "cols": [], "cols_all": [], "sidx": [], "rlf": []})
    try:
        groups, cgroups = group_observables(obs, coeffs, grouping_type=gt, method=method)
        r["groups"] = [[op_out(o) for o in g] for g in groups]
        r["cgroups"] = [[int(x) if float(x) == int(x) else None for x in g] for g in cgroups]
    except (IndexError, ValueError, TypeError) as ex:
        groups = None
        r["groups"] = "ERR:" + type(ex).__name__
        r["cgroups"] = []
    try:
        r["pidx"] = [list(map(int, g)) for g in compute_partition_indices(obs, grouping_type=gt, method=method)]
    except (IndexError, ValueError, TypeError) as ex:
        r["pidx"] = "ERR:" + type(ex).__name__
    numeric = len(all_wires) <= 4
    r["diag"] = []
    if groups is not None:
        for g in groups:
            r["diag"].append(diag_call(list(g), all_wires, numeric))
    # a second diagonalisation call with scalar multiples of the members of the first group
    r["sdiag"] = None
    if groups is not None and c.get("scal") and gt == "qwc":
        g = list(groups[0])
        sc = c["scal"]
        g2 = [qp.s_prod(sc[i % len(sc)][0] / sc[i % len(sc)][1], o) for i, o in enumerate(g)]
        d = diag_call(g2, all_wires, numeric)
        r["sdiag"] = {"in": [op_out(o) for o in g2], "out": d}
    return r


def gate_mats():
    s = math.sqrt(2)
    ry = np.asarray(qp.matrix(qp.RY(-np.pi / 2, wires=0))) * s
    rx_ = np.asarray(qp.matrix(qp.RX(np.pi / 2, wires=0))) * s
    return bool(np.allclose(ry, [[1, 1], [-1, 1]]) and np.allclose(rx_, [[1, -1j], [-1j, 1]]))


inp = json.load(sys.stdin)
out = {"gate_mats_ok": gate_mats(), "obs": [run_case(c) for c in inp["cases"]]}
print(json.dumps(out))
