"""Runs the real pennylane Lie-algebra tools on the JSON cases from stdin; one JSON line on stdout.

sentence (input)  = [[[[wire, "X"], ...], num, den], ...]
sentence (output) = [[[[wire, "X"], ...], re, im], ...]
case "closure": {"t": "closure", "n": qubits, "gens": [sentence], "invs": [[name, wire], ...]}
   -> {"ps": {...}, "op": {...}, "mat": {...}} each with the DLA basis, structure constants and Cartan splits
case "vspace": {"t": "vspace", "init": [sentence], "cands": [sentence]}
   -> {"basis0": kept indices of init, "indep": [bool per cand, against the initial space], "added": [bool per cand]}
"""
import functools
import json
import sys

import numpy as np
import pennylane as qp
from pennylane import liealg
from pennylane.pauli import PauliSentence, PauliVSpace, PauliWord

P = {"X": qp.X, "Y": qp.Y, "Z": qp.Z}
M1 = {"I": np.eye(2), "X": np.array([[0, 1], [1, 0]]), "Y": np.array([[0, -1j], [1j, 0]]), "Z": np.diag([1, -1])}


def mk_ps(sent):
    return PauliSentence({PauliWord({int(w): p for w, p in letters}): num / den for letters, num, den in sent})


def mk_op(sent, n):
    terms = []
    for letters, num, den in sent:
        ops = [P[p](int(w)) for w, p in letters]
        word = qp.prod(*ops) if len(ops) > 1 else (ops[0] if ops else qp.I(0))
        terms.append(qp.s_prod(num / den, word))
    return qp.sum(*terms) if len(terms) > 1 else terms[0]


def mk_mat(sent, n):
    tot = np.zeros((2 ** n, 2 ** n), dtype=complex)
    for letters, num, den in sent:
        d = {int(w): p for w, p in letters}
        m = np.array([[1.0 + 0j]])
        for q in range(n):
            m = np.kron(m, M1[d.get(q, "I")])
        tot += (num / den) * m
    return tot


def dump_ps(ps):
    out = []
    for pw, c in ps.items():
        c = complex(c)
        out.append([[[int(w), p] for w, p in pw.items()], c.real, c.imag])
    return out


def involution(name, wire, n):
    half = 2 ** (n - 1)
    if name == "even_odd":
        return liealg.even_odd_involution
    if name == "concurrence":
        return liealg.concurrence_involution
    if name in ("AI", "CI"):
        return getattr(liealg, name)
    if name in ("AII", "DIII", "A", "BD", "C"):
        return functools.partial(getattr(liealg, name), wire=wire)
    if name in ("AIII", "BDI"):
        return functools.partial(getattr(liealg, name), p=half, q=half, wire=wire)
    if name == "CII":
        quarter = 2 ** (n - 2)
        return functools.partial(liealg.CII, p=quarter, q=quarter, wire=wire)
    raise KeyError(name)


def cartan(dla, invs, n, dump):
    res = []
    for name, wire in invs:
        try:
            k, m = liealg.cartan_decomp(list(dla), involution(name, wire, n))
            res.append({"k": [dump(x) for x in k], "m": [dump(x) for x in m]})
        except (AssertionError, ValueError, NotImplementedError) as e:
            res.append("UNDEF:" + type(e).__name__)
    return res


def cmat(a):
    a = np.asarray(a)
    return [np.real(a).tolist(), np.imag(a).tolist()]


def run_closure(c):
    n, gens, invs = c["n"], c["gens"], c["invs"]
    out = {}
    # PauliSentence form
    g = qp.lie_closure([mk_ps(s) for s in gens], pauli=True)
    r = {"basis": [dump_ps(x) for x in g]}
    if len(g) <= c["cap"]:
        r["f_gen"] = np.asarray(qp.structure_constants(g, pauli=True, is_orthogonal=False)).tolist()
        if all(len(x) == 1 for x in g):
            r["f_orth"] = np.asarray(qp.structure_constants(g, pauli=True)).tolist()
        r["cartan"] = cartan(g, invs, n, dump_ps)
    out["ps"] = r
    # Operator form
    g = qp.lie_closure([mk_op(s, n) for s in gens])
    r = {"basis": [dump_ps(x.pauli_rep) for x in g]}
    if len(g) <= c["cap"]:
        r["f_gen"] = np.asarray(qp.structure_constants(g, is_orthogonal=False)).tolist()
        r["cartan"] = cartan(g, invs, n, lambda x: dump_ps(x.pauli_rep))
    out["op"] = r
    # dense matrix form (generators given as matrices built here with numpy kron)
    mats = [mk_mat(s, n) for s in gens]
    g = qp.lie_closure(mats, matrix=True)
    r = {"dim": int(len(g))}
    if len(g) <= c["cap"]:
        r["basis"] = [cmat(x) for x in g]
        r["f"] = np.asarray(qp.structure_constants(g, matrix=True)).tolist()
        minvs = [iv for iv in invs if iv[0] in ("even_odd", "concurrence", "AI", "AII", "AIII", "DIII")]
        r["minvs"] = minvs
        r["cartan"] = cartan(g, minvs, n, cmat)
    out["mat"] = r
    return out


def run_vspace(c):
    init = [mk_ps(s) for s in c["init"]]
    vs = PauliVSpace(init)
    kept, j = [], 0
    for i, s in enumerate(init):
        if j < len(vs.basis) and vs.basis[j] is s:
            kept.append(i)
            j += 1
    cands = [mk_ps(s) for s in c["cands"]]
    indep = [bool(vs.is_independent(x)) for x in cands]
    added = []
    for x in cands:
        before = len(vs)
        vs.add(x)
        added.append(len(vs) > before)
    return {"basis0": kept, "nbasis0": len(kept), "consistent": j == len(kept) and len(kept) + sum(added) == len(vs),
            "indep": indep, "added": added}


res = []
for c in json.load(sys.stdin)["cases"]:
    res.append(run_closure(c) if c["t"] == "closure" else run_vspace(c))
print(json.dumps(res))
