"""C65 driver: runs the REAL native executors of pennylane.concurrency on generated module-level pure
functions and argument lists; JSON cases on stdin -> one JSON line of observations on stdout.

The generated functions live at module level of this file so that they pickle by name for the
spawn-based process backends (the children re-import this file as __mp_main__; pennylane itself is
imported only under the __main__ guard so that workers start quickly).

g_<nreq><ndef><var><arith>(x0.., k0=None.., *rest)
  term functions  return [fid, [bound required], [bound defaults or None], [rest]]
  arith functions return fid + sum((i+1)*v_i) over the bound ints (default = -1), TypeError on non-ints
Every call sleeps (first int found in its arguments mod 8) * UNIT seconds, so that the harness controls
the completion order through the argument values, and appends its result to the completion log.
"""
import itertools
import json
import os
import sys
import time

UNIT = float(os.environ.get("C65_UNIT", "0.0004"))
LOG = os.environ.get("C65_LOG")
_QUIET = False            # set by the driver process while it computes the direct oracle
_NOSLEEP = False          # set by the driver process for the serial backend (no concurrency to perturb)


def _warm(x):
    time.sleep(0.15)
    return x


def enc(v):
    if isinstance(v, (list, tuple)):
        return {"s": [enc(x) for x in v]}
    return v


def _first_int(vs):
    for v in vs:
        if isinstance(v, (list, tuple)):
            r = _first_int(v)
            if r is not None:
                return r
        elif isinstance(v, int):
            return v
    return None


def _body(fid, arith, req, dfl, rest):
    if arith:
        vals = list(req) + [(-1 if d is None else d) for d in dfl] + list(rest)
        if not all(type(v) is int for v in vals):
            raise TypeError("arith function needs ints")
        out = fid + sum((i + 1) * v for i, v in enumerate(vals))
    else:
        out = [fid, [enc(x) for x in req], [None if d is None else enc(d) for d in dfl], [enc(x) for x in rest]]
    if not _QUIET:
        k = _first_int(list(req) + [d for d in dfl if d is not None] + list(rest))
        if k is not None and k % 8 and not _NOSLEEP:
            time.sleep((k % 8) * UNIT)
        if LOG:
            fd = os.open(LOG, os.O_WRONLY | os.O_APPEND | os.O_CREAT)
            try:
                os.write(fd, (json.dumps(out) + "\n").encode())
            finally:
                os.close(fd)
    return out


def fn_id(nreq, ndef, var, arith):
    return 1000 * (1 if arith else 0) + 100 * nreq + 10 * ndef + (1 if var else 0)


def fn_name(nreq, ndef, var, arith):
    return f"g_{nreq}{ndef}{int(bool(var))}{int(bool(arith))}"


for _nreq in range(4):
    for _ndef in range(3):
        for _var in (0, 1):
            for _ar in (0, 1):
                _xs = [f"x{i}" for i in range(_nreq)]
                _ks = [f"k{j}" for j in range(_ndef)]
                _sig = ", ".join(_xs + [f"{k}=None" for k in _ks] + (["*rest"] if _var else []))
                _src = (f"def {fn_name(_nreq, _ndef, _var, _ar)}({_sig}):\n"
                        f"    return _body({fn_id(_nreq, _ndef, _var, _ar)}, {bool(_ar)}, "
                        f"({''.join(x + ',' for x in _xs)}), ({''.join(k + ',' for k in _ks)}), "
                        f"{'rest' if _var else '()'})\n")
                exec(_src, globals())


def dec(v):
    if isinstance(v, dict):
        return [dec(x) for x in v["s"]]
    return v


def main():
    global _QUIET, _NOSLEEP
    import concurrent.futures.process as cfp
    from pennylane.concurrency.executors import create_executor

    payload = json.load(sys.stdin)
    me = sys.modules[__name__]
    persistent = {}
    out = []

    # process workers re-import this file: give THEM a longer sleep unit, so that completion order really differs from
    # submission order in spite of IPC latency (threads in this process keep the short unit)
    os.environ["C65_UNIT"] = os.environ.get("C65_PROC_UNIT", "0.008")

    def get_exec(be, w, persist):
        if be == "serial":
            return create_executor(be), False
        if persist:
            key = (be, w)
            if key not in persistent:
                persistent[key] = create_executor(be, max_workers=w, persist=True)
                if be in ("mp_pool", "cf_procpool") and w >= 2:
                    try:            # warm-up: make sure every worker process is up before order-sensitive calls
                        persistent[key].map(_warm, list(range(2 * w)))
                    except Exception:
                        pass
            return persistent[key], False
        return create_executor(be, max_workers=w), True

    for c in payload["cases"]:
        f = c["fn"]
        fn = getattr(me, fn_name(f["nreq"], f["ndef"], f["var"], f["arith"]))
        kw = {f"k{k}": dec(v) for k, v in c["kw"]}
        op = c["op"]
        data = [dec(x) for x in c["data"]]
        # ---- direct oracle: the builtins, in this process, no sleeping/logging
        _QUIET = True
        tasks = None
        try:
            if op == "submit":
                direct = [fn(*data, **kw)]
            elif op == "map":
                direct = list(map(lambda *a: fn(*a, **kw), *data))
            else:
                direct = list(itertools.starmap(lambda *a: fn(*a, **kw), [tuple(r) for r in data]))
            tasks = direct
        except (TypeError, ValueError):
            direct = "ERR"
        _QUIET = False
        # ---- the executor
        if LOG:
            open(LOG, "w").close()
        _NOSLEEP = c["be"] == "serial"
        ex, _tmp = get_exec(c["be"], c["workers"], c["persist"])
        t0 = time.time()
        etype = None
        try:
            if op == "submit":
                res = [ex.submit(fn, *data, **kw)]
            elif op == "map":
                res = ex.map(fn, *data, **kw)
            else:
                res = ex.starmap(fn, [tuple(r) for r in data], **kw)
            if not isinstance(res, list):
                res = {"notalist": repr(type(res))}
        except (cfp.BrokenProcessPool, OSError, MemoryError):
            raise
        except Exception as e:  # canonicalised to Err; the type is kept for information only
            etype = type(e).__name__
            res = "ERR"
        dt = time.time() - t0
        # ---- observed completion order (indices into the builtin's task list)
        perm, observed = None, False
        if LOG and tasks is not None:
            with open(LOG) as fh:
                lines = [json.loads(l) for l in fh.read().splitlines() if l.strip()]
            used, perm = set(), []
            for ln in lines:
                hit = next((i for i, t in enumerate(tasks) if i not in used and t == ln), None)
                if hit is None:
                    perm = None
                    break
                used.add(hit)
                perm.append(hit)
            if perm is not None and len(used) == len(tasks):
                observed = True
            else:
                perm = None
        out.append({"res": res, "direct": direct, "perm": perm, "observed": observed,
                    "etype": etype, "t": round(dt, 4)})
    for ex in persistent.values():
        ex.shutdown()
    print(json.dumps(out))


if __name__ == "__main__":
    main()
