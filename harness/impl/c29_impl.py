"""C29 implementation driver.  JSON on stdin -> one JSON line on stdout.

det   : the real sample_state / measure_with_samples (devices/qubit/sampling.py) are run with the random
        generator replaced by a stub that is driven by a fixed list of uniform variates:
          backend "numpy"  : subclass of np.random.Generator overriding `choice` (inverse CDF on the list)
          backend "numpyB" : subclass overriding only `random`  -> numpy's own Generator.choice runs
          backend "jax"    : jax.random.choice replaced by the inverse-CDF stub (prng_key path)
valid : QNodes on default.qubit (numpy seed / jax PRNGKey) and default.mixed with the REAL generators;
        canonical results are returned for the validity oracle.
stat  : real samples as outcome histograms + exact reference probabilities computed here from the
        analytic state vector with an independent marginalisation loop.
shots : Shots(spec) for every operand and their sum; iteration, total, shot_vector, copies, bins are reported.
valid cases may carry "batch" = {"wire", "xs"}: RY(xs) on that wire ahead of the gates, QNode called once with the whole
        parameter batch; the result is split per batch entry and returned with the exact reference of the scalar circuit.
det / valid cases may carry "svspec" (ints and [shots, copies] pairs): that specification is handed to Shots /
        set_shots as written, while "sv" holds its documented expansion computed by the harness.
"""
import json
import sys
import warnings

import numpy as np

warnings.filterwarnings("ignore")
import pennylane as qp  # noqa: E402
from pennylane.devices.qubit import sampling as S  # noqa: E402
from pennylane.measurements import Shots  # noqa: E402

_jax = None


def jaxmod():
    global _jax
    if _jax is None:
        import jax
        _jax = jax
    return _jax


# ---------------------------------------------------------------------------- stubs
class Stream:
    def __init__(self, us):
        self.us = [a / b for a, b in us]
        self.calls = []
        self.args_ok = True

    def take(self, n):
        if n > len(self.us):
            raise RuntimeError("uniform stream exhausted")
        out = np.array(self.us[:n], dtype=np.float64)
        del self.us[:n]
        return out

    def inv_cdf(self, a, n, p):
        p = np.asarray(p, dtype=np.float64)
        a = np.asarray(a)
        self.calls.append(p.tolist())
        if a.tolist() != list(range(len(p))):
            self.args_ok = False
        cdf = np.cumsum(p)
        cdf = cdf / cdf[-1]
        return a[np.searchsorted(cdf, self.take(n), side="right")]


class GenChoice(np.random.Generator):
    def __init__(self, stream):
        super().__init__(np.random.PCG64(0))
        self.stream = stream

    def choice(self, a, size=None, replace=True, p=None, axis=0, shuffle=True):
        return self.stream.inv_cdf(a, int(size), p)


class GenRandom(np.random.Generator):
    def __init__(self, stream):
        super().__init__(np.random.PCG64(0))
        self.stream = stream

    def random(self, size=None, dtype=np.float64, out=None):
        n = int(np.prod(size)) if size is not None else 1
        u = self.stream.take(n)
        return u.reshape(size) if size is not None else float(u[0])


def build_state(amps, k, n):
    v = np.array([complex(a, b) for a, b in amps], dtype=np.complex128) / float(2 ** k)
    return v.reshape([2] * n)


def build_mp(m):
    t, ws = m["t"], m["ws"]
    if t == "sample":
        return qp.sample(wires=ws) if ws else qp.sample()
    if t == "counts":
        return qp.counts(wires=ws, all_outcomes=m["all"]) if ws else qp.counts(all_outcomes=m["all"])
    ob = qp.Z(ws[0])
    for w in ws[1:]:
        ob = ob @ qp.Z(w)
    if t == "sample_obs":
        return qp.sample(ob)
    return qp.counts(ob, all_outcomes=m["all"])


def spec_arg(spec):
    return tuple(tuple(e) if isinstance(e, list) else e for e in spec) if isinstance(spec, list) else spec


def describe_shots(sh):
    return {"iter": [int(s) for s in sh], "total": int(sh.total_shots),
            "vector": [[int(sc.shots), int(sc.copies)] for sc in sh.shot_vector], "copies": int(sh.num_copies),
            "bins": [[int(a), int(b)] for a, b in sh.bins()], "part": bool(sh.has_partitioned_shots)}


def run_shots(c):
    objs = [Shots(spec_arg(op)) for op in c["ops"]]
    tot = objs[0]
    for s in objs[1:]:
        tot = tot + s
    return {"each": [describe_shots(s) for s in objs], "sum": describe_shots(tot)}


def ints(x):
    arr = np.asarray(x, dtype=np.float64)
    r = np.rint(arr)
    if not np.array_equal(r, arr):
        raise RuntimeError("non-integral value")
    return r.astype(np.int64)


def canon_res(m, x):
    t = m["t"]
    if t == "sample":
        a = ints(x)
        if a.ndim != 2:
            return {"struct": "bad-ndim"}
        return {"bits": a.tolist()}
    if t == "sample_obs":
        a = ints(x)
        if a.ndim != 1:
            return {"struct": "bad-ndim"}
        return {"eig": a.tolist()}
    if not isinstance(x, dict):
        return {"struct": "not-a-dict"}
    if t == "counts":
        lens = sorted({len(str(k)) for k in x})
        return {"counts": sorted([int(str(k), 2), int(v)] for k, v in x.items()), "keylens": lens}
    return {"counts": sorted([int(ints(k)), int(v)] for k, v in x.items())}


def run_det(c):
    n, k = c["n"], c["k"]
    stream = Stream(c["us"])
    be = c["backend"]
    kw = {}
    restore = None
    if be == "numpy":
        kw["rng"] = GenChoice(stream)
    elif be == "numpyB":
        kw["rng"] = GenRandom(stream)
    else:
        jax = jaxmod()
        orig = jax.random.choice

        def fake_choice(key, a, shape=(), replace=True, p=None, axis=0, mode=None):
            return jax.numpy.asarray(stream.inv_cdf(np.asarray(a), int(np.prod(shape)), np.asarray(p)))
        jax.random.choice = fake_choice
        restore = lambda: setattr(jax.random, "choice", orig)
        kw["prng_key"] = jax.random.PRNGKey(7)
    try:
        states = [build_state(a, k, n) for a in c["states"]]
        batched = c.get("batched", False)
        st = np.stack(states) if batched else states[0]
        if be == "jax":
            st = jaxmod().numpy.asarray(st)
        if c["kind"] == "state":
            wires = qp.wires.Wires(c["wires"]) if c["wires"] is not None else None
            r = S.sample_state(st, c["shots"], is_state_batched=batched, wires=wires, **kw)
            r = np.asarray(r)
            if not np.isin(r, (0, 1)).all():
                return {"struct": "non-binary sample"}
            r = r.astype(int)
            out = {"samples": (r if batched else r[None]).tolist()}
        else:
            sv = c["sv"]
            shots = Shots(tuple(sv)) if len(sv) > 1 else Shots(sv[0])
            if "svspec" in c:       # specification as written by the user: ints and (shots, copies) pairs
                shots = Shots(spec_arg(c["svspec"]))
            mps = [build_mp(m) for m in c["mps"]]
            res = S.measure_with_samples(mps, st, shots, rng=kw.get("rng"), prng_key=kw.get("prng_key"))
            part = bool(shots.has_partitioned_shots)
            rows = [tuple(r) for r in res] if part else [tuple(res)]
            if any(len(r) != len(mps) for r in rows):
                return {"struct": "bad result nesting"}
            out = {"part": part, "bins": [[canon_res(m, x) for m, x in zip(c["mps"], r)] for r in rows],
                   "mpinfo": [{"ws": [int(w) for w in mp.wires],
                               "eigs": (ints(mp.eigvals()).tolist() if mp.obs is not None else None)}
                              for mp in mps]}
        out["pcalls"] = stream.calls if be != "numpyB" else None
        out["args_ok"] = stream.args_ok
        out["left"] = len(stream.us)
        return out
    except (ValueError, KeyError, IndexError, qp.wires.WireError) as ex:
        return {"err": type(ex).__name__ + ": " + str(ex)[:80]}
    except Exception as ex:  # anything else is reported as a failure of the sampling function
        return {"crash": type(ex).__name__ + ": " + str(ex)[:200]}
    finally:
        if restore:
            restore()


# ---------------------------------------------------------------------------- circuits for valid / stat
def apply_circuit(gates):
    for g in gates:
        name = g[0]
        if name in ("RX", "RY", "RZ"):
            getattr(qp, name)(g[1], wires=g[2])
        elif name in ("H", "X", "S", "T"):
            {"H": qp.Hadamard, "X": qp.PauliX, "S": qp.S, "T": qp.T}[name](wires=g[1])
        elif name == "CNOT":
            qp.CNOT(wires=[g[1], g[2]])
        elif name == "CZ":
            qp.CZ(wires=[g[1], g[2]])
        elif name == "CRY":
            qp.CRY(g[1], wires=[g[2], g[3]])


def build_obs(o):
    fac = {"X": qp.X, "Y": qp.Y, "Z": qp.Z, "H": qp.Hadamard}
    ob = None
    for p, w in o:
        t = fac[p](w)
        ob = t if ob is None else ob @ t
    return ob


def build_vmp(m):
    t = m["t"]
    if t == "sample":
        return qp.sample(wires=m["ws"]) if m["ws"] else qp.sample()
    if t == "counts":
        return qp.counts(wires=m["ws"], all_outcomes=m["all"]) if m["ws"] else qp.counts(all_outcomes=m["all"])
    if t == "probs":
        return qp.probs(wires=m["ws"])
    ob = build_obs(m["obs"])
    if t == "sample_obs":
        return qp.sample(ob)
    if t == "counts_obs":
        return qp.counts(ob, all_outcomes=m["all"])
    if t == "expval":
        return qp.expval(ob)
    return qp.var(ob)


def make_device(kind, n, seed):
    if kind == "numpy":
        return qp.device("default.qubit", wires=n, seed=seed), None
    if kind == "jax":
        jax = jaxmod()
        return qp.device("default.qubit", wires=n, seed=jax.random.PRNGKey(seed)), "jax"
    return qp.device("default.mixed", wires=n, seed=seed), None


def exact_state(n, gates):
    dev = qp.device("default.qubit", wires=n)

    @qp.qnode(dev)
    def f():
        apply_circuit(gates)
        return qp.state()
    return np.asarray(f(), dtype=np.complex128)


def own_marginal(pfull, n, ws):
    """independent marginalisation: explicit loop over basis states (big-endian wire 0 first)"""
    out = np.zeros(2 ** len(ws))
    for k in range(2 ** n):
        bits = [(k >> (n - 1 - i)) & 1 for i in range(n)]
        j = 0
        for w in ws:
            j = 2 * j + bits[w]
        out[j] += pfull[k]
    return out


def canon_valid(m, x):
    t = m["t"]
    if t in ("sample", "sample_obs"):
        a = np.asarray(x, dtype=np.float64)
        return {"shape": list(a.shape), "values": sorted(set(np.round(a.reshape(-1), 9).tolist())),
                "rows": (sorted({"".join(str(int(b)) for b in r) for r in a}) if (t == "sample" and a.ndim == 2) else None)}
    if t in ("counts", "counts_obs"):
        if not isinstance(x, dict):
            return {"struct": "not-a-dict"}
        return {"keys": [str(k) if t == "counts" else round(float(k), 9) for k in x], "vals": [int(v) for v in x.values()]}
    a = np.asarray(x, dtype=np.float64)
    return {"shape": list(a.shape), "data": a.reshape(-1).tolist()}


def valid_info(c, gates):
    n = c["n"]
    psi = exact_state(n, gates)
    pfull = (psi.real ** 2 + psi.imag ** 2)
    info = []
    for m in c["mps"]:
        if "obs" in m:
            ob = build_obs(m["obs"])
            ev = np.linalg.eigvalsh(qp.matrix(ob))
            info.append({"eigs": sorted(set(np.round(ev, 9).tolist()))})
        else:
            ws = m["ws"] or list(range(n))
            info.append({"p": own_marginal(pfull, n, ws).tolist(), "m": len(ws)})
    return info


def run_valid(c):
    n = c["n"]
    dev, interface = make_device(c["dev"], n, c["seed"])
    sv = c["sv"]
    shots = tuple(sv) if len(sv) > 1 else sv[0]
    if "svspec" in c:
        shots = spec_arg(c["svspec"])
    batch = c.get("batch")

    def circ(*xs):
        if batch:
            qp.RY(xs[0], wires=batch["wire"])
        apply_circuit(c["gates"])
        return tuple(build_vmp(m) for m in c["mps"])
    qn = qp.set_shots(qp.QNode(circ, dev, interface=interface), shots)
    if batch:
        xs = np.array(batch["xs"], dtype=np.float64)
        res = qn(jaxmod().numpy.asarray(xs) if interface == "jax" else xs)
    else:
        res = qn()
    part = len(sv) > 1
    rows = [r for r in res] if part else [res]
    unwrapped = False
    if batch and len(c["mps"]) == 1 and c["mps"][0]["t"] == "counts":
        # recorded finding: a quantum function returning the 1-tuple (counts,) called with a broadcast parameter gives the
        # bare list of per-entry dictionaries instead of a 1-tuple holding it (sample / probs keep the tuple); the content is
        # still checked after re-wrapping
        fixed = []
        for r in rows:
            if isinstance(r, (list, tuple)) and len(r) == len(batch["xs"]) and all(isinstance(x, dict) for x in r):
                fixed.append((list(r),)); unwrapped = True
            else:
                fixed.append(r)
        rows = fixed
    if part and len(rows) != len(sv):
        return {"struct": f"outer length {len(rows)} for {len(sv)} bins"}
    if any(not isinstance(r, (tuple, list)) or len(r) != len(c["mps"]) for r in rows):
        return {"struct": "bad result nesting"}
    if not batch:
        return {"bins": [[canon_valid(m, x) for m, x in zip(c["mps"], r)] for r in rows], "info": valid_info(c, c["gates"])}
    nb = len(batch["xs"])
    for r in rows:
        for x in r:
            if len(x) != nb:
                return {"struct": f"leading (broadcast) length {len(x)} for {nb} parameters"}
    return {"batches": [{"bins": [[canon_valid(m, x[b]) for m, x in zip(c["mps"], r)] for r in rows],
                         "info": valid_info(c, [["RY", batch["xs"][b], batch["wire"]]] + c["gates"])}
                        for b in range(nb)], "unwrapped_single_counts": unwrapped}


def run_stat(c):
    n = c["n"]
    dev, interface = make_device(c["dev"], n, c["seed"])
    ws = c["ws"] or list(range(n))
    obs = [build_obs(o) for o in c["obs"]]

    def circ():
        apply_circuit(c["gates"])
        out = [qp.sample(wires=c["ws"]) if c["ws"] else qp.sample()]
        out = out + [qp.sample(o) for o in obs]
        if n >= 2:      # a two-wire observable with four DISTINCT eigenvalues (value k+1 on basis state k of wires (n-1, 0))
            out.append(qp.sample(qp.Hermitian(np.diag([1.0, 2.0, 3.0, 4.0]), wires=[n - 1, 0])))
        return tuple(out)
    sv = c["sv"]
    shots = tuple(sv) if len(sv) > 1 else sv[0]
    qn = qp.set_shots(qp.QNode(circ, dev, interface=interface), shots)
    res = qn()
    rows = list(res) if len(sv) > 1 else [res]
    psi = exact_state(n, c["gates"])
    pfull = psi.real ** 2 + psi.imag ** 2
    pw = np.array([1 << (len(ws) - 1 - i) for i in range(len(ws))])
    hists, ohists, vhists = [], [], []
    for r in rows:
        a = np.asarray(r[0]).astype(np.int64)
        hists.append(np.bincount(a @ pw, minlength=2 ** len(ws)).tolist())
        ohists.append([[int((np.asarray(x) > 0).sum()), int((np.asarray(x) < 0).sum())] for x in r[1:1 + len(obs)]])
        if n >= 2:
            v = np.rint(np.asarray(r[1 + len(obs)])).astype(int)
            vhists.append([int((v == k).sum()) for k in (1, 2, 3, 4)] + [int(((v < 1) | (v > 4)).sum())])
    # P(+1) for +-1 observables from the exact state
    pplus = []
    for o in obs:
        mat = qp.matrix(o, wire_order=list(range(n)))
        ev = float(np.real(np.vdot(psi, mat @ psi)))
        pplus.append((1 + ev) / 2)
    return {"hists": hists, "p": own_marginal(pfull, n, ws).tolist(), "ohists": ohists, "pplus": pplus,
            "vhists": vhists, "pv": own_marginal(pfull, n, [n - 1, 0]).tolist() if n >= 2 else None}


def guarded(f, c):
    try:
        return f(c)
    except Exception as ex:  # reported, the harness decides
        return {"crash": type(ex).__name__ + ": " + str(ex)[:200]}


def main():
    payload = json.load(sys.stdin)
    out = {"det": [run_det(c) for c in payload.get("det", [])],
           "valid": [guarded(run_valid, c) for c in payload.get("valid", [])],
           "stat": [guarded(run_stat, c) for c in payload.get("stat", [])],
           "shots": [guarded(run_shots, c) for c in payload.get("shots", [])]}
    print(json.dumps(out))


main()
