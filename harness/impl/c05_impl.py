"""C05: (1) probe which period the operator hash uses per (class, parameter) and emit the matrix-periodicity
obligations; (2) run real cached / uncached executions of generated batch histories and log what reached the device."""
import sys, json, random, math, time
sys.path.insert(0, "/verif/harness")
from qrules import *
import numpy as np

req = json.load(sys.stdin)
rng = random.Random(req["seed"])
tier = req["tier"]
install_patches()
TWO_PI = 2 * math.pi
items, oblig = [], []

# ---------------------------------------------------------------- (1) periods used by the hash
names = sorted(set(n for n in dir(qp) if isinstance(getattr(qp, n, None), type)))
for name in names:
    cls = getattr(qp, name)
    npar, nw = getattr(cls, "num_params", None), getattr(cls, "num_wires", None)
    if not (isinstance(npar, int) and isinstance(nw, int) and 1 <= npar <= 3 and 1 <= nw <= 4) or name in SKIP_FIXED \
            or name in ("QubitUnitary", "DiagonalQubitUnitary", "SpecialUnitary", "BlockEncode", "Snapshot", "QutritUnitary"):
        continue
    if issubclass(cls, qp.operation.Channel):
        continue
    try:
        for j in range(npar):
            found = None
            for mult in (1, 2, 3, 4):
                P = mult * TWO_PI
                same = True
                for _ in range(3):
                    th = [rng.uniform(0.1, 6.0) for _ in range(npar)]
                    th2 = list(th); th2[j] += P
                    if hash(cls(*th, wires=list(range(nw)))) != hash(cls(*th2, wires=list(range(nw)))):
                        same = False
                if same:
                    found = mult
                    break
            it = {"kind": "period", "name": name, "param": j, "period_over_2pi": found, "status": "ok"}
            items.append(it)
            if found is None:
                continue
            set_cfg(8, 8, npar)
            base = [var_array(k) for k in range(npar)]
            shifted = list(base)
            shifted[j] = lin_array(Lin.var(j) + Lin([0] * npar, 2 * found))
            S0 = op_matrix_sym(cls(*base, wires=list(range(nw))))
            S1 = op_matrix_sym(cls(*shifted, wires=list(range(nw))))
            # numeric direct statement
            th = [rng.uniform(0.1, 6.0) for _ in range(npar)]
            th2 = list(th); th2[j] += found * TWO_PI
            M0 = np.asarray(qp.matrix(cls(*th, wires=list(range(nw)))))
            M1 = np.asarray(qp.matrix(cls(*th2, wires=list(range(nw)))))
            if not np.allclose(M0, M1, atol=1e-9):
                it["numeric_fail"] = {"thetas": th, "shifted": th2, "max_abs_diff": float(np.abs(M0 - M1).max())}
            oblig.append({"name": f"ob_{len(oblig)}", "gate": name, "param": j, "mult": found,
                          "stmt": f"meqb 4%Z {g_mat(S1)} {g_mat(S0)} = true"})
            it["lemma"] = oblig[-1]["name"]
    except NotExtractable as e:
        items.append({"kind": "period", "name": name, "status": "notex", "detail": str(e)[:200]})
    except Exception as e:
        items.append({"kind": "period", "name": name, "status": "error", "detail": f"{type(e).__name__}: {str(e)[:200]}"})

# ---------------------------------------------------------------- (2) real cached executions
executed_log = []


def logged_device(name, **kw):
    d = qp.device(name, **kw)
    orig = d.execute

    def logging_execute(circuits, *a, **k):
        executed_log.append(list(circuits) if isinstance(circuits, (list, tuple)) else [circuits])
        return orig(circuits, *a, **k)

    d.execute = logging_execute
    return d


dev = logged_device("default.qubit")
GATES1 = [qp.RX, qp.RY, qp.RZ, qp.PhaseShift, qp.U1]
GATES2 = [qp.CRX, qp.CRY, qp.CRZ, qp.IsingXX, qp.ControlledPhaseShift]


def rand_angle(pool):
    x = rng.choice(pool)
    return x + rng.choice([0, 0, TWO_PI, -TWO_PI, 2 * TWO_PI, 3 * TWO_PI])


def rand_tape(pool, nw):
    ops = []
    for _ in range(rng.randint(1, 4)):
        r = rng.random()
        if r < 0.35:
            ops.append(rng.choice(GATES1)(rand_angle(pool), wires=rng.randrange(nw)))
        elif r < 0.5 and nw >= 2:
            a, b = rng.sample(range(nw), 2)
            ops.append(rng.choice(GATES2)(rand_angle(pool), wires=[a, b]))
        elif r < 0.6:
            ops.append(qp.Rot(rand_angle(pool), rand_angle(pool), rand_angle(pool), wires=rng.randrange(nw)))
        elif r < 0.68:
            ops.append(qp.U3(rand_angle(pool), rand_angle(pool), rand_angle(pool), wires=rng.randrange(nw)))
        elif r < 0.8 and nw >= 3:
            a, b, c = rng.sample(range(nw), 3)
            ops.append(qp.ctrl(rng.choice(GATES1[:3])(rand_angle(pool), wires=c), control=[a, b], control_values=[1, rng.choice([0, 1])]))
        elif r < 0.86:
            ops.append(qp.adjoint(rng.choice(GATES1)(rand_angle(pool), wires=rng.randrange(nw))))
        elif r < 0.92:
            ops.append(qp.pow(rng.choice(GATES1[:3])(rand_angle(pool), wires=rng.randrange(nw)), rng.choice([2, 3])))
        elif r < 0.96:
            # operators whose data are complex arrays (the key must keep the imaginary parts)
            a, b = rng.choice(pool) + 0.1, rng.choice(pool) + 0.2
            if rng.random() < 0.5:
                U = qp.matrix(qp.RZ(a, 0)) @ qp.matrix(qp.RY(b, 0)) @ qp.matrix(qp.RZ(-a / 2, 0))
                ops.append(qp.QubitUnitary(np.asarray(U), wires=rng.randrange(nw)))
            else:
                ops.append(qp.DiagonalQubitUnitary(np.array([np.exp(-1j * a), np.exp(1j * b)]), wires=rng.randrange(nw)))
        else:
            ops.append(qp.Hadamard(rng.randrange(nw)))
    ops = [qp.Hadamard(w) for w in range(nw)] + ops
    m = rng.random()
    if m < 0.3:
        ms = [qp.state()]
    elif m < 0.55:
        ms = [qp.expval(rng.choice([qp.X, qp.Y, qp.Z])(rng.randrange(nw)))]
    elif m < 0.75:
        ms = [qp.probs(wires=list(range(nw)))]
    elif m < 0.9:
        ms = [qp.expval(qp.Z(0)), qp.var(qp.X(nw - 1))]
    else:
        ms = [qp.density_matrix(wires=[0])]
    t = qp.tape.QuantumScript(ops, ms)
    if rng.random() < 0.2:
        t.trainable_params = [0]
    return t


def canon(res):
    if isinstance(res, (tuple, list)):
        return [canon(r) for r in res]
    if isinstance(res, dict):
        return {"counts": sorted((str(k), canon(v)) for k, v in res.items())}
    a = np.asarray(res, dtype=complex)
    return [list(a.shape), np.round(a.ravel().view(float), 9).tolist()]


def code_of(res, table):
    key = json.dumps(canon(res)).replace("-0.0", "0.0")
    return table.setdefault(key, len(table) + 1)


def desc(o):
    """repr plus the plain keyword settings the repr does not show (PauliError word, IntegerComparator value/geq, ...)"""
    r = repr(o)
    hp = {k: v for k, v in getattr(o, "hyperparameters", {}).items() if isinstance(v, (str, bool, int, float, tuple)) and k not in r and k not in ("work_wire_type", "unitary_check")}
    return r + (" " + json.dumps(hp, default=str, sort_keys=True) if hp else "")


def run_case(tapes, batches, dev, label=None):
    """one shared cache over the whole history `batches`; reference = every tape alone with cache=False"""
    restable = {}
    keycodes, kt = {}, []
    for i, t in enumerate(tapes):
        kt.append((i, keycodes.setdefault(t.hash, len(keycodes) + 1)))
    # reference: uncached device results
    rt, refres = [], []
    for i, t in enumerate(tapes):
        r = qp.execute([t], dev, cache=False)[0]
        refres.append(r)
        rt.append((i, code_of(r, restable)))
    cache = {}
    observed, mismatch = [], None
    for b in batches:
        executed_log.clear()
        batch = [tapes[i] for i in b]
        try:
            res = qp.execute(batch, dev, cache=cache)
            out = [code_of(r, restable) for r in res]
        except Exception as e:
            out = [None] * len(b)
        em = []
        for call in executed_log:
            for c in call:
                idx = next((i for i in b if tapes[i] is c or tapes[i].hash == c.hash and qp.equal(tapes[i], c)), None)
                em.append(idx if idx is not None else -7)
        observed.append((em, out))
        # direct statement: cached results equal the uncached ones
        for pos, i in enumerate(b):
            if out[pos] is None or out[pos] != rt[i][1]:
                mismatch = mismatch or {"batch": b, "position": pos, "tape": [desc(o) for o in tapes[i].operations], "measurements": [repr(m) for m in tapes[i].measurements],
                                        "shots": repr(tapes[i].shots), "device": dev.name}
    case = {"keys": kt, "runs": rt, "batches": batches, "observed": observed, "mismatch": mismatch,
            "dup_keys": len(kt) - len(set(k for _, k in kt)),
            "tapes": [[desc(o) for o in t.operations] + [repr(m) for m in t.measurements] + ([f"shots={t.shots.total_shots}"] if t.shots else []) for t in tapes]}
    if label:
        case["label"] = label
    cases.append(case)


cases = []
QS = qp.tape.QuantumScript

# ---------------------------------------------------------------- (2a) fixed corpus (independent of the seed)
# (i) tapes DERIVED with QuantumScript.copy(...) from a tape that has already been through a cached execution
#     (so every memoised attribute of the source, its fingerprint included, exists when the copy is made)


def derived_history(base, updates, dev, label):
    qp.execute([base], dev, cache=True)          # an ordinary cached execution of the source tape
    _ = base.hash
    tapes = [base] + [base.copy(**u) for u in updates]
    n = len(tapes)
    run_case(tapes, [[0], list(range(n)), list(range(n - 1, -1, -1)), [n - 1, 0]], dev, label)
    # the same derivations, each copy meeting the source one after another in the shared cache
    tapes2 = [base] + [base.copy(**u) for u in updates]
    run_case(tapes2, [[0]] + [[i] for i in range(1, n)] + [[0]], dev, label + " (one by one)")


base_a = QS([qp.RX(0.4, 0), qp.RY(0.7, 1), qp.CNOT([0, 1])], [qp.expval(qp.Z(0))])
derived_history(base_a, [dict(measurements=[qp.expval(qp.X(1))]), dict(measurements=[qp.state()]),
                         dict(measurements=[qp.probs(wires=[0, 1])]), dict(measurements=[qp.expval(qp.Z(0)), qp.var(qp.X(1))]),
                         dict(measurements=[qp.density_matrix(wires=[1])]), dict(trainable_params=[0]),
                         dict(operations=[qp.RX(0.9, 0), qp.RY(0.7, 1), qp.CNOT([0, 1])]),
                         dict(ops=[qp.RX(0.4, 0), qp.RY(0.7 + TWO_PI, 1), qp.CNOT([0, 1])], measurements=[qp.expval(qp.X(1))])],
                dev, "copy(measurements/trainable_params/operations) of an executed analytic tape")
# finite shots on a computational-basis state: every sample is the same, execution stays a function of the tape
base_s = QS([qp.X(0), qp.CNOT([0, 1])], [qp.sample(wires=[0, 1])], shots=4)
derived_history(base_s, [dict(shots=6), dict(shots=(3, 2)), dict(measurements=[qp.counts(wires=[0, 1])]),
                         dict(measurements=[qp.expval(qp.Z(0))]), dict(measurements=[qp.counts(wires=[0])], shots=7)],
                dev, "copy(shots/measurements) of an executed finite-shot tape")
base_p = QS([qp.X(1)], [qp.probs(wires=[0, 1])])
derived_history(base_p, [dict(shots=5, measurements=[qp.sample(wires=[0, 1])]), dict(measurements=[qp.probs(wires=[1])]),
                         dict(measurements=[qp.expval(qp.Z(1))], shots=3)],
                dev, "copy(shots+measurements) of an executed analytic tape")

# (ii) near-duplicate circuits differing ONLY in a keyword setting (hyperparameter) of one operator
prep3 = [qp.X(0), qp.Hadamard(1)]
kw_families = [
    ("IntegerComparator(value, geq)", [prep3 + [qp.IntegerComparator(v, geq=g, wires=[0, 1, 2])] for v, g in ((2, True), (3, True), (2, False), (3, False), (1, True))],
     [qp.probs(wires=[2])]),
    ("PauliRot(pauli_word)", [[qp.Hadamard(0), qp.RY(0.3, 1), qp.PauliRot(0.7, w, wires=[0, 1])] for w in ("XY", "XZ", "ZZ", "YX", "IZ")], [qp.state()]),
    ("MultiControlledX(control_values)", [[qp.Hadamard(0), qp.Hadamard(1), qp.MultiControlledX(wires=[0, 1, 2], control_values=cv)] for cv in ([1, 1], [1, 0], [0, 1], [0, 0])],
     [qp.probs(wires=[0, 1, 2])]),
    ("ctrl(control_values)", [[qp.Hadamard(0), qp.ctrl(qp.RX(0.8, 1), control=[0], control_values=[cv])] for cv in (0, 1)], [qp.probs(wires=[0, 1])]),
    ("BasisState(state)", [[qp.BasisState(np.array(st), wires=[0, 1]), qp.Hadamard(0)] for st in ([1, 0], [0, 1], [1, 1])], [qp.state()]),
    ("pow(z)", [[qp.Hadamard(0), qp.pow(qp.T(0), z)] for z in (1, 2, 3)], [qp.state()]),
]
for fam, opss, ms in kw_families:
    try:
        tapes = [QS(o, ms) for o in opss]
    except Exception as e:
        items.append({"kind": "corpus", "name": fam, "status": "error", "detail": f"{type(e).__name__}: {str(e)[:200]}"})
        continue
    n = len(tapes)
    run_case(tapes, [list(range(n)), list(range(n - 1, -1, -1))], dev, "keyword twins: " + fam)

# (iii) near-duplicates whose operators carry LARGE array parameters (> 1000 entries) and differ only in entries that an
#       abbreviated printout of the array (numpy elides the middle of arrays above 1000 entries) does not show
_ii, _jj = np.meshgrid(np.arange(32), np.arange(32), indexing="ij")
H1 = np.cos(0.37 * _ii * _jj + 0.11 * (_ii + _jj)); H1 = (H1 + H1.T) / 2
H2 = H1.copy(); H2[0, 16] += 0.5; H2[16, 0] += 0.5
H3 = H1.copy(); H3[7, 7] -= 0.25
big_h = [QS([qp.Hadamard(0)], [qp.expval(qp.Hermitian(H, wires=range(5)))]) for H in (H1, H2)] + \
        [QS([qp.Hadamard(0), qp.X(2), qp.X(3), qp.X(4)], [qp.expval(qp.Hermitian(H, wires=range(5)))]) for H in (H1, H3)]
run_case(big_h, [[0, 1, 2, 3], [3, 2, 1, 0]], dev, "large-array twins: 32x32 Hermitian observable, entries [0,16]/[16,0] resp. [7,7] differ")


def rot_block(a, i=8, j=20):
    U = np.eye(32, dtype=complex)
    U[i, i] = U[j, j] = math.cos(a); U[i, j] = U[j, i] = -1j * math.sin(a)
    return U


big_u = [QS([qp.X(1), qp.QubitUnitary(rot_block(a), wires=range(5))], [qp.probs(wires=[0, 1, 2])]) for a in (0.3, 1.1)]
big_d = [QS([qp.Hadamard(w) for w in range(10)] + [qp.DiagonalQubitUnitary(np.exp(1j * np.where(np.arange(1024) == 500, ph, 0.0)), wires=range(10))] + [qp.Hadamard(w) for w in range(10)],
            [qp.probs(wires=[0, 1])]) for ph in (0.0, 2.5)]
run_case(big_u + big_d, [[0, 1, 2, 3], [3, 2, 1, 0]], dev, "large-array twins: 32x32 QubitUnitary / 1024-entry DiagonalQubitUnitary differing in elided entries")

devm = logged_device("default.mixed", wires=2)
mixed_families = [
    ("PauliError(operators)", [[qp.RY(0.6, 0), qp.PauliError(w, 0.3, wires=0)] for w in ("X", "Z", "Y")], [qp.expval(qp.X(0)), qp.expval(qp.Z(0))]),
    ("PauliError(operators) on |+>", [[qp.Hadamard(0), qp.PauliError(w, 0.3, wires=0)] for w in ("X", "Z")], [qp.expval(qp.X(0))]),
    ("PauliError(operators) 2 wires", [[qp.Hadamard(0), qp.RY(0.4, 1), qp.PauliError(w, 0.25, wires=[0, 1])] for w in ("XZ", "ZX", "YY")], [qp.density_matrix(wires=[0, 1])]),
    ("channel class", [[qp.RY(0.9, 0), c(0.2, wires=0)] for c in (qp.BitFlip, qp.PhaseFlip, qp.DepolarizingChannel, qp.AmplitudeDamping, qp.PhaseDamping)], [qp.expval(qp.Z(0)), qp.expval(qp.X(0))]),
]
for fam, opss, ms in mixed_families:
    try:
        tapes = [QS(o, ms) for o in opss]
    except Exception as e:
        items.append({"kind": "corpus", "name": fam, "status": "error", "detail": f"{type(e).__name__}: {str(e)[:200]}"})
        continue
    n = len(tapes)
    run_case(tapes, [list(range(n)), list(range(n - 1, -1, -1))], devm, "keyword twins (default.mixed): " + fam)
# derived tapes on default.mixed as well
base_m = QS([qp.RY(0.6, 0), qp.PauliError("X", 0.3, wires=0), qp.CNOT([0, 1])], [qp.expval(qp.Z(0))])
derived_history(base_m, [dict(measurements=[qp.expval(qp.Z(0) @ qp.Z(1))]), dict(measurements=[qp.probs(wires=[0, 1])]), dict(measurements=[qp.density_matrix(wires=[0])])],
                devm, "copy(measurements) of an executed tape on default.mixed")
nfixed = len(cases)

# ---------------------------------------------------------------- (2b) generated histories
rng2 = random.Random(req["seed"] * 7919 + 5)      # separate stream: the derivations below do not disturb the main generator
ALT_MS = [lambda nw: [qp.state()], lambda nw: [qp.expval(qp.X(nw - 1))], lambda nw: [qp.expval(qp.Z(0))], lambda nw: [qp.probs(wires=[0])],
          lambda nw: [qp.var(qp.Y(0)), qp.expval(qp.Z(nw - 1))], lambda nw: [qp.density_matrix(wires=[nw - 1])]]
ncases = 40 if tier == "quick" else 400
for ci in range(ncases):
    nw = rng.choice([1, 2, 3])
    pool = [rng.uniform(0.2, 3.0) for _ in range(2)] + [0.0, math.pi / 2]
    tapes = [rand_tape(pool, nw) for _ in range(rng.randint(1, 3))]
    for t in list(tapes):          # twins: same circuit with one parameter shifted by a multiple of 2 pi
        ps = t.get_parameters(trainable_only=False)
        if ps and rng.random() < 0.85:
            j = rng.randrange(len(ps))
            if np.ndim(ps[j]) > 0 or np.iscomplexobj(ps[j]):   # a matrix / diagonal is not an angle: no 2 pi twin
                continue
            try:
                tw = t.bind_new_parameters([ps[j] + rng.choice([1, 2, -1, -2, 3]) * TWO_PI], [j])
                tapes.append(tw)
            except Exception:
                pass
    for t in list(tapes):          # twins differing only in the imaginary parts of a complex parameter (conjugated matrix)
        ps = t.get_parameters(trainable_only=False)
        cj = [j for j, x in enumerate(ps) if np.iscomplexobj(x)]
        if cj:
            j = rng.choice(cj)
            try:
                tapes.append(t.bind_new_parameters([np.conj(np.asarray(ps[j]))], [j]))
            except Exception:
                pass
    nb = rng.randint(1, 3)
    batches = [[rng.randrange(len(tapes)) for _ in range(rng.randint(1, 5))] for _ in range(nb)]
    if any(np.iscomplexobj(x) for t in tapes for x in t.get_parameters(trainable_only=False)):
        batches.append(list(range(len(tapes))))     # make sure the twins meet in one cache
    if rng2.random() < 0.6:        # copies with other measurements / trainable indices, derived from an already hashed tape
        src = rng2.randrange(len(tapes))
        _ = tapes[src].hash
        new = []
        for _k in range(rng2.randint(1, 2)):
            if rng2.random() < 0.8:
                tapes.append(tapes[src].copy(measurements=rng2.choice(ALT_MS)(nw)))
            else:
                tapes.append(tapes[src].copy(trainable_params=[]))
            new.append(len(tapes) - 1)
        if rng2.random() < 0.5:
            batches.insert(0, [src])
        batches.append([src] + new if rng2.random() < 0.5 else new + [src])
    run_case(tapes, batches, dev)
json.dump(oblig, open(req["outdir"] + "/obligations.json", "w"))
print(json.dumps({"items": items, "cases": cases, "nfixed": nfixed}))
