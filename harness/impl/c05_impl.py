"""C05: (1) probe which period the operator hash uses per (class, parameter) and emit the matrix-periodicity
obligations; (2) run real cached / uncached executions of generated batch histories and log what reached the device."""
import sys, json, random, math, time
sys.path.insert(0, "/verif/harness")
from qrules import *
import numpy as np

req = json.load(sys.stdin)
rng = random.Random(req["seed"])
tier = req["tier"]
install_patches()
TWO_PI = 2 * math.pi
items, oblig = [], []

# ---------------------------------------------------------------- (1) periods used by the hash
names = sorted(set(n for n in dir(qp) if isinstance(getattr(qp, n, None), type)))
for name in names:
    cls = getattr(qp, name)
    npar, nw = getattr(cls, "num_params", None), getattr(cls, "num_wires", None)
    if not (isinstance(npar, int) and isinstance(nw, int) and 1 <= npar <= 3 and 1 <= nw <= 4) or name in SKIP_FIXED \
            or name in ("QubitUnitary", "DiagonalQubitUnitary", "SpecialUnitary", "BlockEncode", "Snapshot", "QutritUnitary"):
        continue
    if issubclass(cls, qp.operation.Channel):
        continue
    try:
        for j in range(npar):
            found = None
            for mult in (1, 2, 3, 4):
                P = mult * TWO_PI
                same = True
                for _ in range(3):
                    th = [rng.uniform(0.1, 6.0) for _ in range(npar)]
                    th2 = list(th); th2[j] += P
                    if hash(cls(*th, wires=list(range(nw)))) != hash(cls(*th2, wires=list(range(nw)))):
                        same = False
                if same:
                    found = mult
                    break
            it = {"kind": "period", "name": name, "param": j, "period_over_2pi": found, "status": "ok"}
            items.append(it)
            if found is None:
                continue
            set_cfg(8, 8, npar)
            base = [var_array(k) for k in range(npar)]
            shifted = list(base)
            shifted[j] = lin_array(Lin.var(j) + Lin([0] * npar, 2 * found))
            S0 = op_matrix_sym(cls(*base, wires=list(range(nw))))
            S1 = op_matrix_sym(cls(*shifted, wires=list(range(nw))))
            # numeric direct statement
            th = [rng.uniform(0.1, 6.0) for _ in range(npar)]
            th2 = list(th); th2[j] += found * TWO_PI
            M0 = np.asarray(qp.matrix(cls(*th, wires=list(range(nw)))))
            M1 = np.asarray(qp.matrix(cls(*th2, wires=list(range(nw)))))
            if not np.allclose(M0, M1, atol=1e-9):
                it["numeric_fail"] = {"thetas": th, "shifted": th2, "max_abs_diff": float(np.abs(M0 - M1).max())}
            oblig.append({"name": f"ob_{len(oblig)}", "gate": name, "param": j, "mult": found,
                          "stmt": f"meqb 4%Z {g_mat(S1)} {g_mat(S0)} = true"})
            it["lemma"] = oblig[-1]["name"]
    except NotExtractable as e:
        items.append({"kind": "period", "name": name, "status": "notex", "detail": str(e)[:200]})
    except Exception as e:
        items.append({"kind": "period", "name": name, "status": "error", "detail": f"{type(e).__name__}: {str(e)[:200]}"})

# ---------------------------------------------------------------- (2) real cached executions
dev = qp.device("default.qubit")
executed_log = []
_orig = dev.execute


def logging_execute(circuits, *a, **k):
    executed_log.append(list(circuits) if isinstance(circuits, (list, tuple)) else [circuits])
    return _orig(circuits, *a, **k)


dev.execute = logging_execute
GATES1 = [qp.RX, qp.RY, qp.RZ, qp.PhaseShift, qp.U1]
GATES2 = [qp.CRX, qp.CRY, qp.CRZ, qp.IsingXX, qp.ControlledPhaseShift]


def rand_angle(pool):
    x = rng.choice(pool)
    return x + rng.choice([0, 0, TWO_PI, -TWO_PI, 2 * TWO_PI, 3 * TWO_PI])


def rand_tape(pool, nw):
    ops = []
    for _ in range(rng.randint(1, 4)):
        r = rng.random()
        if r < 0.35:
            ops.append(rng.choice(GATES1)(rand_angle(pool), wires=rng.randrange(nw)))
        elif r < 0.5 and nw >= 2:
            a, b = rng.sample(range(nw), 2)
            ops.append(rng.choice(GATES2)(rand_angle(pool), wires=[a, b]))
        elif r < 0.6:
            ops.append(qp.Rot(rand_angle(pool), rand_angle(pool), rand_angle(pool), wires=rng.randrange(nw)))
        elif r < 0.68:
            ops.append(qp.U3(rand_angle(pool), rand_angle(pool), rand_angle(pool), wires=rng.randrange(nw)))
        elif r < 0.8 and nw >= 3:
            a, b, c = rng.sample(range(nw), 3)
            ops.append(qp.ctrl(rng.choice(GATES1[:3])(rand_angle(pool), wires=c), control=[a, b], control_values=[1, rng.choice([0, 1])]))
        elif r < 0.86:
            ops.append(qp.adjoint(rng.choice(GATES1)(rand_angle(pool), wires=rng.randrange(nw))))
        elif r < 0.92:
            ops.append(qp.pow(rng.choice(GATES1[:3])(rand_angle(pool), wires=rng.randrange(nw)), rng.choice([2, 3])))
        elif r < 0.96:
            # operators whose data are complex arrays (the key must keep the imaginary parts)
            a, b = rng.choice(pool) + 0.1, rng.choice(pool) + 0.2
            if rng.random() < 0.5:
                U = qp.matrix(qp.RZ(a, 0)) @ qp.matrix(qp.RY(b, 0)) @ qp.matrix(qp.RZ(-a / 2, 0))
                ops.append(qp.QubitUnitary(np.asarray(U), wires=rng.randrange(nw)))
            else:
                ops.append(qp.DiagonalQubitUnitary(np.array([np.exp(-1j * a), np.exp(1j * b)]), wires=rng.randrange(nw)))
        else:
            ops.append(qp.Hadamard(rng.randrange(nw)))
    ops = [qp.Hadamard(w) for w in range(nw)] + ops
    m = rng.random()
    if m < 0.3:
        ms = [qp.state()]
    elif m < 0.55:
        ms = [qp.expval(rng.choice([qp.X, qp.Y, qp.Z])(rng.randrange(nw)))]
    elif m < 0.75:
        ms = [qp.probs(wires=list(range(nw)))]
    elif m < 0.9:
        ms = [qp.expval(qp.Z(0)), qp.var(qp.X(nw - 1))]
    else:
        ms = [qp.density_matrix(wires=[0])]
    t = qp.tape.QuantumScript(ops, ms)
    if rng.random() < 0.2:
        t.trainable_params = [0]
    return t


def code_of(res, table):
    key = json.dumps(np.round(np.asarray(res, dtype=complex).ravel().view(float), 9).tolist()) if not isinstance(res, tuple) else \
        json.dumps([np.round(np.asarray(r, dtype=complex).ravel().view(float), 9).tolist() for r in res])
    key = key.replace("-0.0", "0.0")
    return table.setdefault(key, len(table) + 1)


cases = []
ncases = 40 if tier == "quick" else 400
for ci in range(ncases):
    nw = rng.choice([1, 2, 3])
    pool = [rng.uniform(0.2, 3.0) for _ in range(2)] + [0.0, math.pi / 2]
    tapes = [rand_tape(pool, nw) for _ in range(rng.randint(1, 3))]
    for t in list(tapes):          # twins: same circuit with one parameter shifted by a multiple of 2 pi
        ps = t.get_parameters(trainable_only=False)
        if ps and rng.random() < 0.85:
            j = rng.randrange(len(ps))
            if np.ndim(ps[j]) > 0 or np.iscomplexobj(ps[j]):   # a matrix / diagonal is not an angle: no 2 pi twin
                continue
            try:
                tw = t.bind_new_parameters([ps[j] + rng.choice([1, 2, -1, -2, 3]) * TWO_PI], [j])
                tapes.append(tw)
            except Exception:
                pass
    for t in list(tapes):          # twins differing only in the imaginary parts of a complex parameter (conjugated matrix)
        ps = t.get_parameters(trainable_only=False)
        cj = [j for j, x in enumerate(ps) if np.iscomplexobj(x)]
        if cj:
            j = rng.choice(cj)
            try:
                tapes.append(t.bind_new_parameters([np.conj(np.asarray(ps[j]))], [j]))
            except Exception:
                pass
    nb = rng.randint(1, 3)
    batches = [[rng.randrange(len(tapes)) for _ in range(rng.randint(1, 5))] for _ in range(nb)]
    if any(np.iscomplexobj(x) for t in tapes for x in t.get_parameters(trainable_only=False)):
        batches.append(list(range(len(tapes))))     # make sure the twins meet in one cache
    restable = {}
    keycodes, kt = {}, []
    for i, t in enumerate(tapes):
        kt.append((i, keycodes.setdefault(t.hash, len(keycodes) + 1)))
    # reference: uncached device results
    rt, refres = [], []
    for i, t in enumerate(tapes):
        r = qp.execute([t], dev, cache=False)[0]
        refres.append(r)
        rt.append((i, code_of(r, restable)))
    cache = {}
    observed, mismatch = [], None
    for b in batches:
        executed_log.clear()
        batch = [tapes[i] for i in b]
        try:
            res = qp.execute(batch, dev, cache=cache)
            out = [code_of(r, restable) for r in res]
        except Exception as e:
            out = [None] * len(b)
        em = []
        for call in executed_log:
            for c in call:
                idx = next((i for i in b if tapes[i] is c or tapes[i].hash == c.hash and qp.equal(tapes[i], c)), None)
                em.append(idx if idx is not None else -7)
        observed.append((em, out))
        # direct statement: cached results equal the uncached ones
        for pos, i in enumerate(b):
            if out[pos] is None or out[pos] != rt[i][1]:
                mismatch = mismatch or {"batch": b, "position": pos, "tape": [repr(o) for o in tapes[i].operations], "measurements": [repr(m) for m in tapes[i].measurements]}
    cases.append({"keys": kt, "runs": rt, "batches": batches, "observed": observed, "mismatch": mismatch,
                  "dup_keys": len(kt) - len(set(k for _, k in kt)), "tapes": [[repr(o) for o in t.operations] + [repr(m) for m in t.measurements] for t in tapes]})
json.dump(oblig, open(req["outdir"] + "/obligations.json", "w"))
print(json.dumps({"items": items, "cases": cases}))
