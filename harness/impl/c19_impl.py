"""C19 driver: runs the real qp.transforms.transpile on the JSON cases from stdin and prints one JSON line.

case = {"ops": [[name, [wires...]], ...], "meas": [[kind, [wires...]], ...], "edges": [[u, v], ...],
        "dev": null | [wires...], "numeric": bool}
observation = {"err": true, "paths": ...}  |  {"err": false, "ops": [[name, [wires]]...], "meas": [[wires]...],
                          "paths": [[src, dst, [path...]]...], "num": null | max abs difference (float)}
`paths` are the results the real run obtained from networkx.algorithms.shortest_path, in call order
(the oracle the model validates); a call that raised is recorded with an empty path.
"""
import json
import sys

import numpy as np
import networkx as nx
import pennylane as qp

ANG = 0.3712
ONE = {"Hadamard": lambda w: qp.Hadamard(w), "PauliX": lambda w: qp.PauliX(w), "T": lambda w: qp.T(w),
       "S": lambda w: qp.S(w), "RX": lambda w: qp.RX(ANG, w), "RY": lambda w: qp.RY(1.1 * ANG, w),
       "RZ": lambda w: qp.RZ(0.7 * ANG, w), "PauliZ": lambda w: qp.PauliZ(w), "PauliY": lambda w: qp.PauliY(w)}
TWO = {"CNOT": lambda w: qp.CNOT(w), "CZ": lambda w: qp.CZ(w), "SWAP": lambda w: qp.SWAP(w),
       "CRX": lambda w: qp.CRX(1.3 * ANG, w), "CRY": lambda w: qp.CRY(0.9 * ANG, w),
       "IsingXX": lambda w: qp.IsingXX(0.5 * ANG, w), "CY": lambda w: qp.CY(w)}
THREE = {"Toffoli": lambda w: qp.Toffoli(w), "CSWAP": lambda w: qp.CSWAP(w)}


def mk_op(name, wires):
    if name == "GlobalPhase":
        return qp.GlobalPhase(0.25)
    if name in ONE:
        return ONE[name](wires[0])
    if name in TWO:
        return TWO[name](wires)
    return THREE[name](wires)


def mk_meas(kind, wires):
    if kind == "probs":
        return qp.probs(wires=wires) if wires else qp.probs()
    if kind == "state":
        return qp.state()
    if kind == "expZ":
        return qp.expval(qp.PauliZ(wires[0]))
    if kind == "expX":
        return qp.expval(qp.PauliX(wires[0]))
    if kind == "varY":
        return qp.var(qp.PauliY(wires[0]))
    raise KeyError(kind)


LOG = []
_orig = nx.algorithms.shortest_path


def _logged(G, source=None, target=None, *a, **k):
    try:
        p = _orig(G, source, target, *a, **k)
    except Exception:
        LOG.append([int(source), int(target), []])
        raise
    LOG.append([int(source), int(target), [int(x) for x in p]])
    return p


nx.algorithms.shortest_path = _logged


def flat(res):
    out = []
    if isinstance(res, (tuple, list)):
        for r in res:
            out.extend(flat(r))
        return out
    a = np.asarray(res)
    return [a.astype(complex).ravel() if np.iscomplexobj(a) else a.astype(float).ravel()]


def one(c):
    del LOG[:]
    ops = [mk_op(n, w) for n, w in c["ops"]]
    ms = [mk_meas(k, w) for k, w in c["meas"]]
    tape = qp.tape.QuantumScript(ops, ms)
    dev = qp.device("default.qubit", wires=c["dev"]) if c.get("dev") else None
    try:
        (new,), fn = qp.transforms.transpile(tape, coupling_map=[tuple(e) for e in c["edges"]], device=dev)
    except Exception:   # ValueError / NotImplementedError / networkx.NetworkXNoPath / NodeNotFound ...
        return {"err": True, "paths": [list(p) for p in LOG]}
    o = {"err": False,"ops": [[op.name, [int(w) for w in op.wires]] for op in new.operations],
         "meas": [[int(w) for w in m.wires] for m in new.measurements],
         "paths": [list(p) for p in LOG], "num": None}
    if c.get("numeric"):
        # reference: the ORIGINAL circuit with the measurements transpile starts from (wire-less ones
        # completed with the device wires), on an unconstrained simulator
        d0 = qp.device("default.qubit")
        if any(k == "state" for k, _ in c["meas"]):
            d0 = dev            # a state is returned in the wire order of the device that is given to transpile
        ms0 = [(type(m)(wires=dev.wires) if (dev is not None and not m.wires and not isinstance(m, qp.measurements.StateMP)) else m) for m in ms]
        r0 = flat(qp.execute([qp.tape.QuantumScript(ops, ms0)], d0)[0])
        r1 = flat(fn(qp.execute([new], d0)))
        if len(r0) != len(r1) or any(a.shape != b.shape for a, b in zip(r0, r1)):
            o["num"] = 1e9
        else:
            o["num"] = float(max([float(np.max(np.abs(a - b))) for a, b in zip(r0, r1)] + [0.0]))
    return o


print(json.dumps([one(c) for c in json.load(sys.stdin)["cases"]]))
