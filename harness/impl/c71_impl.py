"""C71 driver: random circuits (exactly representable angles) with snapshots at random positions, executed through the
REAL qp.snapshots on default.qubit (debugger path), default.mixed (debugger path) and the tape-splitting path;
returns the dictionary (keys in order, values) and, for the harness, the exact Gallina circuit of every prefix.
stdin {"tier","seed"} -> stdout one JSON line {"cases": [...]}."""
import sys, json, random, warnings
sys.path.insert(0, "/verif/harness")
from qrules import *
from qx import pyth_angle, exact_circuit_gallina
import numpy as np
warnings.filterwarnings("ignore")
req = json.load(sys.stdin)
rng = random.Random(req["seed"] * 7919 + 71)
tier = req["tier"]
install_patches()
G1 = ["RX", "RY", "RZ", "PhaseShift", "Hadamard", "PauliX", "PauliY", "PauliZ", "S", "T", "SX"]
G2 = ["CNOT", "CZ", "CY", "SWAP", "CRX", "CRY", "CRZ", "IsingXX", "IsingZZ", "ControlledPhaseShift"]
TAGS = {0: "", 1: "t1", 2: "t2", 3: "important", 4: "b"}
TAGID = {v: k for k, v in TAGS.items()}


def rand_gates(labels):
    ops, nw = [], len(labels)
    for _ in range(rng.randint(1, 4 + nw)):
        if rng.random() < 0.55 or nw == 1:
            nm = rng.choice(G1); ws = [rng.choice(labels)]
        else:
            nm = rng.choice(G2); ws = rng.sample(labels, 2)
        cls = getattr(qp, nm)
        ops.append(cls(*[pyth_angle(rng) for _ in range(cls.num_params)], wires=ws))
    return ops


def rand_kind(labels):
    r, nw = rng.random(), len(labels)
    if r < 0.35:
        return {"kind": "state", "explicit": False}
    if r < 0.42:
        return {"kind": "state", "explicit": True}
    ws = rng.sample(labels, rng.randint(1, min(2, nw)))
    if r < 0.65:
        return {"kind": "expval", "word": [rng.choice("XYZ") for _ in ws], "wires": ws}
    if r < 0.85:
        return {"kind": "probs", "wires": ws}
    return {"kind": "dm", "wires": ws}


def mp_of(d):
    if d["kind"] == "state":
        return qp.state() if d["explicit"] else None
    if d["kind"] == "expval":
        fs = [getattr(qp, "Pauli" + ch)(w) for ch, w in zip(d["word"], d["wires"])]
        return qp.expval(qp.prod(*fs) if len(fs) > 1 else fs[0])
    if d["kind"] == "probs":
        return qp.probs(wires=d["wires"])
    return qp.density_matrix(wires=d["wires"])


def jsonable(x):
    a = np.asarray(x)
    if np.iscomplexobj(a):
        return {"re": np.real(a).tolist(), "im": np.imag(a).tolist()}
    return {"re": a.astype(float).tolist()}


def key_json(k):
    if k == "execution_results":
        return ["exec"]
    if isinstance(k, (int, np.integer)) and not isinstance(k, bool):
        return ["int", int(k)]
    if isinstance(k, str) and k in TAGID:
        return ["str", TAGID[k]]
    return ["other", repr(k)]


def gen_case(ci, corpus=None):
    nw = rng.choice([1, 2, 2, 3])
    labels = list(range(nw)) if rng.random() < 0.7 else ["a", "b", 7][:nw]
    gates = rand_gates(labels)
    ng = len(gates)
    if corpus is not None:
        snaps = corpus
    else:
        snaps = []
        for _ in range(rng.choice([1, 1, 2, 2, 3, 4])):
            r = rng.random()
            tag = None if r < 0.5 else (0 if r < 0.55 else rng.choice([1, 1, 2, 3, 4]))
            snaps.append([rng.randint(0, ng), tag])
        snaps.sort(key=lambda s: s[0])
    kinds, instrs, qops = [], [], []
    gi = 0
    for pos in range(ng + 1):
        for s in [s for s in snaps if min(s[0], ng) == pos]:
            d = rand_kind(labels)
            if d not in kinds:
                kinds.append(d)
            instrs.append(["S", s[1], kinds.index(d)])
            qops.append(qp.Snapshot(tag=None if s[1] is None else TAGS[s[1]], measurement=mp_of(d)))
        if pos < ng:
            instrs.append(["G", gi, repr(gates[gi])]); qops.append(gates[gi]); gi += 1
    fin = [{"kind": "probs", "wires": labels}]
    if rng.random() < 0.7:
        ws = rng.sample(labels, rng.randint(1, min(2, nw)))
        fin.insert(0, {"kind": "expval", "word": [rng.choice("XYZ") for _ in ws], "wires": ws})
    mode = [0, 0, 0, 1, 2][ci % 5]
    case = {"mode": mode, "n": nw, "labels": labels, "instrs": instrs, "kinds": kinds, "final_kinds": fin, "status": "ok"}
    try:
        # exact reference circuits: the prefix at every snapshot position and the full circuit
        need, g = {ng}, 0
        for ins in instrs:
            if ins[0] == "G":
                g += 1
            else:
                need.add(g)
        case["ngates"] = ng
        case["prefix_circuits"] = {str(p): exact_circuit_gallina(gates[:p], labels) for p in sorted(need)}
    except NotExtractable as e:
        case["status"], case["detail"] = "notex", str(e)[:200]
        return case
    try:
        ms = [mp_of(d) for d in fin]
        dev = qp.device("default.mixed" if mode == 1 else "default.qubit", wires=labels)
        if mode == 2:
            tape = qp.tape.QuantumScript(qops, ms)
            tapes, fn = qp.snapshots(tape)
            res = fn(qp.execute(tapes, dev))
        else:
            def qfunc():
                for o in qops:
                    qp.apply(o)
                return tuple(qp.apply(m) for m in ms)
            res = qp.snapshots(qp.QNode(qfunc, dev))()
        out = []
        for k, v in res.items():
            kj = key_json(k)
            if kj[0] == "exec":
                vs = list(v) if isinstance(v, (tuple, list)) else [v]
                out.append({"key": kj, "is_list": False, "values": [jsonable(x) for x in vs]})
            else:
                il = isinstance(v, list)
                out.append({"key": kj, "is_list": il, "values": [jsonable(x) for x in (v if il else [v])]})
        case["dict"] = out
    except Exception as e:  # noqa
        case["status"], case["detail"] = "error", f"{type(e).__name__}: {str(e)[:300]}"
    return case


cases = []
CORPUS = [[[0, None], [1, 1], [2, 1], [2, None]], [[0, 1], [0, 1], [1, 0]], [[9, None]], [[0, 0], [1, None], [1, None]],
          [[1, 2], [1, 2], [2, 2]], [[0, None], [0, 3]]]
n = 32 if tier == "quick" else 500
for ci in range(n):
    cases.append(gen_case(ci, CORPUS[ci // 5] if ci < 5 * len(CORPUS) and ci % 5 in (0, 3, 4) and ci // 5 < len(CORPUS) else None))
print(json.dumps({"cases": cases}))
