"""C06 driver: real copy / deepcopy / pickle / pytree / jax round trips and bind_new_parameters on
operators and measurement processes built from JSON specs.  JSON on stdin -> one JSON line on stdout."""
import copy
import json
import pickle
import sys
import warnings

warnings.filterwarnings("ignore")
import numpy as np
import pennylane as qp
from pennylane.core import Operator2
from pennylane.core.measurements import MeasurementProcess
from pennylane.core.operator import Operator
from pennylane.ops import Adjoint, CompositeOp, Controlled, Exp, Pow, SProd
from pennylane.ops.functions import bind_new_parameters
from pennylane.ops.op_math.adjoint2 import Adjoint2
from pennylane.ops.op_math.controlled2 import Controlled2
from pennylane.ops.op_math.pow2 import Pow2

from c04_impl import NotExtractable, build, extract, fr, num_kind

try:
    import jax
    HAVE_JAX = True
except Exception:      # pragma: no cover
    HAVE_JAX = False


# ------------------------------------------------------------------ layout of op.data
def data_slots(o):
    """[(datum, rebindable)] following how PennyLane concatenates .data; checked against o.data"""
    if isinstance(o, MeasurementProcess):
        s = data_slots(o.obs) if o.obs is not None else []
        if o.obs is None and o.eigvals() is not None:
            s = s + [(o.eigvals(), True)]
        return s
    if isinstance(o, CompositeOp):
        s = [x for operand in o.operands for x in data_slots(operand)]
    elif isinstance(o, (SProd, Exp)):
        s = [(o.scalar if isinstance(o, SProd) else o.coeff, True)] + data_slots(o.base)
    elif isinstance(o, Controlled2):
        nb = [d for d in o.data if getattr(np.asarray(d), "dtype", None) != np.bool_]
        bs = data_slots(o.base)
        if len(nb) != len(bs):
            raise NotExtractable("Controlled2 data layout")
        it = iter(bs)
        s = [(d, False) if getattr(np.asarray(d), "dtype", None) == np.bool_ else next(it) for d in o.data]
    elif isinstance(o, (Pow, Pow2, Adjoint, Adjoint2, Controlled)):
        s = data_slots(o.base)
    else:
        s = [(d, True) for d in o.data]
    if len(s) != len(o.data) or not all(same_datum(a[0], b) for a, b in zip(s, o.data)):
        raise NotExtractable("data layout of %s differs from the assumed concatenation" % type(o).__name__)
    return s


def same_datum(a, b):
    a, b = np.asarray(a), np.asarray(b)
    return a.shape == b.shape and bool(np.all(a == b))


def leaf_fracs(d):
    k, v = num_kind(np.asarray(d).reshape(-1).tolist())
    return v


def fresh_datum(d, fresh):
    """a new value of the same shape / numeric kind; integer and boolean data are kept"""
    a = np.asarray(d)
    if a.dtype.kind in "biu":
        return d
    k, _ = num_kind(a.reshape(-1).tolist())
    n = int(np.prod(a.shape)) if a.shape else 1
    vals = [fresh.pop(0) if fresh else 0.3125 for _ in range(n)]
    if k == 1:
        vals = [1j * v for v in vals]
    if a.shape == ():
        return vals[0]
    return np.array(vals).reshape(a.shape)


# ------------------------------------------------------------------ object graph (deep copy aliasing)
MUTABLE = (np.ndarray, list, dict, set, bytearray)


def reach(root):
    """id -> (path, object) of mutable objects reachable through instance attributes and containers"""
    seen, out = set(), {}
    stack = [(root, "op", 0)]
    while stack:
        x, path, depth = stack.pop()
        if id(x) in seen or depth > 10:
            continue
        seen.add(id(x))
        if isinstance(x, (str, bytes, int, float, complex, bool, type(None), type)) or callable(x) and not hasattr(x, "__dict__"):
            continue
        if isinstance(x, np.ndarray):
            out[id(x)] = (path, x)
            continue
        if isinstance(x, (list, tuple, set, frozenset)):
            if isinstance(x, MUTABLE):
                out[id(x)] = (path, x)
            for i, y in enumerate(x):
                stack.append((y, "%s[%d]" % (path, i), depth + 1))
            continue
        if isinstance(x, dict):
            out[id(x)] = (path, x)
            for k, y in x.items():
                stack.append((y, "%s[%r]" % (path, k), depth + 1))
            continue
        mod = type(x).__module__ or ""
        if mod.startswith("pennylane") and not isinstance(x, type):
            if isinstance(x, (Operator, Operator2, MeasurementProcess)):
                out[id(x)] = (path, x)
            d = getattr(x, "__dict__", None)
            if d is not None:
                for k, y in d.items():
                    stack.append((y, path + "." + k, depth + 1))
            for k in getattr(type(x), "__slots__", ()) or ():
                if hasattr(x, k):
                    stack.append((getattr(x, k), path + "." + k, depth + 1))
    return out


def scribble(root):
    """mutate every mutable leaf reachable from root in place; returns how many were changed"""
    n = 0
    for _, (path, x) in reach(root).items():
        try:
            if isinstance(x, np.ndarray):
                if x.size and x.flags.writeable:
                    if x.dtype == np.bool_:
                        np.logical_not(x, out=x)
                    elif x.dtype.kind in "iufc":
                        x += 1
                    n += 1
            elif isinstance(x, list):
                x.append("__c06__")
                n += 1
            elif isinstance(x, set):
                x.add("__c06__")
                n += 1
            elif isinstance(x, dict) and not path.endswith("__dict__"):
                x["__c06__"] = 1
                n += 1
        except Exception:
            pass
    return n


def contains_class(o, name, depth=0):
    if type(o).__name__ == name:
        return True
    if depth > 8:
        return False
    subs = []
    if isinstance(o, MeasurementProcess):
        subs = [o.obs] if o.obs is not None else []
    else:
        if hasattr(o, "base"):
            subs.append(o.base)
        if isinstance(o, CompositeOp):
            subs += list(o.operands)
    return any(contains_class(x, name, depth + 1) for x in subs)


def try_extract(o):
    try:
        return extract(o, None), None
    except NotExtractable as e:
        return None, str(e)
    except Exception as e:        # a malformed object (e.g. an array where a scalar belongs)
        return None, "malformed object: %s: %s" % (type(e).__name__, str(e)[:160])


def describe(o):
    """cheap structural fingerprint used when the AST is not extractable"""
    try:
        return repr((type(o).__name__, [np.asarray(d).tolist() for d in getattr(o, "data", ())], list(o.wires)))
    except Exception as e:
        return "?%r" % (e,)


def hyper_fp(o, depth=0):
    """fingerprint of the non-parameter attributes (hyperparameters that are not operators), recursively through wrappers"""
    from pennylane.core.operator import Operator as _Op
    if depth > 6:
        return "..."
    out = [type(o).__name__]
    hp = getattr(o, "hyperparameters", None) or {}
    for k in sorted(hp):
        v = hp[k]
        if isinstance(v, _Op):
            out.append((k, hyper_fp(v, depth + 1)))
        elif isinstance(v, (list, tuple)) and any(isinstance(x, _Op) for x in v):
            out.append((k, [hyper_fp(x, depth + 1) if isinstance(x, _Op) else repr(x) for x in v]))
        else:
            try:
                out.append((k, repr(np.asarray(v).tolist()) if isinstance(v, np.ndarray) else repr(v)))
            except Exception:
                out.append((k, "?"))
    obs = getattr(o, "obs", None)
    if obs is not None:
        out.append(("obs", hyper_fp(obs, depth + 1)))
    return repr(out)


def route(op, f, ast0):
    try:
        r = f(op)
    except Exception as e:
        return {"error": "%s: %s" % (type(e).__name__, str(e)[:200])}
    out = {"type_same": type(r) is type(op), "is_same_object": r is op}
    try:
        out["hyper_same"] = hyper_fp(r) == hyper_fp(op)
    except Exception as e:
        out["hyper_same"] = True
        out["hyper_error"] = repr(e)[:100]
    try:
        out["equal"] = bool(qp.equal(op, r)) and bool(qp.equal(r, op))
    except Exception as e:
        out["equal_error"] = "%s: %s" % (type(e).__name__, str(e)[:200])
    if ast0 is not None:
        a, why = try_extract(r)
        out["ast"] = a
        if why:
            out["ast_error"] = why
    else:
        out["describe_same"] = describe(r) == describe(op)
    return out


def jax_rt(op):
    leaves, tree = jax.tree_util.tree_flatten(op)
    return jax.tree_util.tree_unflatten(tree, leaves)


def pl_rt(op):
    leaves, tree = qp.pytrees.flatten(op)
    return qp.pytrees.unflatten(leaves, tree)


def main():
    out = []
    for c in json.load(sys.stdin)["cases"]:
        try:
            op = build(c["spec"])
        except Exception as e:
            out.append({"skip": "build: %s: %s" % (type(e).__name__, str(e)[:160])})
            continue
        r = {"cls": type(op).__name__, "is_mp": isinstance(op, MeasurementProcess),
             "has_cqu": contains_class(op, "ControlledQubitUnitary")}
        ast0, why = try_extract(op)
        slots = None
        if ast0 is not None:
            try:
                slots = data_slots(op)
                r["data"] = [leaf_fracs(d) for d, reb in slots if reb]
            except NotExtractable as e:
                ast0, why = None, str(e)
        r["ast"] = ast0
        if why:
            r["ast_skip"] = why
        routes = {"copy": copy.copy, "deepcopy": copy.deepcopy,
                  "pickle": lambda o: pickle.loads(pickle.dumps(o)), "pytree": pl_rt}
        if HAVE_JAX:
            routes["jax"] = jax_rt
        if not r["is_mp"]:
            routes["bind_data"] = lambda o: bind_new_parameters(o, o.data)
            routes["bind_parameters"] = lambda o: bind_new_parameters(o, o.parameters)
        r["routes"] = {k: route(op, f, ast0) for k, f in routes.items()}
        # ---- rebinding new parameters
        r["bind"] = []
        if not r["is_mp"] and slots is not None and any(reb for _, reb in slots):
            for fresh in c.get("fresh", []):
                fresh = list(fresh)
                try:
                    new = [fresh_datum(d, fresh) if reb else d for d, reb in slots]
                    res = bind_new_parameters(op, new)
                    a, why2 = try_extract(res)
                    exact = len(res.data) == len(new) and all(same_datum(x, y) for x, y in zip(res.data, new))
                    r["bind"].append({"new": [leaf_fracs(d) for d, (_, reb) in zip(new, slots) if reb], "ast": a,
                                      "ast_error": why2, "params_exact": bool(exact), "type_same": type(res) is type(op),
                                      "wires_same": res.wires == op.wires, "hyper_same": hyper_fp(res) == hyper_fp(op),
                                      "orig_untouched": try_extract(op)[0] == ast0})
                except Exception as e:
                    r["bind"].append({"error": "%s: %s" % (type(e).__name__, str(e)[:200])})
            # malformed stream: wrong number of parameters (observed only)
            wl = {}
            for tag, new in (("short", [d for d, _ in slots][:-1]), ("long", [d for d, _ in slots] + [0.3125])):
                try:
                    bind_new_parameters(op, new)
                    wl[tag] = "returned"
                except Exception as e:
                    wl[tag] = "raised"
            r["wrong_len"] = wl
        # ---- deep copy must not share mutable state
        try:
            op = build(c["spec"])       # a fresh object: the test below may damage it
            before, desc_before = try_extract(op)[0], describe(op)
            dc = copy.deepcopy(op)
            shared = sorted(p for i, (p, x) in reach(op).items() if i in reach(dc))
            nmut = scribble(dc)
            r["deep"] = {"shared": shared[:6], "mutated_leaves": nmut,
                         "orig_unchanged": try_extract(op)[0] == before and describe(op) == desc_before}
        except Exception as e:
            r["deep"] = {"error": "%s: %s" % (type(e).__name__, str(e)[:200])}
        out.append(r)
    print(json.dumps(out))


if __name__ == "__main__":
    main()
