"""C12: runs qp.transforms.decompose / _operator_decomposition_gen on described circuits with a call tracer, and
computes INDEPENDENTLY (own gate-set membership, own execution of the rule chosen by the graph solution, own
op.decomposition()) the oracle tables the Coq model is run with.  JSON on stdin -> one JSON line on stdout."""
import sys, json, math, time, warnings, hashlib, itertools
sys.path.insert(0, "/verif/harness")
import numpy as np
import pennylane as qp
from pennylane.allocation import Allocate, Deallocate
from pennylane.decomposition import gate_sets as GS
from pennylane.decomposition.utils import translate_op_alias, _get_decomp_args
from pennylane.core.operator import abstractify
from pennylane.queuing import AnnotatedQueue, QueuingManager

D = sys.modules["pennylane.transforms.decompose"]
ORIG_GEN = D._operator_decomposition_gen
ORIG_SOLVE = D._construct_and_solve_decomp_graph
req = json.load(sys.stdin)
T_START = time.time()
PREMISE_NOTES = []


# ----------------------------------------------------------------------------- building operators
def build(d):
    t = d["t"]
    if t == "g":
        return getattr(qp, d["n"])(*d.get("p", []), wires=d["w"])
    if t == "pr":
        return qp.PauliRot(d["p"][0], d["word"], wires=d["w"])
    if t == "gp":
        return qp.GlobalPhase(d["p"][0])
    if t == "adj":
        return qp.adjoint(build(d["b"]), lazy=True)
    if t == "pow":
        return qp.pow(build(d["b"]), d["z"], lazy=True)
    if t == "ctrl":
        return qp.ctrl(build(d["b"]), control=d["c"], control_values=d["cv"])
    if t == "mcx":
        return qp.MultiControlledX(wires=d["w"], control_values=d["cv"])
    if t == "qu":
        b = build(d["src"])
        return qp.QubitUnitary(qp.matrix(b, wire_order=list(b.wires)), wires=d["w"])
    if t == "tpl":
        n = d["n"]
        if n == "QFT":
            return qp.QFT(wires=d["w"])
        if n == "BE":
            return qp.BasisEmbedding(d["p"], wires=d["w"])
        if n == "SEL":
            return qp.StronglyEntanglingLayers(np.array(d["p"], dtype=float), wires=d["w"])
        if n == "BEL":
            return qp.BasicEntanglerLayers(np.array(d["p"], dtype=float), wires=d["w"])
        if n == "AE":
            return qp.AngleEmbedding(np.array(d["p"], dtype=float), wires=d["w"], rotation=d.get("rot", "X"))
        if n == "GROVER":
            return qp.GroverOperator(wires=d["w"])
        if n == "PERM":
            return qp.Permute(d["p"], wires=d["w"])
    raise ValueError("bad descriptor " + json.dumps(d))


def build_circuit(descs):
    ops, has_mcm = [], False
    for d in descs:
        if d["t"] == "cond":
            mv = qp.measure(d["mw"])
            ops.append(mv.measurements[0])
            ops.append(qp.ops.Conditional(mv, build(d["b"])))
            has_mcm = True
        else:
            ops.append(build(d))
    return ops, has_mcm


NAMED_SETS = {"ROTATIONS_PLUS_CNOT": GS.ROTATIONS_PLUS_CNOT, "CLIFFORD_T": GS.CLIFFORD_T, "CLIFFORD_T_PLUS_RZ": GS.CLIFFORD_T_PLUS_RZ,
              "PYZX": GS.PYZX, "MBQC_GATES": GS.MBQC_GATES, "ALL_QUBIT_OPS": GS.ALL_QUBIT_OPS, "ALL_OPS": GS.ALL_OPS}


def build_gate_set(g):
    """returns (argument for decompose, set of canonical names used by the harness' own membership test)"""
    if g["kind"] == "named":
        s = NAMED_SETS[g["name"]]
        return s, {translate_op_alias(k) for k in s.keys()}
    if g["kind"] == "names":
        return set(g["names"]), {translate_op_alias(k) for k in g["names"]}
    if g["kind"] == "weights":
        return dict(g["weights"]), {translate_op_alias(k) for k in g["weights"]}
    raise ValueError(g)


@qp.register_resources({qp.H: 2, qp.CZ: 1})
def _my_cnot(wires, **__):
    qp.H(wires=wires[1])
    qp.CZ(wires=wires)
    qp.H(wires=wires[1])


@qp.register_resources({qp.CNOT: 2, qp.RX: 1})
def _my_isingxx(phi, wires, **__):
    qp.CNOT(wires=wires)
    qp.RX(phi, wires=[wires[0]])
    qp.CNOT(wires=wires)


@qp.register_resources({qp.RZ: 2, qp.RX: 1, qp.GlobalPhase: 1})
def _my_h(wires, **__):
    qp.RZ(math.pi / 2, wires=wires)
    qp.RX(math.pi / 2, wires=wires)
    qp.RZ(math.pi / 2, wires=wires)
    qp.GlobalPhase(-math.pi / 2)


DECOMPS = {"fixed_cnot": {"fixed_decomps": {qp.CNOT: _my_cnot}},
           "alt_isingxx": {"alt_decomps": {qp.IsingXX: [_my_isingxx]}},
           "fixed_h_alt_cnot": {"fixed_decomps": {qp.H: _my_h}, "alt_decomps": {qp.CNOT: [_my_cnot]}}}

STOPS = {None: None,
         "w1": lambda op: len(op.wires) <= 1,
         "noparam2": lambda op: len(op.wires) == 2 and len(op.parameters) == 0,
         "never": lambda op: False}


def my_accept(op, names, stop):
    """the harness' own reading of 'in the gate set or satisfies the stopping condition'"""
    if translate_op_alias(op.name) in names:
        return True
    return bool(stop(op)) if stop is not None else False


# ----------------------------------------------------------------------------- canonical keys / codes
def is_dyn(w):
    return type(w).__name__ == "DynamicWire"


def sib_names(ops):
    """dynamic wires named by first appearance inside this sibling list"""
    m = {}
    for o in ops:
        for w in o.wires:
            if is_dyn(w) and w not in m:
                m[w] = f"_d{len(m)}"
    return m


def pdigest(op):
    h = hashlib.sha1()
    try:
        for p in op.parameters:
            a = np.asarray(qp.math.unwrap([p])[0] if not isinstance(p, (int, float, complex, np.ndarray)) else p)
            h.update(str(a.dtype).encode() + str(a.shape).encode() + a.tobytes())
    except Exception as e:  # pragma: no cover
        h.update(("ERR" + repr(e)).encode())
    return h.hexdigest()[:12]


def okey(op, names):
    wl = [names.get(w, repr(w)) if is_dyn(w) else repr(w) for w in op.wires]
    extra = ""
    if isinstance(op, qp.ops.Conditional):
        extra = "|base=" + okey(op.base, names)
    return f"{type(op).__name__}|{op!r}|{wl}|{pdigest(op)}{extra}"


class Codes:
    def __init__(self):
        self.tab, self.ops = {}, []

    def code(self, key, op):
        if key not in self.tab:
            self.tab[key] = len(self.tab)
            self.ops.append(op)
        return self.tab[key]


def kind_of(op):
    if isinstance(op, (Allocate, Deallocate)):
        return "Alloc"
    if isinstance(op, qp.ops.Conditional):
        return "Cond"
    if isinstance(op, D.SubroutineOp):
        return "Sub"
    if isinstance(op, qp.GlobalPhase):
        return "GPhase"
    return "Plain"


def gop(op, names, codes):
    """Gallina term of an operator (model alphabet)"""
    k = kind_of(op)
    if k == "Cond":
        return f"(Cond 0 {gop(op.base, names, codes)})"
    return f"({k} {codes.code(okey(op, names), op)})"


def gz(n):
    return f"({int(n)})%Z"


def gopt(x):
    return "None" if x is None else f"(Some {gz(x)})"


def glist(xs):
    return "[" + "; ".join(xs) + "]"


# ----------------------------------------------------------------------------- tracer
class Tracer:
    def __init__(self):
        self.roots, self.stack, self.solution, self.bubbling, self.last_emit = [], [], None, False, None
        self.nodes = 0

    def gen(self, op, acceptance_function, max_expansion=None, current_depth=0, num_work_wires=0,
            graph_solution=None, custom_decomposer=None, strict=False):
        node = {"op": op, "depth": current_depth, "nww": num_work_wires, "children": [], "direct": [], "passed": [],
                "maxexp": max_expansion, "sol": graph_solution is not None}
        self.nodes += 1
        (self.stack[-1]["children"] if self.stack else self.roots).append(node)
        self.stack.append(node)
        try:
            for x in ORIG_GEN(op, acceptance_function, max_expansion=max_expansion, current_depth=current_depth,
                              num_work_wires=num_work_wires, graph_solution=graph_solution,
                              custom_decomposer=custom_decomposer, strict=strict):
                if not self.bubbling:
                    node["direct"].append(x)
                    self.last_emit = (node, x)
                node["passed"].append((x, self.last_emit))
                self.bubbling = True
                yield x
                self.bubbling = False
        finally:
            self.stack.pop()

    def solve(self, *a, **k):
        self.solution = ORIG_SOLVE(*a, **k)
        return self.solution


def all_nodes(roots):
    st = list(reversed(roots))
    while st:
        n = st.pop()
        yield n
        st.extend(reversed(n["children"]))


def run_rule_plain(rule, op):
    params, args, kwargs = _get_decomp_args(op)
    with QueuingManager.stop_recording():
        with AnnotatedQueue() as q:
            rule(*args, **kwargs)
    return list(q.queue), int(rule.get_work_wire_spec(**params).total), bool(getattr(rule, "exact_resources", True))


# ----------------------------------------------------------------------------- semantics
def unitary_of(ops, wire_order):
    if not ops:
        return np.eye(2 ** len(wire_order), dtype=complex)
    return np.asarray(qp.matrix(qp.tape.QuantumScript(ops), wire_order=wire_order), dtype=complex)


def effective_matrix(out_ops, W):
    """matrix implemented on the wires W by the output (work wires start in |0>, mid-circuit measurements deferred).
    returns (M_eff, leak, note)"""
    tape = qp.tape.QuantumScript(out_ops)
    note = []
    if any(isinstance(o, (Allocate, Deallocate)) for o in out_ops):
        [tape], _ = qp.transforms.resolve_dynamic_wires(tape, min_int=1000)
        note.append("dyn")
    if any("MidMeasure" in o.name or isinstance(o, qp.ops.Conditional) for o in tape.operations):
        [tape], _ = qp.defer_measurements(tape)
        note.append("mcm")
    extra = [w for w in tape.wires if w not in W]
    wo = list(W) + extra
    if len(wo) > 10:
        return None, None, note + ["toolarge"]
    M = unitary_of(tape.operations, wo)
    d, k = 2 ** len(W), 2 ** len(extra)
    if k == 1:
        return M, 0.0, note
    M4 = M.reshape(d, k, d, k)[:, :, :, 0]            # [out_data, out_extra, in_data]   (extras start in 0)
    if "mcm" not in note:
        return M4[:, 0, :], float(np.abs(M4[:, 1:, :]).max()), note
    # deferred measurements: the extra register must end in a state independent of the data: M4[:, :, c] = U[:, c] (x) phi
    return M4, None, note


# ----------------------------------------------------------------------------- one case
def gname(op):
    try:
        from pennylane.decomposition.utils import to_name
        return "'" + to_name(abstractify(op)) + "'"
    except Exception:
        return "<no-name>"


def short(e):
    return f"{type(e).__name__}: {str(e)[:160]}"


def run_case(case):
    rec = {"status": "ok", "cov": {}}
    ops, has_mcm = build_circuit(case["ops"])
    gs_arg, names = build_gate_set(case["gate_set"])
    stop = STOPS[case.get("stop")]
    graph = bool(case["graph"])
    nww = case.get("nww", 0)
    maxexp = case.get("maxexp")
    strict = bool(case.get("strict", True))
    mode = case.get("mode", "transform")
    custom = case.get("custom", False)
    tr = Tracer()
    D._operator_decomposition_gen = tr.gen
    D._construct_and_solve_decomp_graph = tr.solve
    (qp.decomposition.enable_graph if graph else qp.decomposition.disable_graph)()
    out_ops, err = None, None
    accf = lambda op: my_accept(op, names, stop)
    t0 = time.time()
    try:
        with warnings.catch_warnings(record=True) as wrec:
            warnings.simplefilter("always")
            try:
                if mode == "transform":
                    kw = {"gate_set": gs_arg, "max_expansion": maxexp, "num_work_wires": nww, "strict": strict}
                    if case.get("stop"):
                        kw["stopping_condition"] = stop
                    if case.get("minimize"):
                        kw["minimize_work_wires"] = True
                    if case.get("decomps"):
                        kw.update(DECOMPS[case["decomps"]])
                    [tape], _ = qp.transforms.decompose(qp.tape.QuantumScript(ops), **kw)
                    out_ops = list(tape.operations)
                else:
                    # the generator driven directly (as devices.preprocess.decompose does), incl. strict / custom_decomposer
                    _, stopf = D._resolve_gate_set(gs_arg, stop)
                    sol, b0 = None, nww
                    if graph:
                        sol = tr.solve([o for o in ops if not stopf(o)], D._resolve_gate_set(gs_arg, stop)[0], nww, False, None, None, strict)
                        b0 = sol.num_work_wires
                    cd = (lambda o: o.decomposition()) if custom else None
                    out_ops = [f for o in ops for f in D._operator_decomposition_gen(
                        o, stopf, max_expansion=maxexp, num_work_wires=b0, graph_solution=sol, custom_decomposer=cd, strict=strict)]
            except Exception as e:  # noqa
                err = e
    finally:
        qp.decomposition.disable_graph()
        D._operator_decomposition_gen = ORIG_GEN
        D._construct_and_solve_decomp_graph = ORIG_SOLVE
    rec["t_run"] = round(time.time() - t0, 3)
    warns = [(w.category.__name__, str(w.message)) for w in wrec]
    rec["warnings"] = [f"{c}: {m[:140]}" for c, m in warns][:6]
    rec["in"] = [repr(o)[:90] for o in ops]
    if err is not None:
        rec["status"] = "error"
        rec["etype"] = type(err).__name__
        rec["detail"] = short(err)
    else:
        rec["out"] = [repr(o)[:90] for o in out_ops][:60]
        rec["n_out"] = len(out_ops)
    early = err is None and not tr.roots          # tape returned unchanged (all ops accepted)
    rec["cov"]["early"] = early
    rec["cov"]["nodes"] = tr.nodes
    rec["cov"]["depth"] = max([n["depth"] for n in all_nodes(tr.roots)], default=0)

    # ------------------------------------------------------------ (a) direct oracle on the output
    nwarn_nodecomp = sum(1 for c, m in warns if "does not define a decomposition" in m)
    nwarn_gp = sum(1 for c, m in warns if "GlobalPhase is not assumed" in m)
    graph_unsolved = " ".join(m for c, m in warns if "unable to find a decomposition" in m)
    if err is None:
        leftovers = []
        emit_depth = {}
        for r in tr.roots:
            for x, le in r["passed"]:
                emit_depth[id(x)] = le[0]["depth"]
        for o in out_ops:
            if isinstance(o, (Allocate, Deallocate)):
                continue
            tgt = o.base if isinstance(o, qp.ops.Conditional) else o
            if accf(tgt) or (isinstance(o, qp.ops.Conditional) and accf(o)):
                continue
            dpt = emit_depth.get(id(o))
            if maxexp is not None and (early or (dpt is not None and dpt >= maxexp)):
                rec["cov"]["maxdepth_kept"] = rec["cov"].get("maxdepth_kept", 0) + 1
                continue
            nm = tgt.name
            if isinstance(tgt, qp.GlobalPhase) and graph and nwarn_gp > 0:
                cls = "warned-globalphase"
            elif not graph and any(("Operator " + nm + " ") in m for c, m in warns if "does not define a decomposition" in m):
                cls = "warned-nodecomp"
            elif graph and (translate_op_alias(nm) in graph_unsolved or gname(tgt) in graph_unsolved):
                cls = "graph-warned-strict" if strict else "graph-warned-nonstrict"
            else:
                cls = "silent"
            leftovers.append({"op": repr(o)[:90], "name": nm, "class": cls})
        rec["leftovers"] = leftovers

    # ------------------------------------------------------------ (b) semantics (numeric; exact reference handled by caller)
    W = []
    for o in ops:
        for w in o.wires:
            if w not in W:
                W.append(w)
    rec["wires"] = [repr(w) for w in W]
    rec["n"] = len(W)
    if err is None and not has_mcm and len(W) >= 1:
        try:
            U = unitary_of(ops, W)
            M, leak, note = effective_matrix(out_ops, W)
            rec["sem_note"] = note
            if M is None:
                rec["sem"] = "skipped"
            elif M.ndim == 3:   # deferred measurements
                phi = np.einsum("a,ab->b", U[:, 0].conj(), M[:, :, 0])
                ref = np.einsum("ac,b->abc", U, phi)
                rec["sem"] = {"err": float(np.abs(M - ref).max()), "phi_norm": float(np.linalg.norm(phi)), "mcm": True}
                rec["Meff"] = None
            else:
                rec["sem"] = {"err": float(np.abs(M - U).max()), "leak": leak}
                rec["Meff"] = [M.real.tolist(), M.imag.tolist()]
        except Exception as e:  # noqa
            rec["sem"] = "failed: " + short(e)
    else:
        rec["sem"] = "n/a"
    rec["_ops"], rec["_W"] = ops, W

    # ------------------------------------------------------------ (c) oracle tables for the Coq model + expected output
    want_model = err is None or tr.nodes <= 250
    if want_model:
        try:
            rec["model"] = model_terms(case, ops, tr, names, stop, graph, nww, maxexp, strict, mode, custom, out_ops, err,
                                       nwarn_nodecomp + nwarn_gp, rec)
        except Exception as e:  # noqa
            rec["model_error"] = short(e)

    # ------------------------------------------------------------ (d) resource estimate vs emitted gates
    if err is None and graph and tr.solution is not None and not early:
        # the estimate is in terms of the gate set: leaves accepted only by a user stopping condition are not comparable
        rec["est"] = estimate_checks(tr, (lambda op: my_accept(op, names, None)), maxexp)
    return rec


def subtree_info(sol, node, accf, memo):
    """(all rules on this subtree are graph rules with exact resources, uses_maxdepth)"""
    exact = True
    for n in all_nodes([node]):
        o = n["op"]
        if isinstance(o, (Allocate, Deallocate)):
            return False
        if isinstance(o, qp.ops.Conditional):
            continue
        if not n["children"] and n["direct"]:
            if not accf(o):
                return False
            continue
        try:
            if not sol.is_solved_for(o, n["nww"]):
                return False
            rule = sol.decomposition(o, n["nww"])
        except Exception:
            return False
        if not getattr(rule, "exact_resources", True):
            return False
        # premise "every rule used is exact", validated on this instance: declared resources = operators produced
        try:
            declared = by_name((k, v) for k, v in rule.compute_resources(**_get_decomp_args(o)[0]).gate_counts.items() if v)
        except Exception:
            return False
        actual = by_name((ch["op"], 1) for ch in n["children"])
        if declared != actual:
            PREMISE_NOTES.append({"op": repr(o)[:80], "rule": str(getattr(rule, "name", rule))[:60], "declared": declared, "actual": actual})
            return "declared-resources-differ"
    return exact


def tname(x):
    """gate-type name as the decomposition system spells it"""
    from pennylane.decomposition.utils import to_name
    try:
        if isinstance(x, qp.ops.Conditional):
            x = x.base
        return to_name(abstractify(x) if isinstance(x, qp.core.operator.Operator) else x)
    except Exception:
        return cname(x)


def by_name(counts):
    out = {}
    for k, v in counts:
        out[tname(k)] = out.get(tname(k), 0) + int(v)
    return out


def cname(x):
    """canonical printable key of an abstract operator / resource key"""
    try:
        return repr(x)
    except Exception:
        return str(x)


def estimate_checks(tr, accf, maxexp):
    sol = tr.solution
    res = []
    if maxexp is not None:
        return res
    for r in tr.roots:
        o = r["op"]
        if isinstance(o, (Allocate, Deallocate, qp.ops.Conditional)) or accf(o):
            continue
        info = subtree_info(sol, r, accf, {})
        if info is not True:
            res.append({"op": repr(o)[:80], "status": info or "inexact-or-fallback"})
            continue
        try:
            est = sol.resource_estimate(o, r["nww"])
        except Exception as e:  # noqa
            res.append({"op": repr(o)[:80], "status": "no-estimate", "detail": short(e)})
            continue
        want = by_name((k, v) for k, v in est.gate_counts.items() if v)
        got = by_name((x, 1) for x, _ in r["passed"])
        res.append({"op": repr(o)[:80], "status": "compared", "estimate": want, "emitted": got,
                    "num_gates": int(est.num_gates), "n_emitted": len(r["passed"])})
    return res


def model_terms(case, ops, tr, names, stop, graph, nww, maxexp, strict, mode, custom, out_ops, err, nwarn, rec):
    codes = Codes()
    accf = lambda op: my_accept(op, names, stop)
    top_names = {}
    in_terms = [gop(o, top_names, codes) for o in ops]
    acc, cacc, gtab, ltab, seen = set(), set(), [], [], set()
    branch = {"graph": 0, "legacy": 0, "accept": 0, "cond": 0, "alloc": 0, "sub": 0}
    sol = tr.solution

    def visit(o, names_, budget):
        """independent evaluation of every oracle the generator may consult for operator o with budget"""
        k = kind_of(o)
        if k == "Cond":
            if accf(o):
                cacc.add(codes.code(okey(o.base, names_), o.base))
            branch["cond"] += 1
            visit(o.base, names_, budget)
            visit(o.base, names_, 0)
            return
        c = codes.code(okey(o, names_), o)
        if (c, budget) in seen:
            return
        seen.add((c, budget))
        if k == "Alloc":
            branch["alloc"] += 1
            return
        if accf(o):
            acc.add(c)
            branch["accept"] += 1
        if sol is not None:
            try:
                solved = sol.is_solved_for(o, budget)
            except Exception:
                solved = False
            if solved:
                lst, spec, _ = run_rule_plain(sol.decomposition(o, budget), o)
                nm = sib_names(lst)
                gtab.append(f"(({c})%Z, {gopt(budget)}, ({glist([gop(x, nm, codes) for x in lst])}, {gz(spec)}))")
                branch["graph"] += 1
        if not any(e[0] == c for e in ltab):
            if o.has_decomposition:
                with QueuingManager.stop_recording():
                    lst = list(o.decomposition())
                nm = sib_names(lst)
                ltab.append((c, f"(({c})%Z, {glist([gop(x, nm, codes) for x in lst])})"))
                branch["legacy"] += 1

    for o in ops:
        visit(o, top_names, tr.solution.num_work_wires if (sol is not None) else nww)
    # every call actually made (operators as named inside the sibling list they were created in)
    def walk(nodes, names_):
        for n in nodes:
            visit(n["op"], names_, n["nww"])
            kids = n["children"]
            if isinstance(n["op"], qp.ops.Conditional):
                walk(kids, names_)
            else:
                walk(kids, sib_names([k["op"] for k in kids]))
    walk(tr.roots, top_names)

    # expected: emitted operators with the budget of the emitting call
    if err is not None:
        expected = "None"
        nexp = 0
    else:
        items = []
        if not tr.roots:
            b0 = nww
            items = [f"({gop(o, top_names, codes)}, {gopt(b0)})" for o in out_ops]
        else:
            def emitted(n, names_):
                """emission order = order of calls; names of an op are those of the list it was created in"""
                out = []
                kids = n["children"]
                if isinstance(n["op"], qp.ops.Conditional):
                    if n["direct"]:
                        return [f"({gop(n['op'], names_, codes)}, {gopt(n['nww'])})"]
                    inner = []
                    for k in kids:
                        inner += emitted(k, names_)
                    return [wrap_cond(t) for t in inner]
                if n["direct"]:
                    out.append(f"({gop(n['op'], names_, codes)}, {gopt(n['nww'])})")
                nm = sib_names([k["op"] for k in kids])
                for k in kids:
                    out += emitted(k, nm)
                return out
            for r in tr.roots:
                items += emitted(r, top_names)
        nexp = len(items)
        expected = f"(Some ({glist(items)}, {gz(nwarn)}))"
        if nexp != len(out_ops):
            rec["trace_mismatch"] = f"trace emits {nexp} operators, output has {len(out_ops)}"
    b0 = nww
    if sol is not None:
        b0 = sol.num_work_wires
    cfg = (f"(mkCfg {glist([gz(c) for c in sorted(acc)])} {glist([gz(c) for c in sorted(cacc)])} {glist(gtab)} "
           f"{glist([t for _, t in ltab])} {'true' if sol is not None else 'false'} {'true' if graph else 'false'} "
           f"{'true' if (mode != 'transform' and strict) else 'false'} {'true' if custom else 'false'} {gopt(maxexp)} {gopt(b0)} "
           f"{'true' if mode == 'transform' else 'false'} {glist([gz(c) for c in sorted({c for c, _ in seen})])})")
    rec["cov"]["branch"] = branch
    rec["cov"]["codes"] = len(codes.tab)
    return f"({cfg}, {glist(in_terms)}, {expected})"


def wrap_cond(t):
    # t = "(<op>, <budget>)"  ->  "((Cond 0 <op>), <budget>)"
    body = t[1:-1]
    i = body.rindex(", ")
    return f"((Cond 0 {body[:i]}), {body[i + 2:]})"


# ----------------------------------------------------------------------------- main
runs = []
for case in req["cases"]:
    try:
        r = run_case(case)
    except Exception as e:  # noqa   (driver problem, reported as such)
        import traceback
        r = {"status": "driver-error", "detail": short(e), "tb": traceback.format_exc()[-600:], "cov": {}}
    runs.append(r)

# exact reference circuits of the INPUT (second phase: qx patches PennyLane's casting helpers in this process)
from qx import exact_circuit_gallina, NotExtractable  # noqa: E402
for case, r in zip(req["cases"], runs):
    ops, W = r.pop("_ops", None), r.pop("_W", None)
    if r.get("status") != "ok" or not isinstance(r.get("sem"), dict) or r.get("Meff") is None or not case.get("exact", True):
        continue
    n = len(W)
    cols = sorted({int(x) % (2 ** n) for x in (case.get("cols") or [0])})
    try:
        circs = []
        for c in cols:
            prep = [qp.X(W[i]) for i in range(n) if (c >> (n - 1 - i)) & 1]
            circs.append(exact_circuit_gallina(prep + ops, W))
        r["exact"] = {"n": n, "cols": cols, "circuits": circs}
    except NotExtractable as e:
        r["exact"] = {"notex": str(e)[:120]}
    except Exception as e:  # noqa
        r["exact"] = {"notex": "failed: " + short(e)}
print(json.dumps({"runs": runs, "t": round(time.time() - T_START, 2), "premise_notes": PREMISE_NOTES[:40]}))
