"""C56 implementation driver: arithmetic templates on default.qubit + export of classical decompositions.

stdin : {"cases": [case, ...]}
case  : {"t": template, "regs": {name: [wire labels]}, "order": [all wire labels], "inputs": [int, ...]
         (basis inputs as integers over `order`, order[0] = most significant bit), + template parameters}
stdout: one JSON line: list of {"err": str | None, "rules": [{"name", "dq": [int|-1...], "gates": [...] | None,
         "why": str, "nw": int}], "mat": [int|-1...] | None}
"""
import json
import sys

import numpy as np
import pennylane as qp
from pennylane.queuing import AnnotatedQueue
from pennylane.tape import QuantumScript

try:
    from pennylane.core.operator import Operator2
except Exception:  # pragma: no cover
    Operator2 = ()

TOL = 1e-9
DEV = qp.device("default.qubit")


class NotClassical(Exception):
    pass


def poly_fn(terms, nvars):
    def f(*xs):
        tot = 0
        for coef, exps in terms:
            p = coef
            for x, e in zip(xs, exps):
                p = p * x ** e
            tot = tot + p
        return tot
    # OutPoly inspects the number of arguments only through the registers; keep a plain callable
    return f


def build(c):
    t, r = c["t"], c["regs"]
    if t == "SemiAdder":
        return qp.SemiAdder(r["x"], r["y"], r["work"] if r.get("work") else None)
    if t == "Incrementer":
        return qp.Incrementer(r["x"], r.get("work", []))
    if t == "IntegerComparator":
        return qp.IntegerComparator(c["k"], wires=r["x"] + r["tgt"], geq=c["geq"], work_wires=r.get("work") or None)
    if t == "TemporaryAND":
        return qp.TemporaryAND(r["x"] + r["tgt"], control_values=c["cv"])
    if t == "AdjTemporaryAND":
        return qp.adjoint(qp.TemporaryAND(r["x"] + r["tgt"], control_values=c["cv"]))
    if t == "QubitCarry":
        return qp.QubitCarry(wires=r["a"] + r["b"] + r["c"] + r["d"])
    if t == "QubitSum":
        return qp.QubitSum(wires=r["a"] + r["b"] + r["c"])
    if t == "Adder":
        return qp.Adder(c["k"], r["x"], c["mod"], r.get("work", []))
    if t == "PhaseAdder":
        return qp.PhaseAdder(c["k"], r["x"], c["mod"], r.get("work", []))
    if t == "OutAdder":
        return qp.OutAdder(r["x"], r["y"], r["out"], c["mod"], r.get("work", []))
    if t == "Multiplier":
        return qp.Multiplier(c["k"], r["x"], c["mod"], r["work"])
    if t == "OutMultiplier":
        return qp.OutMultiplier(r["x"], r["y"], r["out"], c["mod"], r.get("work", []),
                                output_wires_zeroed=c.get("zeroed", False))
    if t == "SignedOutMultiplier":
        return qp.SignedOutMultiplier(r["x"], r["y"], r["out"], r["work"], output_wires_zeroed=c.get("zeroed", False))
    if t == "ModExp":
        return qp.ModExp(r["x"], r["out"], c["k"], c["mod"], r["work"])
    if t == "OutSquare":
        return qp.OutSquare(r["x"], r["out"], r["work"], output_wires_zeroed=c.get("zeroed", False))
    if t == "SignedOutSquare":
        return qp.SignedOutSquare(r["x"], r["out"], r["work"], output_wires_zeroed=c.get("zeroed", False))
    if t == "OutPoly":
        regs = [r[n] for n in c["vars"]]
        return qp.OutPoly(poly_fn(c["poly"], len(regs)), regs, r["out"], c["mod"], r.get("work", []))
    raise ValueError("unknown template " + t)


def rule_args(op):
    if Operator2 and isinstance(op, Operator2):
        return (), dict(op.arguments), dict(op.arguments)
    return tuple(op.data), dict(wires=op.wires, **op.hyperparameters), dict(op.resource_params)


def applicable_rules(op):
    out = []
    args, kw, rp = rule_args(op)
    for rule in qp.list_decomps(op):
        try:
            if rule.is_applicable(**rp):
                out.append(rule)
        except Exception:
            continue
    return out


def apply_rule(op, rule):
    args, kw, _ = rule_args(op)
    with AnnotatedQueue() as q:
        rule(*args, **kw)
    return list(q.queue)


NONCLASSICAL = {"Hadamard", "T", "S", "PhaseShift", "QFT", "RZ", "RX", "RY", "Rot", "ControlledPhaseShift", "CZ",
                "MidMeasure", "MidMeasureMP", "GlobalPhase", "PauliZ", "PauliY", "SX", "CY", "CH", "Adjoint(T)",
                "Adjoint(S)", "Adjoint(QFT)", "Conditional", "U1", "U2", "U3", "QubitUnitary", "ControlledQubitUnitary"}


class Exporter:
    """fully expands an operator list into classical reversible gates over wire positions"""

    def __init__(self, order):
        self.pos = {w: i for i, w in enumerate(order)}
        self.n = len(order)
        self.gates = []
        self.budget = 20000

    def p(self, w):
        if w not in self.pos:
            self.pos[w] = self.n      # dynamically allocated wire -> fresh position (must start and end in 0)
            self.n += 1
        return self.pos[w]

    def emit(self, kind, ctrls, vals, tgts):
        self.budget -= 1
        if self.budget < 0:
            raise NotClassical("too many gates")
        self.gates.append({"k": kind, "c": [self.p(w) for w in ctrls], "v": [int(bool(v)) for v in vals],
                           "t": [self.p(w) for w in tgts]})

    def leaf(self, op):
        """returns True when `op` has been emitted as a classical gate"""
        name = op.name
        ws = list(op.wires)
        if name in ("PauliX", "X"):
            self.emit("X", [], [], ws); return True
        if name == "CNOT":
            self.emit("X", ws[:1], [1], ws[1:]); return True
        if name == "Toffoli":
            self.emit("X", ws[:2], [1, 1], ws[2:]); return True
        if name == "MultiControlledX":
            cv = op.hyperparameters.get("control_values", None) if hasattr(op, "hyperparameters") else None
            if cv is None:
                cv = getattr(op, "control_values", None)
            if cv is None:
                cv = [1] * (len(ws) - 1)
            self.emit("X", ws[:-1], list(cv), ws[-1:]); return True
        if name == "SWAP":
            self.emit("SWAP", [], [], ws); return True
        if name == "CSWAP":
            self.emit("SWAP", ws[:1], [1], ws[1:]); return True
        if name == "TemporaryAND":
            self.emit("AND", ws[:2], [bool(v) for v in np.asarray(op.control_values)], ws[2:]); return True
        if name == "Adjoint(TemporaryAND)":
            self.emit("ANDADJ", ws[:2], [bool(v) for v in np.asarray(op.base.control_values)], ws[2:]); return True
        if name in ("Identity", "Barrier", "Allocate", "Deallocate", "WireCut"):
            for w in ws:
                self.p(w)
            return True
        if name == "BasisState" or name == "BasisEmbedding":
            bits = np.asarray(op.data[0] if len(op.data) else op.hyperparameters.get("basis_state"))
            for b, w in zip(bits.tolist(), ws):
                if int(b):
                    self.emit("X", [], [], [w])
            return True
        # generic controlled-X / controlled-SWAP / controlled-BasisState
        base = getattr(op, "base", None)
        cw = getattr(op, "control_wires", None)
        if base is not None and cw is not None and name.startswith("C("):
            cvals = list(getattr(op, "control_values", [1] * len(cw)))
            cw = list(cw)
            if base.name in ("PauliX", "X"):
                self.emit("X", cw, cvals, list(base.wires)); return True
            if base.name in ("CNOT", "Toffoli"):
                bw = list(base.wires)
                self.emit("X", cw + bw[:-1], cvals + [1] * (len(bw) - 1), bw[-1:]); return True
            if base.name == "MultiControlledX":
                bw = list(base.wires)
                bcv = list(base.hyperparameters.get("control_values", [1] * (len(bw) - 1)))
                self.emit("X", cw + bw[:-1], cvals + bcv, bw[-1:]); return True
            if base.name == "SWAP":
                self.emit("SWAP", cw, cvals, list(base.wires)); return True
            if base.name in ("BasisState", "BasisEmbedding"):
                bits = np.asarray(base.data[0] if len(base.data) else base.hyperparameters.get("basis_state"))
                for b, w in zip(bits.tolist(), list(base.wires)):
                    if int(b):
                        self.emit("X", cw, cvals, [w])
                return True
        return False

    @staticmethod
    def memo_key(op):
        extra = []
        try:
            items = dict(op.arguments) if (Operator2 and isinstance(op, Operator2)) else dict(op.hyperparameters)
        except Exception:
            items = {}
        for k, v in sorted(items.items()):
            if isinstance(v, (bool, int, str)) or v is None:
                extra.append((k, v))
            elif hasattr(v, "__len__") and not isinstance(v, np.ndarray):
                try:
                    extra.append((k, len(v)))
                except Exception:
                    pass
        base = getattr(op, "base", None)
        return (op.name, len(op.wires), tuple(extra), Exporter.memo_key(base) if base is not None and base is not op else None)

    def expand(self, op, depth=0):
        if self.leaf(op):
            return
        if op.name in NONCLASSICAL or depth > 12:
            raise NotClassical(op.name)
        key = self.memo_key(op)
        if key in FAILED:
            raise NotClassical(FAILED[key])
        try:
            rules = applicable_rules(op)
        except Exception:
            rules = []
        candidates = [(lambda rule=rule: apply_rule(op, rule)) for rule in rules]
        if not candidates:
            candidates.append(lambda: list(op.decomposition()))
        last = None
        for cand in candidates:
            save_g, save_pos, save_n = len(self.gates), dict(self.pos), self.n
            try:
                sub = cand()
                if len(sub) == 1 and sub[0] is op:
                    raise NotClassical(op.name)
                for s in sub:
                    self.expand(s, depth + 1)
                return
            except NotClassical as ex:
                last = ex
            except Exception as ex:  # decomposition undefined etc.
                last = NotClassical(f"{op.name}: {type(ex).__name__}")
            del self.gates[save_g:]
            self.pos, self.n = save_pos, save_n
        last = last or NotClassical(op.name)
        FAILED[key] = str(last)
        raise last


FAILED = {}


def bits_of(i, n):
    return [(i >> (n - 1 - j)) & 1 for j in range(n)]


def run_dq(ops_list, order, inputs):
    """default.qubit semantics of `ops_list` on the given basis inputs: the device's own preprocessing
    (decomposition to its native gate set, dynamic-wire resolution) is run once, then the device's gate
    kernels (pennylane.devices.qubit.apply_operation) are applied to the batch of all basis inputs."""
    from pennylane.devices.qubit import apply_operation
    n = len(order)
    prog = DEV.preprocess_transforms()
    # the all-zero BasisState on every wire of `order` makes all of them part of the circuit (as in a real
    # circuit that prepares the input), so that dynamically allocated work wires never alias an input wire
    prep = qp.BasisState(np.zeros(n, dtype=int), wires=order)
    batch, _ = prog([QuantumScript([prep] + list(ops_list), [qp.state()])])
    tape = batch[0]
    body = list(tape.operations)
    while body and body[0].name in ("BasisState", "StatePrep", "BasisStatePreparation"):
        body.pop(0)
    if any(o.name in ("BasisState", "StatePrep") for o in body) or len(body) == len(tape.operations):
        return run_dq_slow(ops_list, order, inputs)
    extra = [w for w in tape.wires if w not in set(order)]
    allw = list(order) + extra
    nt = len(allw)
    if nt > 16:
        raise RuntimeError("too many wires")
    if any(o.name in ("MidMeasureMP", "MidMeasure", "Conditional") for o in body):
        return run_dq_slow(ops_list, order, inputs)
    wmap = {w: i for i, w in enumerate(allw)}
    native = [o.map_wires(wmap) for o in body]
    st = np.zeros((len(inputs),) + (2,) * nt, dtype=complex)
    for b, i in enumerate(inputs):
        st[(b,) + tuple(bits_of(i, n)) + (0,) * (nt - n)] = 1.0
    for o in native:
        st = apply_operation(o, st, is_state_batched=True)
    pr = np.abs(np.asarray(st).reshape(len(inputs), -1)) ** 2
    out = []
    for row in pr:
        j = int(np.argmax(row))
        ok = abs(row[j] - 1.0) <= TOL and (np.sum(row) - row[j]) <= TOL and (j % (1 << (nt - n))) == 0
        out.append((j >> (nt - n)) if ok else -1)
    return out


def run_dq_slow(ops_list, order, inputs):
    n = len(order)
    tapes = [QuantumScript([qp.BasisState(np.array(bits_of(i, n)), wires=order)] + list(ops_list),
                           [qp.probs(wires=order)]) for i in inputs]
    res = qp.execute(tapes, DEV)      # full device pipeline (handles mid-circuit measurements)
    out = []
    for pr in res:
        pr = np.asarray(pr, dtype=float).reshape(-1)
        j = int(np.argmax(pr))
        out.append(j if abs(pr[j] - 1.0) <= TOL and np.sum(np.abs(pr)) - pr[j] <= TOL else -1)
    return out


def matrix_cols(op, order, inputs):
    """columns of qp.matrix(op) for the basis inputs: index of the 1 entry, -1 if not a basis vector (1e-9)"""
    M = np.asarray(qp.matrix(op, wire_order=order))
    out = []
    for i in inputs:
        col = M[:, i]
        j = int(np.argmax(np.abs(col)))
        e = np.zeros_like(col); e[j] = 1.0
        out.append(j if np.max(np.abs(col - e)) <= TOL else -1)
    return out


def wrap_ops(c, ops_list, regs):
    """PhaseAdder acts in the Fourier basis: conjugate with QFT as the documentation does"""
    if c["t"] == "PhaseAdder":
        return [qp.QFT(wires=regs["x"])] + list(ops_list) + [qp.adjoint(qp.QFT(wires=regs["x"]))]
    return list(ops_list)


def do_case(c):
    order, inputs = c["order"], c["inputs"]
    op = build(c)
    if c.get("ctrl"):
        op = qp.ctrl(op, control=c["ctrl"]["w"], control_values=c["ctrl"]["v"])
    res = {"err": None, "rules": [], "mat": None}
    variants = [("<device>", [op])]
    for rule in applicable_rules(op):
        try:
            variants.append((rule.name, apply_rule(op, rule)))
        except Exception as ex:
            res["rules"].append({"name": rule.name, "dq": None, "gates": None, "why": f"rule raised {type(ex).__name__}: {ex}", "nw": len(order)})
    legacy_override = not (Operator2 and isinstance(op, Operator2)) and \
        getattr(type(op).compute_decomposition, "__func__", type(op).compute_decomposition) is not \
        getattr(qp.operation.Operator.compute_decomposition, "__func__", qp.operation.Operator.compute_decomposition)
    if legacy_override:
        try:
            variants.append(("<decomposition()>", list(op.decomposition())))
        except Exception:
            pass
    for name, ops_list in variants:
        ent = {"name": name, "dq": None, "gates": None, "why": "", "nw": len(order)}
        try:
            ent["dq"] = run_dq(wrap_ops(c, ops_list, c["regs"]), order, inputs)
        except Exception as ex:
            ent["why"] = f"dq raised {type(ex).__name__}: {str(ex)[:200]}"
        if name != "<device>" and c["t"] != "PhaseAdder":
            exp = Exporter(order)
            try:
                for o in ops_list:
                    exp.expand(o)
                ent["gates"], ent["nw"] = exp.gates, exp.n
            except NotClassical as ex:
                ent["why"] += f" not-classical: {ex}"
        res["rules"].append(ent)
    if c.get("matrix"):
        try:
            res["mat"] = matrix_cols(op, order, inputs)
        except Exception as ex:
            res["mat_err"] = f"{type(ex).__name__}: {str(ex)[:200]}"
    return res


def main():
    out = []
    for c in json.load(sys.stdin)["cases"]:
        try:
            out.append(do_case(c))
        except Exception as ex:
            out.append({"err": f"{type(ex).__name__}: {str(ex)[:300]}", "rules": [], "mat": None})
    print(json.dumps(out))


if __name__ == "__main__":
    main()
