"""C34 Part B: real QNodes (unpatched PennyLane) in every sampled differentiation configuration; Jacobians are compared with
the reference derivative evaluated from the certified expectation polynomials (serialised by c34_impl.py)."""
import sys, json, random, math, cmath, warnings
warnings.filterwarnings("ignore")
import numpy as np
import pennylane as qp

req = json.load(sys.stdin)
rng = random.Random(req["seed"] + 7)
PI = math.pi


def pnum(P, theta, D):
    return sum(complex(a, b) * cmath.exp(1j * sum(e * t / D for e, t in zip(m, theta))) for a, b, m in P)

def word_op(word, ws):
    P = {"X": qp.X, "Y": qp.Y, "Z": qp.Z}
    o = P[word[0]](ws[0])
    for c, w in zip(word[1:], ws[1:]):
        o = o @ P[c](w)
    return o


def meas_of(m):
    if m["k"] == "expval":
        return qp.expval(word_op(m["word"], m["wires"]))
    if m["k"] == "var":
        return qp.var(word_op(m["word"], m["wires"]))
    if m["k"] == "probs":
        return qp.probs(wires=m["wires"])
    if m["k"] == "ham":
        return qp.expval(qp.Hamiltonian([t[0] for t in m["terms"]], [word_op(t[1], t[2]) for t in m["terms"]]))
    raise ValueError(m)


def expr_val(e, x, M):
    """value of a gate-parameter expression with the math module M (np / autograd / jax / torch)"""
    if e[0] == "fix":
        return e[1]
    if e[0] == "lin":
        return e[2] * x[e[1]] + e[3]
    if e[0] == "prod":
        return x[e[1]] * x[e[2]]
    if e[0] == "sin":
        return M.sin(x[e[1]])
    if e[0] == "sq":
        return x[e[1]] ** 2
    raise ValueError(e)


def expr_grad(e, x):
    g = [0.0] * len(x)
    if e[0] == "lin":
        g[e[1]] = e[2]
    elif e[0] == "prod":
        g[e[1]] += x[e[2]]
        g[e[2]] += x[e[1]]
    elif e[0] == "sin":
        g[e[1]] = math.cos(x[e[1]])
    elif e[0] == "sq":
        g[e[1]] = 2 * x[e[1]]
    return g


# ------------------------------------------------------------------ Part B: configurations
def make_qnode(spec, interface, diff_method, extra):
    import pennylane as qp
    dev = qp.device("default.qubit", wires=spec["nw"] + (1 if diff_method == "hadamard" else 0))
    kw = dict(extra)
    gk = kw.pop("gradient_kwargs", {})

    if interface == "torch":
        import torch as M
    elif interface.startswith("jax"):
        import jax.numpy as M
    else:
        from pennylane import numpy as M

    @qp.qnode(dev, interface="jax" if interface == "jax-jit" else interface, diff_method=diff_method, gradient_kwargs=gk, **kw)
    def circ(x):
        for s in spec["steps"]:
            ps = [expr_val(p, x, M) for p in s["params"]]
            getattr(qp, s["name"])(*ps, wires=s["wires"])
        return tuple(meas_of(m) for m in spec["meas"])

    def cost(x):
        res = circ(x)
        return qp.math.hstack([qp.math.reshape(r, (-1,)) for r in res])
    return cost, circ


def jacobian_in(spec, interface, diff_method, extra, xval):
    cost, circ = make_qnode(spec, interface, diff_method, extra)
    if interface == "autograd":
        from pennylane import numpy as pnp
        x = pnp.array(xval, requires_grad=True)
        return np.asarray(qp.jacobian(cost)(x), dtype=float)
    if interface == "jax":
        import jax
        jax.config.update("jax_enable_x64", True)
        return np.asarray(jax.jacobian(cost)(jax.numpy.array(xval)), dtype=float)
    if interface == "jax-jit":
        import jax
        jax.config.update("jax_enable_x64", True)
        return np.asarray(jax.jit(jax.jacobian(cost))(jax.numpy.array(xval)), dtype=float)
    if interface == "torch":
        import torch
        x = torch.tensor(xval, dtype=torch.float64, requires_grad=True)
        return np.asarray(torch.autograd.functional.jacobian(cost, x).detach().numpy(), dtype=float)
    raise ValueError(interface)


def reference_jacobian(spec, refs_all, tp, xval, D=4):
    """rows in measurement order (var included) x QNode args"""
    theta = []
    for (si, pi) in tp:
        theta.append(expr_val(spec["steps"][si]["params"][pi], xval, math))
    dth = [expr_grad(spec["steps"][si]["params"][pi], xval) for (si, pi) in tp]
    rows, vals = [], []
    for r in refs_all:
        if r["kind"] == "lin":
            g = [pnum(r["dE"][p], theta, D) for p in range(len(tp))]
            val = pnum(r["E"], theta, D)
        else:   # var = <O^2> - <O>^2
            e1 = pnum(r["E"], theta, D)
            g = [pnum(r["dE2"][p], theta, D) - 2 * e1 * pnum(r["dE"][p], theta, D) for p in range(len(tp))]
            val = pnum(r["E2"], theta, D) - e1 * e1
        g = [complex(z) for z in g]
        assert all(abs(z.imag) < 1e-9 for z in g), g
        rows.append([sum(g[p].real * dth[p][a] for p in range(len(tp))) for a in range(len(xval))])
        vals.append(complex(val).real)
    return np.array(rows, dtype=float), np.array(vals, dtype=float)


CONFIGS = []
for itf in ["autograd", "jax", "jax-jit", "torch"]:
    CONFIGS.append((itf, "backprop", {}))
    CONFIGS.append((itf, "parameter-shift", {}))
    CONFIGS.append((itf, "hadamard", {"gradient_kwargs": {"aux_wire": "AUX"}}))
    CONFIGS.append((itf, "finite-diff", {}))
    CONFIGS.append((itf, "spsa", {}))
    for goe in [True, False]:
        for dv in [False, True]:
            CONFIGS.append((itf, "adjoint", {"grad_on_execution": goe, "device_vjp": dv}))
for itf in ["autograd", "jax"]:
    CONFIGS.append((itf, "hadamard", {"gradient_kwargs": {"mode": "reversed", "aux_wire": "AUX"}}))
    CONFIGS.append((itf, "hadamard", {"gradient_kwargs": {"mode": "direct"}}))
    CONFIGS.append((itf, "hadamard", {"gradient_kwargs": {"mode": "reversed-direct"}}))
    CONFIGS.append((itf, "parameter-shift", {"gradient_kwargs": {"broadcast": True}}))
    CONFIGS.append((itf, "parameter-shift", {"grad_on_execution": False, "device_vjp": False, "cache": False}))
    CONFIGS.append((itf, "finite-diff", {"gradient_kwargs": {"approx_order": 2, "strategy": "center"}}))


def run_config(spec, refs, tp, cfgt, xval, spsa_dirs):
    itf, dm, extra = cfgt
    extra = json.loads(json.dumps(extra))
    gk = extra.get("gradient_kwargs", {})
    if gk.get("aux_wire") == "AUX":
        gk["aux_wire"] = spec["nw"]
    if dm == "spsa":
        extra.setdefault("gradient_kwargs", {}).update({"num_directions": spsa_dirs, "sampler_rng": 1234, "h": 1e-3})
    ref, vals = reference_jacobian(spec, refs, tp, xval)
    try:
        J = jacobian_in(spec, itf, dm, extra, xval)
    except Exception as e:   # the configuration does not accept this circuit
        return {"status": "rejected", "err": type(e).__name__ + ": " + str(e)[:200].replace("\n", " ")}
    J = np.asarray(J, dtype=float)
    if J.size == ref.size:
        J = J.reshape(ref.shape)
    else:
        return {"status": "shape", "got": list(J.shape), "want": list(ref.shape)}
    if dm == "spsa":
        gn = np.linalg.norm(ref, axis=1, keepdims=True)
        tol = 7 * gn * math.sqrt(max(1, ref.shape[1]) / spsa_dirs) + 5e-3
    else:
        tol = np.full(ref.shape, 5e-5 if dm == "finite-diff" else 1e-7)
    bad = np.abs(J - ref) > tol
    if bad.any() or not np.all(np.isfinite(J)):
        return {"status": "mismatch", "jac": J.tolist(), "ref": ref.tolist(), "tol": float(np.max(tol))}
    return {"status": "ok"}


def main():
    out = {"results": [], "stats": {}}
    for si, item in enumerate(req["specs"]):
        spec, tp, refs = item["spec"], [tuple(x) for x in item["tp"]], item["refs"]
        xval = [rng.uniform(-2.5, 2.5) for _ in range(spec["nx"])]
        must = item.get("must_accept", False)
        cfgs = list(CONFIGS) if (must or req["n_cfg"] >= len(CONFIGS)) else rng.sample(CONFIGS, req["n_cfg"])
        for cfgt in cfgs:
            r = run_config(spec, refs, tp, cfgt, xval, req["spsa_dirs"])
            ck = f"{cfgt[0]}/{cfgt[1]}/{json.dumps(cfgt[2], sort_keys=True)}"
            d = out["stats"].setdefault(ck, {})
            d[r["status"]] = d.get(r["status"], 0) + 1
            if r["status"] != "ok" and not (r["status"] == "rejected" and not must):
                out["results"].append({"si": si, "config": ck, "x": xval, "result": r})
            elif r["status"] == "rejected":
                e = out["stats"].setdefault("_reject_reasons", {})
                k = r["err"][:70]
                e[k] = e.get(k, 0) + 1
    print(json.dumps(out))


main()
