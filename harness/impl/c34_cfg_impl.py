"""C34 Part B: real QNodes (unpatched PennyLane) in every sampled differentiation configuration; Jacobians are compared with
the reference derivative evaluated from the certified expectation polynomials (serialised by c34_impl.py)."""
import sys, json, random, math, cmath, warnings
warnings.filterwarnings("ignore")
import numpy as np
import pennylane as qp

req = json.load(sys.stdin)
rng = random.Random(req["seed"] + 7)
PI = math.pi


sys.path.insert(0, "/verif/harness")
from gradcfg import *


TRANSFORMS = [("ps", "param_shift", {}), ("psb", "param_shift", {"broadcast": True}),
              ("had", "hadamard_grad", {"aux_wire": "AUX", "mode": "standard"}), ("hadrev", "hadamard_grad", {"aux_wire": "AUX", "mode": "reversed"}),
              ("haddir", "hadamard_grad", {"mode": "direct"}), ("hadrd", "hadamard_grad", {"mode": "reversed-direct"}),
              ("hadauto", "hadamard_grad", {"aux_wire": "AUX", "mode": "auto"}),
              ("fd", "finite_diff", {}), ("fdc", "finite_diff", {"approx_order": 2, "strategy": "center"})]


def run_transform(spec, refs, tp, tname, fname, kw, xval):
    """the gradient transform applied to the numeric tape directly (gate-level Jacobian)"""
    ref, vals, G, dth, theta = reference_jacobian(spec, refs, tp, xval)
    kw = dict(kw)
    if kw.get("aux_wire") == "AUX":
        kw["aux_wire"] = spec["nw"]
    tape = numeric_tape(spec, theta, tp)
    try:
        gt, fn = getattr(qp.gradients, fname)(tape, **kw)
        res = qp.execute(gt, qp.device("default.qubit"), diff_method=None) if len(gt) else ()
        out = fn(res)
    except Exception as e:
        return {"status": "rejected", "err": type(e).__name__ + ": " + str(e)[:160].replace("\n", " ")}
    # out: per measurement (tuple) per parameter (tuple) arrays
    P = len(tp)
    nm = len(spec["meas"])
    rows = []
    try:
        per_m = out if nm > 1 else (out,)
        for mi in range(nm):
            pm = per_m[mi] if P > 1 else (per_m[mi],)
            cols = [np.asarray(pm[p], dtype=float).reshape(-1) for p in range(P)]
            for c in range(len(cols[0])):
                rows.append([cols[p][c] for p in range(P)])
        J = np.array(rows, dtype=float)
    except Exception as e:
        return {"status": "shape", "err": repr(e)[:200]}
    if J.shape != G.shape:
        return {"status": "shape", "got": list(J.shape), "want": list(G.shape)}
    tol = 5e-5 if fname == "finite_diff" else 1e-8
    if (np.abs(J - G) > tol).any() or not np.all(np.isfinite(J)):
        return {"status": "mismatch", "jac": J.tolist(), "ref": G.tolist(), "theta": theta, "tol": tol}
    return {"status": "ok"}


CONFIGS = []
for itf in ["autograd", "jax", "jax-jit", "torch"]:
    CONFIGS.append((itf, "backprop", {}))
    CONFIGS.append((itf, "parameter-shift", {}))
    CONFIGS.append((itf, "hadamard", {"gradient_kwargs": {"aux_wire": "AUX"}}))
    CONFIGS.append((itf, "finite-diff", {}))
    CONFIGS.append((itf, "spsa", {}))
    for goe in [True, False]:
        for dv in [False, True]:
            CONFIGS.append((itf, "adjoint", {"grad_on_execution": goe, "device_vjp": dv}))
for itf in ["autograd", "jax"]:
    CONFIGS.append((itf, "hadamard", {"gradient_kwargs": {"mode": "reversed", "aux_wire": "AUX"}}))
    CONFIGS.append((itf, "hadamard", {"gradient_kwargs": {"mode": "direct"}}))
    CONFIGS.append((itf, "hadamard", {"gradient_kwargs": {"mode": "reversed-direct"}}))
    CONFIGS.append((itf, "parameter-shift", {"gradient_kwargs": {"broadcast": True}}))
    CONFIGS.append((itf, "parameter-shift", {"grad_on_execution": False, "device_vjp": False, "cache": False}))
    CONFIGS.append((itf, "finite-diff", {"gradient_kwargs": {"approx_order": 2, "strategy": "center"}}))


def run_config(spec, refs, tp, cfgt, xval, spsa_dirs):
    itf, dm, extra = cfgt
    extra = json.loads(json.dumps(extra))
    gk = extra.get("gradient_kwargs", {})
    if gk.get("aux_wire") == "AUX":
        gk["aux_wire"] = spec["nw"]
    if dm == "spsa":
        extra.setdefault("gradient_kwargs", {}).update({"num_directions": spsa_dirs, "sampler_rng": 1234, "h": 1e-3})
    ref, vals, G, dth, theta = reference_jacobian(spec, refs, tp, xval)
    try:
        J = jacobian_in(spec, itf, dm, extra, xval)
    except Exception as e:   # the configuration does not accept this circuit
        return {"status": "rejected", "err": type(e).__name__ + ": " + str(e)[:200].replace("\n", " ")}
    J = np.asarray(J, dtype=float)
    if J.size == ref.size:
        J = J.reshape(ref.shape)
    else:
        return {"status": "shape", "got": list(J.shape), "want": list(ref.shape)}
    if dm == "spsa":
        gn = np.linalg.norm(G, axis=1, keepdims=True)                     # gate-level gradient norm per output row
        tol = 7 * gn * np.sum(np.abs(dth), axis=0, keepdims=True) / math.sqrt(spsa_dirs) + 5e-3
    else:
        tol = np.full(ref.shape, 5e-5 if dm == "finite-diff" else 1e-7)
    bad = np.abs(J - ref) > tol
    if bad.any() or not np.all(np.isfinite(J)):
        return {"status": "mismatch", "jac": J.tolist(), "ref": ref.tolist(), "tol": float(np.max(tol))}
    return {"status": "ok"}


def main():
    out = {"results": [], "stats": {}}
    for si, item in enumerate(req["specs"]):
        spec, tp, refs = item["spec"], [tuple(x) for x in item["tp"]], item["refs"]
        xval = [rng.uniform(-2.5, 2.5) for _ in range(spec["nx"])]
        must = item.get("must_accept", False)
        cfgs = list(CONFIGS) if (must or req["n_cfg"] >= len(CONFIGS)) else rng.sample(CONFIGS, req["n_cfg"])
        if item.get("cfg_slice"):
            a, b = item["cfg_slice"]
            cfgs = cfgs[a::b]
        for tname, fname, kw in (TRANSFORMS if not item.get("cfg_slice") or item["cfg_slice"][0] == 0 else []):
            r = run_transform(spec, refs, tp, tname, fname, kw, xval)
            d = out["stats"].setdefault("transform:" + tname, {})
            d[r["status"]] = d.get(r["status"], 0) + 1
            if r["status"] not in ("ok", "rejected"):
                out["results"].append({"si": item.get("si", si), "config": "transform:" + tname, "x": xval, "result": r})
        for cfgt in cfgs:
            r = run_config(spec, refs, tp, cfgt, xval, req["spsa_dirs"])
            ck = f"{cfgt[0]}/{cfgt[1]}/{json.dumps(cfgt[2], sort_keys=True)}"
            d = out["stats"].setdefault(ck, {})
            d[r["status"]] = d.get(r["status"], 0) + 1
            if r["status"] != "ok" and not (r["status"] == "rejected" and not must):
                out["results"].append({"si": item.get("si", si), "config": ck, "x": xval, "result": r})
            elif r["status"] == "rejected":
                e = out["stats"].setdefault("_reject_reasons", {})
                k = r["err"][:70]
                e[k] = e.get(k, 0) + 1
    print(json.dumps(out))


main()
