"""C34 Part B: real QNodes (unpatched PennyLane) in every sampled differentiation configuration; Jacobians are compared with
the reference derivative evaluated from the certified expectation polynomials (serialised by c34_impl.py)."""
import sys, json, random, math, cmath, warnings
warnings.filterwarnings("ignore")
import numpy as np
import pennylane as qp

req = json.load(sys.stdin)
rng = random.Random(req["seed"] + 7)
PI = math.pi


def pnum(P, theta, D):
    return sum(complex(a, b) * cmath.exp(1j * sum(e * t / D for e, t in zip(m, theta))) for a, b, m in P)

def word_op(word, ws):
    P = {"X": qp.X, "Y": qp.Y, "Z": qp.Z}
    o = P[word[0]](ws[0])
    for c, w in zip(word[1:], ws[1:]):
        o = o @ P[c](w)
    return o


def meas_of(m):
    if m["k"] == "expval":
        return qp.expval(word_op(m["word"], m["wires"]))
    if m["k"] == "var":
        return qp.var(word_op(m["word"], m["wires"]))
    if m["k"] == "probs":
        return qp.probs(wires=m["wires"])
    if m["k"] == "ham":
        return qp.expval(qp.Hamiltonian([t[0] for t in m["terms"]], [word_op(t[1], t[2]) for t in m["terms"]]))
    raise ValueError(m)


def expr_val(e, x, M):
    """value of a gate-parameter expression with the math module M (np / autograd / jax / torch)"""
    if e[0] == "fix":
        return e[1]
    if e[0] == "lin":
        return e[2] * x[e[1]] + e[3]
    if e[0] == "prod":
        return x[e[1]] * x[e[2]]
    if e[0] == "sin":
        return M.sin(x[e[1]])
    if e[0] == "sq":
        return x[e[1]] ** 2
    raise ValueError(e)


def expr_grad(e, x):
    g = [0.0] * len(x)
    if e[0] == "lin":
        g[e[1]] = e[2]
    elif e[0] == "prod":
        g[e[1]] += x[e[2]]
        g[e[2]] += x[e[1]]
    elif e[0] == "sin":
        g[e[1]] = math.cos(x[e[1]])
    elif e[0] == "sq":
        g[e[1]] = 2 * x[e[1]]
    return g


# ------------------------------------------------------------------ Part B: configurations
def make_qnode(spec, interface, diff_method, extra):
    import pennylane as qp
    dev = qp.device("default.qubit", wires=spec["nw"] + (1 if diff_method == "hadamard" else 0))
    kw = dict(extra)
    gk = kw.pop("gradient_kwargs", {})

    if interface == "torch":
        import torch as M
    elif interface.startswith("jax"):
        import jax.numpy as M
    else:
        from pennylane import numpy as M

    @qp.qnode(dev, interface="jax" if interface == "jax-jit" else interface, diff_method=diff_method, gradient_kwargs=gk, **kw)
    def circ(x):
        for s in spec["steps"]:
            ps = [expr_val(p, x, M) for p in s["params"]]
            getattr(qp, s["name"])(*ps, wires=s["wires"])
        return tuple(meas_of(m) for m in spec["meas"])

    def cost(x):
        res = circ(x)
        return qp.math.hstack([qp.math.reshape(r, (-1,)) for r in res])
    return cost, circ


def jacobian_in(spec, interface, diff_method, extra, xval):
    cost, circ = make_qnode(spec, interface, diff_method, extra)
    if interface == "autograd":
        from pennylane import numpy as pnp
        x = pnp.array(xval, requires_grad=True)
        return np.asarray(qp.jacobian(cost)(x), dtype=float)
    if interface == "jax":
        import jax
        jax.config.update("jax_enable_x64", True)
        return np.asarray(jax.jacobian(cost)(jax.numpy.array(xval)), dtype=float)
    if interface == "jax-jit":
        import jax
        jax.config.update("jax_enable_x64", True)
        return np.asarray(jax.jit(jax.jacobian(cost))(jax.numpy.array(xval)), dtype=float)
    if interface == "torch":
        import torch
        x = torch.tensor(xval, dtype=torch.float64, requires_grad=True)
        return np.asarray(torch.autograd.functional.jacobian(cost, x).detach().numpy(), dtype=float)
    raise ValueError(interface)


def reference_jacobian(spec, refs_all, tp, xval, D=4):
    """rows in measurement order (var included) x QNode args; also the gate-level gradient G and d theta / d x"""
    theta = []
    for (si, pi) in tp:
        theta.append(expr_val(spec["steps"][si]["params"][pi], xval, math))
    dth = [expr_grad(spec["steps"][si]["params"][pi], xval) for (si, pi) in tp]
    rows, vals, G = [], [], []
    for r in refs_all:
        if r["kind"] == "lin":
            g = [pnum(r["dE"][p], theta, D) for p in range(len(tp))]
            val = pnum(r["E"], theta, D)
        else:   # var = <O^2> - <O>^2
            e1 = pnum(r["E"], theta, D)
            g = [pnum(r["dE2"][p], theta, D) - 2 * e1 * pnum(r["dE"][p], theta, D) for p in range(len(tp))]
            val = pnum(r["E2"], theta, D) - e1 * e1
        g = [complex(z) for z in g]
        assert all(abs(z.imag) < 1e-9 for z in g), g
        G.append([z.real for z in g])
        rows.append([sum(g[p].real * dth[p][a] for p in range(len(tp))) for a in range(len(xval))])
        vals.append(complex(val).real)
    return np.array(rows, dtype=float), np.array(vals, dtype=float), np.array(G, dtype=float).reshape(len(rows), len(tp)), np.array(dth, dtype=float).reshape(len(tp), len(xval)), theta


def numeric_tape(spec, theta_by_tp, tp):
    ops = []
    train = []
    idx = 0
    for si, s in enumerate(spec["steps"]):
        ps = []
        for pi, p in enumerate(s["params"]):
            if p[0] == "fix":
                ps.append(p[1])
            else:
                ps.append(qp.numpy.array(theta_by_tp[tp.index((si, pi))], requires_grad=True))
                train.append(idx)
            idx += 1
        ops.append(getattr(qp, s["name"])(*ps, wires=s["wires"]))
    return qp.tape.QuantumScript(ops, [meas_of(m) for m in spec["meas"]], trainable_params=train)


TRANSFORMS = [("ps", "param_shift", {}), ("psb", "param_shift", {"broadcast": True}),
              ("had", "hadamard_grad", {"aux_wire": "AUX", "mode": "standard"}), ("hadrev", "hadamard_grad", {"aux_wire": "AUX", "mode": "reversed"}),
              ("haddir", "hadamard_grad", {"mode": "direct"}), ("hadrd", "hadamard_grad", {"mode": "reversed-direct"}),
              ("hadauto", "hadamard_grad", {"aux_wire": "AUX", "mode": "auto"}),
              ("fd", "finite_diff", {}), ("fdc", "finite_diff", {"approx_order": 2, "strategy": "center"})]


def run_transform(spec, refs, tp, tname, fname, kw, xval):
    """the gradient transform applied to the numeric tape directly (gate-level Jacobian)"""
    ref, vals, G, dth, theta = reference_jacobian(spec, refs, tp, xval)
    kw = dict(kw)
    if kw.get("aux_wire") == "AUX":
        kw["aux_wire"] = spec["nw"]
    tape = numeric_tape(spec, theta, tp)
    try:
        gt, fn = getattr(qp.gradients, fname)(tape, **kw)
        res = qp.execute(gt, qp.device("default.qubit"), diff_method=None) if len(gt) else ()
        out = fn(res)
    except Exception as e:
        return {"status": "rejected", "err": type(e).__name__ + ": " + str(e)[:160].replace("\n", " ")}
    # out: per measurement (tuple) per parameter (tuple) arrays
    P = len(tp)
    nm = len(spec["meas"])
    rows = []
    try:
        per_m = out if nm > 1 else (out,)
        for mi in range(nm):
            pm = per_m[mi] if P > 1 else (per_m[mi],)
            cols = [np.asarray(pm[p], dtype=float).reshape(-1) for p in range(P)]
            for c in range(len(cols[0])):
                rows.append([cols[p][c] for p in range(P)])
        J = np.array(rows, dtype=float)
    except Exception as e:
        return {"status": "shape", "err": repr(e)[:200]}
    if J.shape != G.shape:
        return {"status": "shape", "got": list(J.shape), "want": list(G.shape)}
    tol = 5e-5 if fname == "finite_diff" else 1e-8
    if (np.abs(J - G) > tol).any() or not np.all(np.isfinite(J)):
        return {"status": "mismatch", "jac": J.tolist(), "ref": G.tolist(), "theta": theta, "tol": tol}
    return {"status": "ok"}


CONFIGS = []
for itf in ["autograd", "jax", "jax-jit", "torch"]:
    CONFIGS.append((itf, "backprop", {}))
    CONFIGS.append((itf, "parameter-shift", {}))
    CONFIGS.append((itf, "hadamard", {"gradient_kwargs": {"aux_wire": "AUX"}}))
    CONFIGS.append((itf, "finite-diff", {}))
    CONFIGS.append((itf, "spsa", {}))
    for goe in [True, False]:
        for dv in [False, True]:
            CONFIGS.append((itf, "adjoint", {"grad_on_execution": goe, "device_vjp": dv}))
for itf in ["autograd", "jax"]:
    CONFIGS.append((itf, "hadamard", {"gradient_kwargs": {"mode": "reversed", "aux_wire": "AUX"}}))
    CONFIGS.append((itf, "hadamard", {"gradient_kwargs": {"mode": "direct"}}))
    CONFIGS.append((itf, "hadamard", {"gradient_kwargs": {"mode": "reversed-direct"}}))
    CONFIGS.append((itf, "parameter-shift", {"gradient_kwargs": {"broadcast": True}}))
    CONFIGS.append((itf, "parameter-shift", {"grad_on_execution": False, "device_vjp": False, "cache": False}))
    CONFIGS.append((itf, "finite-diff", {"gradient_kwargs": {"approx_order": 2, "strategy": "center"}}))


def run_config(spec, refs, tp, cfgt, xval, spsa_dirs):
    itf, dm, extra = cfgt
    extra = json.loads(json.dumps(extra))
    gk = extra.get("gradient_kwargs", {})
    if gk.get("aux_wire") == "AUX":
        gk["aux_wire"] = spec["nw"]
    if dm == "spsa":
        extra.setdefault("gradient_kwargs", {}).update({"num_directions": spsa_dirs, "sampler_rng": 1234, "h": 1e-3})
    ref, vals, G, dth, theta = reference_jacobian(spec, refs, tp, xval)
    try:
        J = jacobian_in(spec, itf, dm, extra, xval)
    except Exception as e:   # the configuration does not accept this circuit
        return {"status": "rejected", "err": type(e).__name__ + ": " + str(e)[:200].replace("\n", " ")}
    J = np.asarray(J, dtype=float)
    if J.size == ref.size:
        J = J.reshape(ref.shape)
    else:
        return {"status": "shape", "got": list(J.shape), "want": list(ref.shape)}
    if dm == "spsa":
        gn = np.linalg.norm(G, axis=1, keepdims=True)                     # gate-level gradient norm per output row
        tol = 7 * gn * np.sum(np.abs(dth), axis=0, keepdims=True) / math.sqrt(spsa_dirs) + 5e-3
    else:
        tol = np.full(ref.shape, 5e-5 if dm == "finite-diff" else 1e-7)
    bad = np.abs(J - ref) > tol
    if bad.any() or not np.all(np.isfinite(J)):
        return {"status": "mismatch", "jac": J.tolist(), "ref": ref.tolist(), "tol": float(np.max(tol))}
    return {"status": "ok"}


def main():
    out = {"results": [], "stats": {}}
    for si, item in enumerate(req["specs"]):
        spec, tp, refs = item["spec"], [tuple(x) for x in item["tp"]], item["refs"]
        xval = [rng.uniform(-2.5, 2.5) for _ in range(spec["nx"])]
        must = item.get("must_accept", False)
        cfgs = list(CONFIGS) if (must or req["n_cfg"] >= len(CONFIGS)) else rng.sample(CONFIGS, req["n_cfg"])
        if item.get("cfg_slice"):
            a, b = item["cfg_slice"]
            cfgs = cfgs[a::b]
        for tname, fname, kw in (TRANSFORMS if not item.get("cfg_slice") or item["cfg_slice"][0] == 0 else []):
            r = run_transform(spec, refs, tp, tname, fname, kw, xval)
            d = out["stats"].setdefault("transform:" + tname, {})
            d[r["status"]] = d.get(r["status"], 0) + 1
            if r["status"] not in ("ok", "rejected"):
                out["results"].append({"si": item.get("si", si), "config": "transform:" + tname, "x": xval, "result": r})
        for cfgt in cfgs:
            r = run_config(spec, refs, tp, cfgt, xval, req["spsa_dirs"])
            ck = f"{cfgt[0]}/{cfgt[1]}/{json.dumps(cfgt[2], sort_keys=True)}"
            d = out["stats"].setdefault(ck, {})
            d[r["status"]] = d.get(r["status"], 0) + 1
            if r["status"] != "ok" and not (r["status"] == "rejected" and not must):
                out["results"].append({"si": item.get("si", si), "config": ck, "x": xval, "result": r})
            elif r["status"] == "rejected":
                e = out["stats"].setdefault("_reject_reasons", {})
                k = r["err"][:70]
                e[k] = e.get(k, 0) + 1
    print(json.dumps(out))


main()
