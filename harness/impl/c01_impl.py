"""C01: every representation an operator exposes vs its matrix: decomposition, eigvals + diagonalizing gates,
pauli_rep, generator (spectral form), wire_order, integer powers (symbolic obligations) + sparse matrix, capability
flags, fractional powers (numeric)."""
import sys, json, random, math, itertools
sys.path.insert(0, "/verif/harness")
from qrules import *
import numpy as np
import scipy.linalg as sla

req = json.load(sys.stdin)
rng = random.Random(req["seed"])
tier = req["tier"]
install_patches()
items, oblig = [], []
HZ = 4


def add(kind, label, stmt, hz=HZ):
    oblig.append({"name": f"ob_{len(oblig)}", "kind": kind, "label": label, "stmt": stmt})
    return oblig[-1]["name"]


def s_scale(c, A):
    return [[c * x for x in r] for r in A]


def s_add(A, B):
    return [[a + b for a, b in zip(ra, rb)] for ra, rb in zip(A, B)]


def s_kron(A, B):
    return [[a * b for a in ra for b in rb] for ra in A for rb in B]


PAULIM = {"I": [[1, 0], [0, 1]], "X": [[0, 1], [1, 0]], "Y": [[0, -1j], [1j, 0]], "Z": [[1, 0], [0, -1]]}


def pauli_rep_matrix(pr, wires):
    n = len(wires)
    tot = [[Sym.of(0) for _ in range(2 ** n)] for _ in range(2 ** n)]
    for pw, coeff in pr.items():
        M = [[Sym.of(1)]]
        for w in wires:
            M = s_kron(M, [[Sym.of(x) for x in r] for r in PAULIM[pw.get(w, "I")]])
        c = coeff
        if isinstance(c, np.ndarray):
            c = c.flat[0]
        tot = s_add(tot, s_scale(Sym.of(c), M))
    return tot


def instances():
    out = []
    for name, cls, npar, nw in fixed_arity_classes():
        if name in SKIP_FIXED:
            continue
        out.append((name, npar, lambda p, cls=cls, nw=nw, lab=None: cls(*p, wires=list(range(nw)))))
    for n in (2, 3):
        out.append((f"MultiRZ[{n}]", 1, lambda p, n=n: qp.MultiRZ(p[0], wires=list(range(n)))))
    for w in ("X", "ZY", "XYZ"):
        out.append((f"PauliRot[{w}]", 1, lambda p, w=w: qp.PauliRot(p[0], w, wires=list(range(len(w))))))
    out.append(("MCX[101]", 0, lambda p: qp.MultiControlledX(wires=[0, 1, 2, 3], control_values=[1, 0, 1])))
    out.append(("ctrl(RY,[0,1])", 1, lambda p: qp.ctrl(qp.RY(p[0], wires=2), control=[0, 1], control_values=[1, 0])))
    out.append(("adjoint(CRX)", 1, lambda p: qp.adjoint(qp.CRX(p[0], wires=[0, 1]))))
    return out


def numeric_points(npar):
    return [[rng.uniform(-7, 7) for _ in range(max(npar, 1))] for _ in range(2)] + [[0.0] * max(npar, 1), [math.pi] * max(npar, 1), [2 * math.pi] * max(npar, 1)]


for label, npar, mk in instances():
    it = {"label": label, "status": "ok", "detail": "", "kinds": [], "numeric_fail": None, "flags": []}
    items.append(it)
    try:
        set_cfg(8, 8, npar)
        op = mk([var_array(j) for j in range(npar)])
        k = len(op.wires)
        S = op_matrix_sym(op)
        ok, w = spot_check(op, S, rng)
        if not ok:
            raise NotExtractable(f"spot-check {w}")
    except NotExtractable as e:
        it["status"], it["detail"] = "notex", str(e)[:200]
        op = None
    except Exception as e:
        it["status"], it["detail"] = "error", f"{type(e).__name__}: {str(e)[:200]}"
        op = None
    # ---------------- numeric statement for every representation (direct search)
    for th in numeric_points(npar):
        try:
            nop = mk(th[:npar])
            ws = list(nop.wires)
            M = np.asarray(qp.matrix(nop, wire_order=ws))
            fails = []
            if nop.has_decomposition:
                Dm = np.asarray(qp.matrix(qp.tape.QuantumScript(nop.decomposition()), wire_order=ws)) if nop.decomposition() else np.eye(len(M))
                if not np.allclose(Dm, M, atol=1e-8):
                    fails.append("decomposition")
            if getattr(nop, "has_diagonalizing_gates", False):
                try:
                    E = np.asarray(nop.eigvals())
                    dg = nop.diagonalizing_gates()
                    U = np.asarray(qp.matrix(qp.tape.QuantumScript(dg), wire_order=ws)) if dg else np.eye(len(M))
                    if not np.allclose(U.conj().T @ np.diag(E) @ U, M, atol=1e-8):
                        fails.append("eigvals+diagonalizing_gates")
                except qp.operation.EigvalsUndefinedError:
                    pass
            if nop.pauli_rep is not None:
                if not np.allclose(nop.pauli_rep.to_mat(wire_order=ws), M, atol=1e-8):
                    fails.append("pauli_rep")
            if getattr(nop, "has_sparse_matrix", False):
                try:
                    if not np.allclose(nop.sparse_matrix(wire_order=ws).toarray(), M, atol=1e-8):
                        fails.append("sparse_matrix")
                except Exception as e:
                    fails.append(f"sparse_matrix raised {type(e).__name__}")
                # every wire order (incl. cyclic ones, which are not their own inverse) and an extra wire
                try:
                    import itertools as _it
                    perms = list(_it.permutations(ws)) if len(ws) <= 3 else [tuple(ws[1:] + ws[:1]), tuple(ws[-1:] + ws[:-1])]
                    for pm in perms[:6]:
                        for wo in (list(pm), list(pm[:1]) + ["__extra__"] + list(pm[1:])):
                            if not np.allclose(nop.sparse_matrix(wire_order=wo).toarray(), np.asarray(qp.matrix(nop, wire_order=wo)), atol=1e-8):
                                fails.append(f"sparse_matrix(wire_order={wo})")
                                break
                except Exception as e:
                    fails.append(f"sparse_matrix(wire_order) raised {type(e).__name__}")
            if npar == 1 and getattr(nop, "has_generator", False):
                G = np.asarray(qp.matrix(qp.generator(nop, format="observable"), wire_order=ws)).astype(complex)
                if not np.allclose(sla.expm(1j * th[0] * G), M, atol=1e-8):
                    fails.append("generator")
            # capability flags
            for flag, call, err in (("has_matrix", lambda: nop.matrix(), "MatrixUndefinedError"), ("has_decomposition", lambda: nop.decomposition(), "DecompositionUndefinedError"),
                                    ("has_diagonalizing_gates", lambda: nop.diagonalizing_gates(), "DiagGatesUndefinedError"), ("has_generator", lambda: nop.generator(), "GeneratorUndefinedError")):
                claimed = bool(getattr(nop, flag, False))
                try:
                    call(); produced = True; raised = None
                except Exception as e:
                    produced = False; raised = type(e).__name__
                if claimed != produced or (not produced and raised != err):
                    fails.append(f"flag {flag}={claimed} but produced={produced} raised={raised}")
            if fails and it["numeric_fail"] is None:
                it["numeric_fail"] = {"thetas": th[:npar], "representations": fails}
        except Exception as e:
            if it["numeric_fail"] is None:
                it["numeric_fail"] = {"thetas": th[:npar], "representations": [f"raised {type(e).__name__}: {str(e)[:100]}"]}
    # ---------------- parameter broadcasting: row i of every batched representation belongs to parameter value i
    if npar >= 1 and it["numeric_fail"] is None:
        try:
            for B in (3, 4):            # 4 = dimension of a two-wire operator: a transposed result keeps a plausible shape
                vals = [0.3 + 0.77 * i * (-1) ** i for i in range(B)]
                rest = [0.41 + 0.2 * j for j in range(npar - 1)]
                try:
                    bop = mk([np.array(vals)] + rest)
                    if getattr(bop, "batch_size", None) != B:
                        break
                    Mb = np.asarray(qp.matrix(bop, wire_order=list(bop.wires)))
                except Exception:
                    break               # the class does not support broadcasting: nothing claimed
                singles = [np.asarray(qp.matrix(mk([v] + rest), wire_order=list(bop.wires))) for v in vals]
                bfails = []
                if Mb.shape != (B,) + singles[0].shape or not all(np.allclose(Mb[i], singles[i], atol=1e-8) for i in range(B)):
                    bfails.append("matrix (broadcast)")
                try:
                    Eb = np.asarray(bop.eigvals())
                    okE = Eb.shape == (B, singles[0].shape[0])
                    if okE:
                        for i in range(B):
                            spec = list(np.linalg.eigvals(singles[i]))
                            for e in Eb[i]:
                                jbest = min(range(len(spec)), key=lambda j: abs(spec[j] - e))
                                if abs(spec[jbest] - e) > 1e-6:
                                    okE = False
                                    break
                                spec.pop(jbest)
                    if not okE:
                        bfails.append("eigvals (broadcast)")
                except qp.operation.EigvalsUndefinedError:
                    pass
                if bfails:
                    it["numeric_fail"] = {"thetas": [vals] + rest, "representations": bfails}
                    break
        except Exception as e:
            it.setdefault("skipped", []).append(("broadcast", f"{type(e).__name__}: {str(e)[:80]}"))
    if op is None:
        continue
    ows = g_nats(range(k))
    allc = f"(all_cols {k}%nat)"
    # ---------------- symbolic obligations
    def tryadd(kind, f):
        n0 = len(oblig)
        try:
            f()
            it["kinds"].append(kind)
        except NotExtractable as e:
            del oblig[n0:]
            it.setdefault("skipped", []).append((kind, str(e)[:80]))
        except Exception as e:
            del oblig[n0:]
            it.setdefault("skipped", []).append((kind, f"{type(e).__name__}: {str(e)[:80]}"))

    def f_dec():
        if not op.has_decomposition:
            raise NotExtractable("no decomposition")
        with AnnotatedQueue() as q:
            dec = op.decomposition()
        gates = []
        for o in dec:
            So = op_matrix_sym(o)
            ok, w = spot_check(o, So, rng)
            if not ok:
                raise NotExtractable("spot-check")
            if any(x not in op.wires for x in o.wires):
                raise NotExtractable("decomposition uses extra wires")
            gates.append(g_gate([list(op.wires).index(x) for x in o.wires], So))
        add("decomposition", label, f"cols_ok {HZ}%Z {k}%nat [{'; '.join(gates)}] {ows} {g_mat(S)} {allc} = true")
    tryadd("decomposition", f_dec)

    def f_diag():
        if not getattr(op, "has_diagonalizing_gates", False):
            raise NotExtractable("no diagonalizing gates")
        E = np.asarray(op.eigvals())
        E = E[0] if E.ndim == 2 else E
        Es = [Sym.of(x) for x in E]
        dg = op.diagonalizing_gates()
        gs, gsa = [], []
        for o in dg:
            So = op_matrix_sym(o)
            idx = [list(op.wires).index(x) for x in o.wires]
            gs.append(g_gate(idx, So)); gsa.append(g_gate(idx, s_adj(So)))
        Dm = [[Es[i] if i == j else Sym.of(0) for j in range(len(Es))] for i in range(len(Es))]
        circ = gs + [g_gate(list(range(k)), Dm)] + gsa[::-1]
        add("eigvals+diagonalizing_gates", label, f"cols_ok {HZ}%Z {k}%nat [{'; '.join(circ)}] {ows} {g_mat(S)} {allc} = true")
    tryadd("eigvals+diagonalizing_gates", f_diag)

    def f_pr():
        if op.pauli_rep is None:
            raise NotExtractable("no pauli_rep")
        add("pauli_rep", label, f"meqb {HZ}%Z {g_mat(pauli_rep_matrix(op.pauli_rep, list(op.wires)))} {g_mat(S)} = true")
    tryadd("pauli_rep", f_pr)

    def f_gen():
        if npar != 1 or not getattr(op, "has_generator", False):
            raise NotExtractable("no generator")
        nop = mk([0.3])
        G = np.asarray(qp.matrix(qp.generator(nop, format="observable"), wire_order=list(nop.wires))).astype(np.complex128)
        lam = sorted(set(np.round(np.linalg.eigvalsh(G), 9)))
        lamq = [Fr(float(x)).limit_denominator(64) for x in lam]
        if any(abs(float(q) - x) > 1e-9 for q, x in zip(lamq, lam)):
            raise NotExtractable("irrational generator eigenvalues")
        SG = mat_to_sym(G)
        d = len(SG)
        I = s_ident(d)
        total = [[Sym.of(0)] * d for _ in range(d)]
        res = [[Sym.of(0)] * d for _ in range(d)]
        ann = I
        for kq in lamq:
            P = I
            for jq in lamq:
                if jq != kq:
                    P = s_mul(P, s_scale(Sym.of(Fr(1) / (kq - jq)), s_add(SG, s_scale(Sym.of(-jq), I))))
            ph = (Lin.var(0) * kq * 1j).exp()
            total = s_add(total, s_scale(ph, P))
            res = s_add(res, P)
            ann = s_mul(ann, s_add(SG, s_scale(Sym.of(-kq), I)))
        add("generator", label, f"meqb {HZ}%Z {g_mat(S)} {g_mat(total)} = true")
        add("generator-resolution", label, f"meqb {HZ}%Z {g_mat(res)} (p_mident {d}%nat) = true")
        add("generator-annihilator", label, f"meqb {HZ}%Z {g_mat(ann)} {g_mat([[Sym.of(0)] * d for _ in range(d)])} = true")
    tryadd("generator", f_gen)

    def f_wo():
        if k < 2 or k > 3:
            raise NotExtractable("wire_order check for 2-3 wires")
        for sg in list(itertools.permutations(range(k)))[1:3]:
            labels = ["a", 5, "q"][:k]
            lop = op.map_wires({i: labels[i] for i in range(k)})
            Mf = mat_to_sym(qp.matrix(lop, wire_order=[labels[i] for i in sg]))
            pos = [list(sg).index(i) for i in range(k)]
            add("wire_order", label + str(sg), f"cols_ok {HZ}%Z {k}%nat [{g_gate(pos, S)}] {ows} {g_mat(Mf)} {allc} = true")
    tryadd("wire_order", f_wo)

    def f_pow():
        for z in (2, 3, -1):
            pop = qp.pow(op, z, lazy=True)
            Sp = op_matrix_sym(pop)
            ok, w = spot_check(pop, Sp, rng)
            if not ok:
                raise NotExtractable("spot-check pow")
            expr = g_mat(S) if z > 0 else f"(p_madj {g_mat(S)})"
            acc = expr
            for _ in range(abs(z) - 1):
                acc = f"(p_mmul {HZ}%Z {acc} {expr})"
            add("integer_power", f"{label}**{z}", f"meqb {HZ}%Z {acc} {g_mat(Sp)} = true")
    if tier != "quick" or rng.random() < 0.35:
        tryadd("integer_power", f_pow)
json.dump(oblig, open(req["outdir"] + "/obligations.json", "w"))
print(json.dumps({"items": items}))
