"""Runs pennylane.qchem on the JSON cases from stdin; prints one JSON line of observations.

Nothing is verified here: the driver only calls the real PennyLane functions and serialises what they
return (Pauli sentences as [[[wire, letter], ...], re, im], fermionic sentences as [[[orbital, sign], ...], re, im]).
All checking (matrices, commutators, eigenvalues, PySCF reference energies, Coq model) happens in props/c62.py.
"""
import json, os, sys, tempfile, warnings

warnings.filterwarnings("ignore")
import numpy as np
import pennylane as qp
from pennylane import qchem


def ps_out(op):
    ps = qp.pauli.pauli_sentence(op)
    out = []
    for pw, c in ps.items():
        c = complex(qp.math.toarray(c)) if not isinstance(c, (int, float, complex)) else complex(c)
        out.append([[[int(w), str(l)] for w, l in sorted(pw.items())], float(c.real), float(c.imag)])
    return out


def fs_out(fs):
    out = []
    for fw, c in fs.items():
        c = complex(qp.math.toarray(c)) if not isinstance(c, (int, float, complex)) else complex(c)
        word = [[int(k[1]), str(v)] for k, v in sorted(fw.items(), key=lambda kv: kv[0][0])]
        out.append([word, float(c.real), float(c.imag)])
    return out


def err(ex):
    return {"error": type(ex).__name__, "msg": str(ex)[:300]}


_obs_cache = {}


def observables(ne, q):
    key = (ne, q)
    if key not in _obs_cache:
        _obs_cache[key] = {"number": ps_out(qchem.particle_number(q)), "spinz": ps_out(qchem.spinz(q)),
                           "spin2": ps_out(qchem.spin2(ne, q))}
    return _obs_cache[key]


def mol_case(c, tmp):
    symbols = list(c["symbols"])
    coords = np.array(c["coords"], dtype=float)
    method = c["method"]
    ae, ao = c.get("ae"), c.get("ao")
    mapping = c.get("mapping", "jordan_wigner")
    r = {}
    mol = qchem.Molecule(symbols, coords, charge=c["charge"], basis_name=c.get("basis", "sto-3g"))
    H, qubits = qchem.molecular_hamiltonian(mol, method=method, active_electrons=ae, active_orbitals=ao,
                                            mapping=mapping, outpath=tmp)
    r["qubits"] = int(qubits)
    r["wires"] = [int(w) for w in H.wires]
    r["H"] = ps_out(H)
    r["n_electrons_mol"] = int(mol.n_electrons)
    r["n_orbitals_mol"] = int(mol.n_orbitals)
    core, active = qchem.active_space(mol.n_electrons, mol.n_orbitals, 1, ae, ao)
    r["core"], r["active"] = [int(i) for i in core], [int(i) for i in active]
    ne = int(mol.n_electrons) - 2 * len(core)
    if mapping != "jordan_wigner":
        # other fermion-to-qubit mappings: the harness compares the spectrum with the Jordan-Wigner Hamiltonian of the
        # same call and evaluates the Hartree-Fock determinant written in that basis
        Hjw, _ = qchem.molecular_hamiltonian(mol, method=method, active_electrons=ae, active_orbitals=ao, outpath=tmp)
        r["H_jw"] = ps_out(Hjw)
        r["hf_state_mapped"] = [int(x) for x in qchem.hf_state(ne, int(qubits), basis=mapping)]
        return r
    # fermionic Hamiltonian of the same back-end
    try:
        if method == "dhf":
            fs = qchem.fermionic_hamiltonian(mol, core=core, active=active)()
            r["ferm"] = fs_out(fs)
            cc, one, two = qchem.electron_integrals(mol, core=core, active=active)()
            r["integrals"] = {"core": [float(x) for x in np.ravel(cc)], "one": np.asarray(one).tolist(),
                              "two": np.asarray(two).tolist()}
        elif method == "pyscf":
            cc, one, two = qchem.openfermion_pyscf._pyscf_integrals(symbols, coords.flatten(), c["charge"], 1,
                                                                    c.get("basis", "sto-3g"), ae, ao)
            r["ferm"] = fs_out(qchem.fermionic_observable(cc, one, two))
            r["integrals"] = {"core": [float(x) for x in np.ravel(cc)], "one": np.asarray(one).tolist(),
                              "two": np.asarray(two).tolist()}
    except Exception as ex:  # recorded, judged by the harness
        r["ferm_error"] = err(ex)
    r["obs"] = observables(ne, int(qubits))
    r["hf_state"] = [int(x) for x in qchem.hf_state(ne, int(qubits))]
    if c.get("taper"):
        try:
            gens = qchem.symmetry_generators(H)
            xops = qchem.paulix_ops(gens, int(qubits))
            sector = qchem.optimal_sector(H, gens, ne)
            Ht = qchem.taper(H, gens, xops, sector)
            hft = qchem.taper_hf(gens, xops, sector, ne, int(qubits))
            r["taper"] = {"generators": [ps_out(g) for g in gens],
                          "paulix": [[int(x.wires[0]), x.name] for x in xops],
                          "sector": [int(s) for s in sector],
                          "H_tap": ps_out(Ht), "tap_wires": [int(w) for w in Ht.wires],
                          "hf_tap": [int(x) for x in hft]}
            if c.get("taper_flip") is not None and len(sector) > 0:
                # a deliberately different sector: the harness checks that the spectrum follows the sector
                k = c["taper_flip"] % len(sector)
                sec2 = list(sector)
                sec2[k] = -sec2[k]
                H2 = qchem.taper(H, gens, xops, sec2)
                r["taper"]["sector2"] = [int(s) for s in sec2]
                r["taper"]["H_tap2"] = ps_out(H2)
        except Exception as ex:
            r["taper_error"] = err(ex)
    return r


def disc_case(c):
    op = c["op"]
    try:
        if op == "hf":
            return {"out": [int(x) for x in qchem.hf_state(c["e"], c["o"], basis=c["basis"])]}
        if op == "exc":
            s, d = qchem.excitations(c["e"], c["o"], delta_sz=c["d"])
            return {"out": [[[int(i) for i in x] for x in s], [[int(i) for i in x] for x in d]]}
        if op == "excf":
            s, d = qchem.excitations(c["e"], c["o"], delta_sz=c["d"], fermionic=True)
            f = lambda w: [[int(k[1]), str(v)] for k, v in sorted(w.items(), key=lambda kv: kv[0][0])]
            return {"out": [[f(w) for w in s], [f(w) for w in d]]}
        if op == "wires":
            s, d = qchem.excitations_to_wires(c["singles"], c["doubles"], wires=c.get("wires"))
            return {"out": [[[int(i) for i in x] for x in s], [[[int(i) for i in y] for y in x] for x in d]]}
        if op == "obs":
            if c["kind"] == "number":
                o = qchem.particle_number(c["n"])
            elif c["kind"] == "spinz":
                o = qchem.spinz(c["n"])
            else:
                o = qchem.spin2(c["e"], c["n"])
            return {"out": ps_out(o)}
    except ValueError as ex:
        return {"error": "ValueError", "msg": str(ex)[:200]}
    except Exception as ex:
        return {"error": type(ex).__name__, "msg": str(ex)[:200]}
    return {"error": "unknown-op"}


def main():
    payload = json.load(sys.stdin)
    out = {"mol": [], "disc": []}
    with tempfile.TemporaryDirectory() as tmp:
        cwd = os.getcwd()
        os.chdir(tmp)
        try:
            for c in payload.get("mol", []):
                try:
                    out["mol"].append(mol_case(c, tmp))
                except Exception as ex:
                    out["mol"].append(err(ex))
        finally:
            os.chdir(cwd)
    for c in payload.get("disc", []):
        out["disc"].append(disc_case(c))
    print(json.dumps(out))


main()
