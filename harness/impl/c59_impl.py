"""C59 driver: runs the real pennylane.fourier functions on the JSON cases from stdin; one JSON line out.

case kinds
  circ  : marked encoding circuit -> qp.fourier.circuit_spectrum  (+ sampled true spectrum per marker)
  qnode : encoding circuit with linear preprocessing -> qp.fourier.qnode_spectrum (+ sampled true spectrum)
  coef  : random real trigonometric polynomial -> qp.fourier.coefficients
  recon : random band-limited function -> qp.fourier.reconstruct, evaluated at random points
"""
import json
import sys
import warnings
from fractions import Fraction

import numpy as np
import pennylane as qp
from pennylane import numpy as pnp
from pennylane.fourier import mark

GATES = {
    "RX": (qp.RX, 1), "RY": (qp.RY, 1), "RZ": (qp.RZ, 1), "PhaseShift": (qp.PhaseShift, 1),
    "IsingZZ": (qp.IsingZZ, 2), "IsingXX": (qp.IsingXX, 2), "MultiRZ2": (qp.MultiRZ, 2),
    "MultiRZ3": (qp.MultiRZ, 3), "CRZ": (qp.CRZ, 2), "CPhase": (qp.ControlledPhaseShift, 2),
}


def lin_value(lin, off, x):
    """sum_i (num/den) * x[par_i] + offset  (x may hold arrays for broadcasting)"""
    v = off
    for p, num, den in lin:
        v = v + (num / den) * x[p]
    return v


def make_qfunc(case):
    """quantum function of one list-like argument x"""
    ops, obs = case["ops"], case["obs"]

    def qfunc(x):
        for o in ops:
            g = o["g"]
            if g == "CNOT":
                qp.CNOT(wires=o["w"])
                continue
            if g == "H":
                qp.Hadamard(wires=o["w"][0])
                continue
            if g == "Rot":
                # multi-parameter gate; when it carries an input the first angle is the encoded one
                a = lin_value(o["lin"], o.get("off", 0.0), x) if o.get("lin") else o["theta"][0]
                op = qp.Rot(a, o["theta"][1], o["theta"][2], wires=o["w"][0])
            else:
                cls, _ = GATES[g]
                a = lin_value(o["lin"], o.get("off", 0.0), x) if o.get("lin") else o["theta"][0]
                op = cls(a, wires=o["w"] if len(o["w"]) > 1 else o["w"][0])
            if o.get("mark") is not None:
                mark(op, "x%d" % o["mark"])
        word = [getattr(qp, c)(i) for i, c in enumerate(obs) if c != "I"]
        return qp.expval(qp.prod(*word) if len(word) > 1 else word[0])

    return qfunc


def true_spectrum(qnode, x0, p, L, B):
    """frequencies (as integers k meaning k/L) present in t -> qnode(x0 with x0[p] = t), by sampling one full
    period 2 pi L at M > 2 L B points and a discrete Fourier transform"""
    M = int(2 * L * B + 5)
    ts = 2 * np.pi * L * np.arange(M) / M
    try:
        x = [float(v) for v in x0]
        x[p] = ts
        vals = np.asarray(qnode(x), dtype=float).reshape(-1)
        assert vals.shape == (M,)
    except Exception:  # broadcasting not available for this circuit: one execution per sample
        vals = np.empty(M)
        for j, t in enumerate(ts):
            x = np.array(x0, dtype=float)
            x[p] = t
            vals[j] = float(qnode(x))
    c = np.fft.fft(vals) / M
    return [[int(k), float(abs(c[k]))] for k in range(M // 2 + 1) if abs(c[k]) > 1e-8]


def run_circ(case):
    dev = qp.device("default.qubit", wires=case["nw"])
    qn = qp.QNode(make_qfunc(case), dev)
    x0 = np.array(case["x0"], dtype=float)
    enc = None if case["enc"] is None else ["x%d" % m for m in case["enc"]]
    try:
        res = qp.fourier.circuit_spectrum(qn, encoding_gates=enc)(x0)
    except ValueError:
        return {"spec": "ERR"}
    out = {"spec": {k[1:]: [float(f) for f in v] for k, v in res.items()}, "true": {}}
    for p, (L, B) in case["fft"].items():
        out["true"][p] = true_spectrum(qn, x0, int(p), L, B)
    return out


def run_qnode(case):
    dev = qp.device("default.qubit", wires=case["nw"])
    qn = qp.QNode(make_qfunc(case), dev)
    x0 = pnp.array(case["x0"], requires_grad=True)
    res = qp.fourier.qnode_spectrum(qn)(x0)
    out = {"spec": {str(k[0]): [float(f) for f in v] for k, v in res["x"].items()}, "true": {}}
    qn2 = qp.QNode(make_qfunc(case), dev)
    for p, (L, B) in case["fft"].items():
        out["true"][p] = true_spectrum(qn2, np.array(case["x0"], dtype=float), int(p), L, B)
    return out


def run_coef(case):
    den = float(case["den"])
    ks = np.array([t[0] for t in case["terms"]], dtype=float)          # (T, n)
    cs = np.array([complex(t[1], t[2]) / den for t in case["terms"]])   # (T,)
    calls = {"n": 0}

    def f(x):
        calls["n"] += 1
        if case["bc"]:
            # x = [scalar, ..., array]; broadcast along the last axis
            ph = sum(ks[:, j][:, None] * np.asarray(x[j], dtype=float).reshape(1, -1) for j in range(len(x)))
            return np.real(np.sum(cs[:, None] * np.exp(1j * ph), axis=0))
        ph = ks @ np.asarray(x, dtype=float)
        return float(np.real(np.sum(cs * np.exp(1j * ph))))

    deg = case["deg"] if case["deg_int"] is None else case["deg_int"]
    deg = tuple(deg) if isinstance(deg, list) else deg
    thr = case["thr"]
    thr = tuple(thr) if isinstance(thr, list) else thr
    try:
        c = qp.fourier.coefficients(f, case["n"], deg, lowpass_filter=case["lp"], filter_threshold=thr,
                                    use_broadcasting=case["bc"])
    except ValueError:
        return "ERR"
    c = np.asarray(c)
    return {"shape": list(c.shape), "re": [float(v) for v in np.real(c).ravel()],
            "im": [float(v) for v in np.imag(c).ravel()], "calls": calls["n"]}


def run_recon(case):
    n = case["n"]
    terms = case["terms"]     # list of [amp, [[omega_j, phase_j] per coordinate]]

    def f_np(x):
        x = np.atleast_1d(np.asarray(x, dtype=float))
        tot = case["const"]
        for amp, fac in terms:
            v = amp
            for j, (om, ph) in enumerate(fac):
                v = v * np.cos(om * x[j] + ph)
            tot = tot + v
        return tot

    scalar = case["scalar"]
    calls = {"n": 0}

    def fun(x):
        calls["n"] += 1
        return f_np(x)

    key = (lambda j: ()) if scalar else (lambda j: (j,))
    ids = {"x": [key(j) for j in case["ids"]]}
    nums = spectra = shifts = None
    if case["mode"] == "equ":
        nums = {"x": {key(j): case["nums"][str(j)] for j in case["ids"]}}
    else:
        spectra = {"x": {key(j): case["spectra"][str(j)] for j in case["ids"]}}
        if case["mode"] == "gen_shifts":
            shifts = {"x": {key(j): case["shifts"][str(j)] for j in case["ids"]}}
    x0 = np.array(case["x0"][0]) if scalar else np.array(case["x0"], dtype=float)
    kw = {}
    if case["give_f0"]:
        kw["f0"] = f_np(x0)
    out = {"pts": [], "warn": False}
    with warnings.catch_warnings(record=True) as wl:
        warnings.simplefilter("always")
        try:
            rec = qp.fourier.reconstruct(fun, ids, nums, spectra, shifts)(x0, **kw)
        except (ValueError, np.linalg.LinAlgError) as e:
            return {"err": type(e).__name__}
        out["warn"] = any("condition number" in str(w.message) for w in wl)
    out["calls"] = calls["n"]
    for j in case["ids"]:
        r = rec["x"][key(j)]
        for t in case["points"]:
            x = np.array(case["x0"], dtype=float)
            x[j] = t
            out["pts"].append([j, t, float(r(t)), float(f_np(x))])
    return out


def main():
    import traceback
    out = []
    fn = {"circ": run_circ, "qnode": run_qnode, "coef": run_coef, "recon": run_recon}
    for c in json.load(sys.stdin)["cases"]:
        try:
            out.append(fn[c["kind"]](c))
        except Exception as e:  # unexpected: reported by the harness as a failure of that case
            out.append({"exc": type(e).__name__ + ": " + str(e)[:300], "tb": traceback.format_exc()[-1500:]})
    print(json.dumps(out))


main()
