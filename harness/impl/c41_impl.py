"""Runs structured queuing programs against the real pennylane queuing machinery.

stdin : {"cases": [prog, ...]}   prog = list of statements
    ["new", m]            m=0: qp.SX(0)   m=1: qp.RX(0.5, 0) (has a custom ctrl dispatch)   m=2: qp.probs(wires=[0])
    ["wrap", k, r1, r2]   k in adj|pow|ctrl|sprod|prod|expval ; operands = objects number (r mod #objects)
    ["apply", r]          qp.apply(object r mod #objects)
    ["with", body]        with AnnotatedQueue(): body
    ["stop", body]        with QueuingManager.stop_recording(): body
    ["try", body]         try: body  except Boom: pass
    ["raise"]             raise Boom
Objects are numbered in creation order (every new / wrap / apply result gets the next number); a
statement whose operands cannot be resolved (no object yet, or a measurement handed to an operator
wrapper) is skipped -- the Coq model uses the same convention.
stdout: one JSON line, per case {"queues": [[tags] per AnnotatedQueue in creation order], "nobj": n,
         "raised": bool, "stack_ok": bool}  or  {"crash": "..."}.
"""
import json
import sys
import warnings

warnings.filterwarnings("ignore")
import pennylane as qp
from pennylane.queuing import AnnotatedQueue, QueuingManager
from pennylane.measurements import MeasurementProcess


class Boom(Exception):
    pass


class Runner:
    def __init__(self):
        self.objs = []      # keeps every object alive (ids stay unique)
        self.tags = {}      # id(obj) -> number
        self.ctxs = []      # AnnotatedQueue objects in creation order
        self.ctr = 0

    def reg(self, o):
        self.tags[id(o)] = len(self.objs)
        self.objs.append(o)

    def res(self, r):
        return self.objs[r % len(self.objs)]

    def run(self, body):
        for s in body:
            self.stmt(s)

    def stmt(self, s):
        t = s[0]
        if t == "new":
            m = s[1]
            if m == 0:
                o = qp.SX(0)
            elif m == 1:
                o = qp.RX(0.5, wires=0)
            else:
                o = qp.probs(wires=[0])
            self.reg(o)
        elif t == "wrap":
            if not self.objs:
                return
            k = s[1]
            a = self.res(s[2])
            b = self.res(s[3])
            if isinstance(a, MeasurementProcess) or (k == "prod" and isinstance(b, MeasurementProcess)):
                return
            self.ctr += 1
            if k == "adj":
                o = qp.adjoint(a)
            elif k == "pow":
                o = qp.pow(a, 3)
            elif k == "ctrl":
                o = qp.ctrl(a, control=1000 + self.ctr)
            elif k == "sprod":
                o = 2.0 * a
            elif k == "prod":
                o = a @ b
            elif k == "expval":
                o = qp.expval(a)
            else:
                raise ValueError(k)
            self.reg(o)
        elif t == "apply":
            if not self.objs:
                return
            a = self.res(s[1])
            try:
                o = qp.apply(a)
            except RuntimeError:
                raise Boom from None
            self.reg(o)
        elif t == "with":
            q = AnnotatedQueue()
            self.ctxs.append(q)
            with q:
                self.run(s[1])
        elif t == "stop":
            with QueuingManager.stop_recording():
                self.run(s[1])
        elif t == "try":
            try:
                self.run(s[1])
            except Boom:
                pass
        elif t == "raise":
            raise Boom
        else:
            raise ValueError(t)


def one(prog):
    QueuingManager._active_contexts = []
    init = QueuingManager._active_contexts
    r = Runner()
    raised = False
    try:
        r.run(prog)
    except Boom:
        raised = True
    except Exception as e:  # anything else is not part of the modelled behaviour
        QueuingManager._active_contexts = []
        return {"crash": type(e).__name__ + ": " + str(e)[:200]}
    stack_ok = (QueuingManager._active_contexts is init and init == [] and not QueuingManager.recording()
                and QueuingManager.active_context() is None)
    queues = [[r.tags.get(id(o), -1) for o in q.queue] for q in r.ctxs]
    QueuingManager._active_contexts = []
    return {"queues": queues, "nobj": len(r.objs), "raised": raised, "stack_ok": bool(stack_ok)}


if __name__ == "__main__":
    out = [one(p) for p in json.load(sys.stdin)["cases"]]
    print(json.dumps(out))
