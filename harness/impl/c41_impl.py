"""Runs structured queuing programs against the real pennylane queuing machinery.

stdin : {"cases": [prog, ...]}   prog = list of statements
    ["new", m]            m=0: qp.SX(0)   m=1: qp.RX(0.5, 0) (has a custom ctrl dispatch)   m=2: qp.probs(wires=[0])
    ["wrap", k, r1, r2]   k in adj|pow|ctrl|sprod|prod|expval ; operands = objects number (r mod #objects)
    ["apply", r]          qp.apply(object r mod #objects)
    ["with", body]        with AnnotatedQueue(): body
    ["stop", body]        with QueuingManager.stop_recording(): body
    ["try", body]         try: body  except Boom: pass
    ["raise"]             raise Boom
Objects are numbered in creation order (every new / wrap / apply result gets the next number); a
statement whose operands cannot be resolved (no object yet, or a measurement handed to an operator
wrapper) is skipped -- the Coq model uses the same convention.
stdout: one JSON line, per case {"queues": [[tags] per AnnotatedQueue in creation order], "nobj": n,
         "raised": bool, "stack_ok": bool}  or  {"crash": "..."}.
"""
import json
import sys
import warnings

warnings.filterwarnings("ignore")
import pennylane as qp
from pennylane.queuing import AnnotatedQueue, QueuingManager
from pennylane.measurements import MeasurementProcess


class Boom(Exception):
    pass


class Runner:
    def __init__(self):
        self.objs = []      # keeps every object alive (ids stay unique)
        self.tags = {}      # id(obj) -> number
        self.ctxs = []      # AnnotatedQueue objects in creation order
        self.ctr = 0

    def reg(self, o):
        self.tags[id(o)] = len(self.objs)
        self.objs.append(o)

    def res(self, r):
        return self.objs[r % len(self.objs)]

    def run(self, body):
        for s in body:
            self.stmt(s)

    def stmt(self, s):
        t = s[0]
        if t == "new":
            m = s[1]
            if m == 0:
                o = qp.SX(0)
            elif m == 1:
                o = qp.RX(0.5, wires=0)
            else:
                o = qp.probs(wires=[0])
            self.reg(o)
        elif t == "wrap":
            if not self.objs:
                return
            k = s[1]
            a = self.res(s[2])
            b = self.res(s[3])
            if isinstance(a, MeasurementProcess) or (k == "prod" and isinstance(b, MeasurementProcess)):
                return
            self.ctr += 1
            if k == "adj":
                o = qp.adjoint(a)
            elif k == "pow":
                o = qp.pow(a, 3)
            elif k == "ctrl":
                o = qp.ctrl(a, control=1000 + self.ctr)
            elif k == "sprod":
                o = 2.0 * a
            elif k == "prod":
                o = a @ b
            elif k == "expval":
                o = qp.expval(a)
            else:
                raise ValueError(k)
            self.reg(o)
        elif t == "apply":
            if not self.objs:
                return
            a = self.res(s[1])
            try:
                o = qp.apply(a)
            except RuntimeError:
                raise Boom from None
            self.reg(o)
        elif t == "with":
            q = AnnotatedQueue()
            self.ctxs.append(q)
            with q:
                self.run(s[1])
        elif t == "stop":
            with QueuingManager.stop_recording():
                self.run(s[1])
        elif t == "try":
            try:
                self.run(s[1])
            except Boom:
                pass
        elif t == "raise":
            raise Boom
        else:
            raise ValueError(t)


def one(prog):
    QueuingManager._active_contexts = []
    init = QueuingManager._active_contexts
    r = Runner()
    raised = False
    try:
        r.run(prog)
    except Boom:
        raised = True
    except Exception as e:  # anything else is not part of the modelled behaviour
        QueuingManager._active_contexts = []
        return {"crash": type(e).__name__ + ": " + str(e)[:200]}
    stack_ok = (QueuingManager._active_contexts is init and init == [] and not QueuingManager.recording()
                and QueuingManager.active_context() is None)
    queues = [[r.tags.get(id(o), -1) for o in q.queue] for q in r.ctxs]
    QueuingManager._active_contexts = []
    return {"queues": queues, "nobj": len(r.objs), "raised": raised, "stack_ok": bool(stack_ok)}


# ---- eager constructors (outside the proved wrapper kinds): the operand is consumed, only the result is recorded
EAGER = {
    "pow_X_2": lambda: (qp.X(0), lambda b: qp.pow(b, 2, lazy=False)),
    "pow_H_2": lambda: (qp.H(0), lambda b: qp.pow(b, 2, lazy=False)),
    "pow_S_0": lambda: (qp.S(0), lambda b: qp.pow(b, 0, lazy=False)),
    "pow_SX_4": lambda: (qp.SX(0), lambda b: qp.pow(b, 4, lazy=False)),
    "pow_SX_2": lambda: (qp.SX(0), lambda b: qp.pow(b, 2, lazy=False)),
    "pow_RX_2": lambda: (qp.RX(0.4, 0), lambda b: qp.pow(b, 2, lazy=False)),
    "pow_X_3": lambda: (qp.X(0), lambda b: qp.pow(b, 3, lazy=False)),
    "pow_X_half": lambda: (qp.X(0), lambda b: qp.pow(b, 0.5, lazy=False)),
    "pow_CNOT_2": lambda: (qp.CNOT([0, 2]), lambda b: qp.pow(b, 2, lazy=False)),
    "pow_Rot_2": lambda: (qp.Rot(0.1, 0.2, 0.3, 0), lambda b: qp.pow(b, 2, lazy=False)),
    "pow_Rot_undef": lambda: (qp.Rot(0.1, 0.2, 0.3, 0), lambda b: qp.pow(b, 0.5, lazy=False)),
    "adj_S": lambda: (qp.S(0), lambda b: qp.adjoint(b, lazy=False)),
    "adj_X": lambda: (qp.X(0), lambda b: qp.adjoint(b, lazy=False)),
    "adj_RX": lambda: (qp.RX(0.3, 0), lambda b: qp.adjoint(b, lazy=False)),
    "adj_Rot": lambda: (qp.Rot(0.1, 0.2, 0.3, 0), lambda b: qp.adjoint(b, lazy=False)),
    "adj_adj": lambda: (qp.adjoint(qp.S(0)), lambda b: qp.adjoint(b, lazy=False)),
    "simplify": lambda: (qp.adjoint(qp.RX(0.3, 0)), lambda b: qp.simplify(b)),
    "exp": lambda: (qp.X(0), lambda b: qp.exp(b, 0.5j)),
    "evolve": lambda: (qp.X(0), lambda b: qp.evolve(b, 0.5)),
    "ctrl_X": lambda: (qp.X(0), lambda b: qp.ctrl(b, 2)),
    "ctrl_Z2": lambda: (qp.Z(0), lambda b: qp.ctrl(b, [2, 3])),
    "sum": lambda: (qp.X(0), lambda b: b + qp.Z(0)),
    "sub": lambda: (qp.X(0), lambda b: b - qp.Z(0)),
    "neg": lambda: (qp.X(0), lambda b: -b),
    "dunder_pow": lambda: (qp.X(0), lambda b: b ** 2),
    "var": lambda: (qp.X(0), lambda b: qp.var(b)),
    "sample": lambda: (qp.X(0), lambda b: qp.sample(b)),
}


def eager(name, nested):
    QueuingManager._active_contexts = []
    try:
        with AnnotatedQueue() as outer:
            o0 = qp.Y(5)
            if nested:
                with AnnotatedQueue() as q:
                    pre = qp.H(1)
                    base, f = EAGER[name]()
                    res = f(base)
                    post = qp.T(1)
            else:
                q = outer
                pre = qp.H(1)
                base, f = EAGER[name]()
                res = f(base)
                post = qp.T(1)
    except Exception as e:
        QueuingManager._active_contexts = []
        return {"crash": type(e).__name__ + ": " + str(e)[:200]}
    tag = lambda o: ("o0" if o is o0 else "pre" if o is pre else "post" if o is post else
                     "res" if o is res else "base" if o is base else "other:" + repr(o)[:40])
    return {"inner": [tag(o) for o in q.queue], "outer": [tag(o) for o in outer.queue],
            "same": res is base, "stack_ok": QueuingManager._active_contexts == []}


if __name__ == "__main__":
    inp = json.load(sys.stdin)
    if "eager" in inp:
        print(json.dumps({"names": sorted(EAGER), "obs": {n: [eager(n, False), eager(n, True)] for n in sorted(EAGER)}}))
    else:
        out = [one(p) for p in inp["cases"]]
        print(json.dumps(out))
