"""Runs the real pennylane boson-to-qubit mappings on the JSON cases from stdin; one JSON line on stdout.

case = {"kind": "bin"|"una"|"chr", "d": int, "terms": [[re_n, re_d, im_n, im_d, [[mode, "+"|"-"], ...]], ...],
        "as_word": bool, "b": optional second term list}
observation = {"img": sentence, "adj": sentence of the image of .adjoint(), "img_b", "img_sum"} or "ERR"
sentence = [[[[wire, "X"], ...], re, im], ...]  (floats exactly as stored in the PauliSentence)
"""
import json
import sys

import pennylane as qp
from pennylane.bose import BoseSentence, BoseWord


def mk_word(letters):
    return BoseWord({(i, int(m)): s for i, (m, s) in enumerate(letters)})


def mk_sent(terms):
    d = {}
    for rn, rd, inn, idd, letters in terms:
        c = complex(rn / rd, inn / idd)
        if inn == 0:
            c = rn / rd
        w = mk_word(letters)
        assert w not in d
        d[w] = c
    return BoseSentence(d)


def do_map(kind, d, op):
    if kind == "bin":
        return qp.binary_mapping(op, n_states=d, ps=True)
    if kind == "una":
        return qp.unary_mapping(op, n_states=d, ps=True)
    return qp.christiansen_mapping(op, ps=True)


def dump(ps):
    out = []
    for pw, c in ps.items():
        c = complex(c)
        out.append([[[int(w), p] for w, p in pw.items()], c.real, c.imag])
    return out


res = []
for c in json.load(sys.stdin)["cases"]:
    try:
        if c.get("as_word"):
            op = mk_word(c["terms"][0][4])
        else:
            op = mk_sent(c["terms"])
        r = {"img": dump(do_map(c["kind"], c["d"], op))}
        r["adj"] = dump(do_map(c["kind"], c["d"], op.adjoint()))
        if c.get("b") is not None:
            opb = mk_sent(c["b"])
            r["img_b"] = dump(do_map(c["kind"], c["d"], opb))
            r["img_sum"] = dump(do_map(c["kind"], c["d"], op + opb))
    except ValueError:
        r = "ERR"
    res.append(r)
print(json.dumps(res))
