"""C46 driver: runs the real tape.specs / qp.specs / estimator Resources arithmetic / Expression arithmetic on the
JSON cases from stdin; prints one JSON line of observations.

For a circuit the driver reports (a) a DESCRIPTION of the tape PennyLane actually built (op names, wires,
number of data entries, control count for bare Controlled ops, mid-measure keys, conditional dependencies) --
these are the inputs of the model -- and (b) the SUMMARY PennyLane reports for it."""
import json, sys, warnings
warnings.filterwarnings("ignore")
import pennylane as qp
from pennylane import numpy as pnp
from pennylane.tape import QuantumScript
from pennylane.ops.op_math import Controlled
from pennylane.ops.op_math.condition import Conditional
from pennylane.ops.mid_measure import MidMeasure
from pennylane.ops.mid_measure.measurement_value import MeasurementValue
from pennylane.resource import Expression, SpecsResources
from pennylane.estimator.resources_base import Resources
import pennylane.estimator as qre

NPAR = {"RX": 1, "RY": 1, "RZ": 1, "PhaseShift": 1, "Rot": 3, "U2": 2, "CRX": 1, "CRot": 3, "IsingXX": 1,
        "Hadamard": 0, "PauliX": 0, "PauliZ": 0, "S": 0, "T": 0, "CNOT": 0, "CZ": 0, "SWAP": 0, "Toffoli": 0,
        "CSWAP": 0, "MultiControlledX": 0, "SX": 0}
PVALS = [0.3, -0.7, 1.1]


def lab(w):
    """wire labels: non-negative ints stay ints, negative ints become strings"""
    return w if w >= 0 else f"q{-w}"


def base_op(name, w):
    return getattr(qp, name)(*PVALS[:NPAR[name]], wires=[lab(x) for x in w])


def build_op(s, mvs, in_qnode=False):
    k = s["k"]
    w = [lab(x) for x in s.get("w", [])]
    if k == "g":
        return base_op(s["name"], s["w"])
    if k == "gphase":
        return qp.GlobalPhase(0.3, wires=w) if w else qp.GlobalPhase(0.3)
    if k == "barrier":
        return qp.Barrier(wires=w)
    if k == "snapshot":
        return qp.Snapshot()
    if k == "ident0":
        return qp.Identity(wires=[])
    if k == "ctrl":
        return Controlled(base_op(s["name"], s["w"]), control_wires=[lab(x) for x in s["c"]])
    if k == "qctrl":
        return qp.ctrl(base_op(s["name"], s["w"]), control=[lab(x) for x in s["c"]])
    if k == "mid":
        if in_qnode:
            mv = qp.measure(w[0])
            mvs[s["id"]] = mv
            return mv.measurements[0]
        m = MidMeasure(qp.wires.Wires(w), meas_uid=f"m{s['id']}")
        mvs[s["id"]] = MeasurementValue([m])
        return m
    if k == "cond":
        mv = mvs[s["ids"][0]]
        for i in s["ids"][1:]:
            mv = mv & mvs[i]
        if in_qnode:
            return qp.cond(mv, getattr(qp, s["name"]))(*PVALS[:NPAR[s["name"]]], wires=[lab(x) for x in s["w"]])
        return Conditional(mv, base_op(s["name"], s["w"]))
    raise ValueError(k)


def build_meas(s, mvs):
    k, w = s["k"], [lab(x) for x in s.get("w", [])]
    fn = {"probs": qp.probs, "sample": qp.sample, "counts": qp.counts, "expval": qp.expval, "var": qp.var}.get(k)
    if k == "state":
        return qp.state()
    if "ids" in s:
        mv = mvs[s["ids"][0]]
        return fn(op=mv)
    o = s.get("obs")
    if o is None:
        return fn(wires=w) if w else fn()
    if o == "Z":
        ob = qp.Z(w[0])
    elif o == "X":
        ob = qp.X(w[0])
    elif o == "Y":
        ob = qp.Y(w[0])
    elif o == "prod":
        ob = qp.prod(*[qp.Z(x) for x in w])
    elif o == "sum":
        ob = qp.sum(*[qp.X(x) for x in w])
    elif o == "sprod":
        ob = 0.5 * qp.Y(w[0])
    elif o == "herm":
        ob = qp.Hermitian(pnp.array([[1.0, 0.0], [0.0, -1.0]]), wires=w[0])
    elif o == "ham":
        ob = qp.Hamiltonian([0.2, 0.4], [qp.Z(w[0]), qp.X(w[-1])])
    else:
        raise ValueError(o)
    return fn(ob)


def describe(tape):
    from pennylane.resource.resource import _obs_to_str
    labels, mids = {}, {}

    def wi(ws):
        return [labels.setdefault(x, len(labels)) for x in ws]
    ops = []
    for op in tape.operations:
        d = {"name": op.name, "w": wi(op.wires), "np": len(op.data), "ctrl": 0, "mid": [], "cond": []}
        if type(op).__name__ in ("Controlled", "ControlledOp"):
            d["ctrl"] = len(op.control_wires)
        if type(op).__name__ in ("MidMeasure", "PauliMeasure"):
            d["mid"] = [mids.setdefault(op, len(mids))]      # keyed like mid_measure_nodes: hash/eq of the object
        if isinstance(op, Conditional):
            d["cond"] = [mids[m] if m in mids else -1 for m in op.meas_val.measurements]
        ops.append(d)
    ms = []
    for mp in tape.measurements:
        ms.append({"short": mp._shortname, "mv": mp.mv is not None,
                   "obs": None if mp.obs is None else _obs_to_str(mp.obs),
                   "w": wi(mp.wires), "np": 0 if mp.obs is None else len(mp.obs.data)})
    return {"ops": ops, "meas": ms}


def summary(res, np_):
    return {"counts": {k: int(v) for k, v in res.quantum_operations.items()},
            "meas": {k: int(v) for k, v in res.measurement_processes.items()},
            "nw": int(res.num_wires), "depth": -1 if res.circuit_depth is None else int(res.circuit_depth),
            "total": int(res.total_quantum_operations), "np": np_}


TRANSFORMS = {"cancel_inverses": qp.transforms.cancel_inverses, "merge_rotations": qp.transforms.merge_rotations,
              "undo_swaps": qp.transforms.undo_swaps, "commute_controlled": qp.transforms.commute_controlled,
              "split_non_commuting": qp.transforms.split_non_commuting,
              "remove_barrier": qp.transforms.remove_barrier,
              "defer_measurements": qp.transforms.defer_measurements}


def run_tape(c):
    mvs = {}
    ops = [build_op(s, mvs) for s in c["ops"]]
    ms = [build_meas(s, mvs) for s in c["meas"]]
    tape = QuantumScript(ops, ms)
    if c.get("trainable") is not None:
        tape.trainable_params = c["trainable"]
    d = describe(tape)
    d["trainable"] = c.get("trainable")
    try:
        res = tape.specs["resources"]
        return {"tapes": [d], "sums": [summary(res, int(tape.num_params))],
                "g_depth": int(tape.graph.get_depth()), "t_nw": int(tape.num_wires)}
    except Exception as e:
        return {"tapes": [d], "specs_err": type(e).__name__ + ": " + str(e)[:200]}


def run_qnode(c):
    dev = qp.device("default.qubit", wires=c["dev_wires"]) if c.get("dev_wires") else qp.device("default.qubit")

    def body():
        mvs = {}
        for s in c["ops"]:
            build_op(s, mvs, in_qnode=True)
        out = [build_meas(s, mvs) for s in c["meas"]]
        return out[0] if len(out) == 1 else tuple(out)
    qn = qp.QNode(body, dev, diff_method=c.get("diff", "best"))
    for t in c["transforms"]:
        qn = TRANSFORMS[t](qn)
    lvl = c["level"]
    kw = {} if c.get("compute_depth") is None else {"compute_depth": c["compute_depth"]}
    try:
        batch, _ = qp.workflow.construct_batch(qn, level="gradient" if lvl is None else lvl)()
        descs = [describe(t) for t in batch]
    except Exception as e:   # level not constructible for this workflow: nothing to compare
        return {"skip": type(e).__name__}
    try:
        sp = qp.specs(qn, level=lvl, **kw)()
    except Exception as e:
        return {"tapes": descs, "specs_err": type(e).__name__ + ": " + str(e)[:200]}
    res = sp.resources
    res = res if isinstance(res, list) else [res]
    return {"tapes": descs, "sums": [summary(r, -1) for r in res], "level_out": str(sp.level),
            "ndw": sp.num_device_wires}


# ---------------------------------------------------------------- estimator Resources
def rkeys():
    return [qre.X.resource_rep(), qre.Hadamard.resource_rep(), qre.T.resource_rep(), qre.CNOT.resource_rep(),
            qre.Toffoli.resource_rep(), qre.Toffoli.resource_rep(elbow="left"),
            qre.RX.resource_rep(precision=1e-8), qre.RX.resource_rep(precision=1e-6)]


def mk_res(x, keys):
    return Resources(x["z"], x["a"], x["l"], {keys[k]: v for k, v in x["gt"]})


def obs_res(r, keys):
    idx = {k: i for i, k in enumerate(keys)}
    return {"z": r.zeroed_wires, "a": r.any_state_wires, "l": r.algo_wires,
            "gt": [[idx[k], v] for k, v in r.gate_types.items()], "tw": r.total_wires, "tg": r.total_gates}


def run_res(c, keys):
    x = mk_res(c["x"], keys)
    op = c["op"]
    if op in ("adds", "addp"):
        y = mk_res(c["y"], keys)
        r = x.add_series(y) if op == "adds" else x.add_parallel(y)
    elif op == "muls":
        r = x.multiply_series(c["n"])
    elif op == "mulp":
        r = x.multiply_parallel(c["n"])
    else:
        r = x
        for _ in range(c["n"]):
            r = r.add_series(x) if op == "reps" else r.add_parallel(x)
        o = obs_res(r, keys)
        o["mul"] = obs_res(x.multiply_series(c["n"] + 1) if op == "reps" else x.multiply_parallel(c["n"] + 1), keys)
        return o
    return obs_res(r, keys)


# ---------------------------------------------------------------- Expression
VN = "abcdefgh"


def mk_x(v):
    if "int" in v:
        return v["int"]
    return Expression({tuple(VN[i] for i in m): cf for m, cf in v["expr"]})


def obs_x(r):
    if isinstance(r, Expression):
        return {"expr": [[[VN.index(s) for s in m], int(cf)] for m, cf in r._data.items()]}
    return {"int": int(r)}


def run_x(c):
    op = c["op"]
    if op == "addi":
        return obs_x(mk_x(c["e"]) + c["z"])
    if op == "add":
        return obs_x(mk_x(c["a"]) + mk_x(c["b"]))
    if op == "muli":
        return obs_x(mk_x(c["e"]) * c["z"])
    rho = {VN[i]: v for i, v in c["rho"]}
    if op == "subs":
        e = mk_x(c["e"])
        return obs_x(e.subs({k: v for k, v in rho.items() if k in e.vars}))
    if op == "total":
        sr = SpecsResources(counts={f"G{i}": mk_x(v) for i, v in enumerate(c["l"])}, measurement_processes={},
                            num_wires=1)
        sub = sr.subs({k: v for k, v in rho.items() if k in sr.vars})
        t = sr.total_quantum_operations
        t2 = t.subs({k: v for k, v in rho.items() if k in t.vars}) if isinstance(t, Expression) else t
        return {"int": int(sub.total_quantum_operations), "total_then_subs": int(t2),
                "sum_sub_counts": int(sum(sub.counts.values()))}
    raise ValueError(op)


def main():
    payload = json.load(sys.stdin)
    keys = rkeys()
    out = []
    for c in payload["cases"]:
        try:
            m = c["mode"]
            if m == "tape":
                r = run_tape(c)
            elif m == "qnode":
                r = run_qnode(c)
            elif m == "res":
                r = run_res(c, keys)
            else:
                r = run_x(c)
        except Exception as e:  # construction problems of the generated input itself
            r = {"build_err": type(e).__name__ + ": " + str(e)[:300]}
        out.append(r)
    print(json.dumps(out))


main()
