"""C43 driver: interprets small control-flow programs (JSON) twice -- with the real qp.for_loop /
qp.while_loop / qp.cond inside an AnnotatedQueue recording context ("qp") and with plain Python
for / while / if ("py") -- and reports the queued operations.  One JSON line on stdout.

Program syntax (JSON):
  expr  : int | ["v", n] | ["+", a, b] | ["-", a, b] | ["*", a, b] | ["%", a, m]   (m > 0 constant)
  pred  : ["T"] | ["F"] | ["<", a, b] | ["==", a, b] | ["not", p] | ["and", p, q] | ["or", p, q]
  ret   : ["none"] | ["s", e] | ["t", [e, ...]]
  stmt  : ["op", code, e]
        | ["for", sig, [init...], block, ret]     sig: ["1", stop] ["1s", stop, step] ["2", start, stop] ["3", start, stop, step]
        | ["while", pred, [init...], block, ret]
        | ["cond", style, [arg...], [[pred, block, ret], ...], else]      else: null | [block, ret]
Variables: env[0] is the most recently bound value.  A loop body sees (i,) carried..., outer env.
"""
import json
import sys

import pennylane as qp
from pennylane.queuing import AnnotatedQueue

GATES = [qp.RX, qp.RY, qp.RZ]
GNAME = {"RX": 0, "RY": 1, "RZ": 2}
BIG = 2 ** 45


STATS = {}
DEPTH = [0]


def stat(k, v=1):
    STATS[k] = STATS.get(k, 0) + v


class FuelOut(Exception):
    pass


class GeneratorBug(Exception):
    pass


def ev(e, env):
    if isinstance(e, int):
        return e
    t = e[0]
    if t == "v":
        return env[e[1]] if e[1] < len(env) else 0
    if t == "%":
        assert e[2] > 0
        return ev(e[1], env) % e[2]
    a, b = ev(e[1], env), ev(e[2], env)
    return a + b if t == "+" else a - b if t == "-" else a * b


def evp(p, env):
    t = p[0]
    if t == "T":
        return True
    if t == "F":
        return False
    if t == "<":
        return ev(p[1], env) < ev(p[2], env)
    if t == "==":
        return ev(p[1], env) == ev(p[2], env)
    if t == "not":
        return not evp(p[1], env)
    if t == "and":
        return evp(p[1], env) and evp(p[2], env)
    return evp(p[1], env) or evp(p[2], env)


def ev_ret(rt, env):
    if rt[0] == "none":
        return None
    if rt[0] == "s":
        return ev(rt[1], env)
    return tuple(ev(e, env) for e in rt[1])


def half(v):
    if abs(v) >= BIG:
        raise GeneratorBug("value too large for an exact float parameter")
    return float(v) * 0.5


def queue_op(code, v):
    GATES[code % 3](half(v), wires=code // 3)


def observe(r):
    """queue marker operations that encode a returned value"""
    if r is None:
        qp.PhaseShift(0.0, wires=99)
    elif isinstance(r, tuple):
        qp.PhaseShift(half(len(r)), wires=98)
        for v in r:
            qp.PhaseShift(half(v), wires=101)
    else:
        qp.PhaseShift(half(r), wires=100)


def unpack(n, r):
    if n == 0:
        return []
    if n == 1:
        if not isinstance(r, int):
            raise TypeError("scalar expected")
        return [r]
    if not isinstance(r, tuple) or len(r) != n:
        raise ValueError("cannot unpack")
    return list(r)


def for_range_args(sig, env):
    k = sig[0]
    if k == "1":
        return (ev(sig[1], env),), {}
    if k == "1s":
        return (ev(sig[1], env),), {"step": ev(sig[2], env)}
    if k == "2":
        return (ev(sig[1], env), ev(sig[2], env)), {}
    return (ev(sig[1], env), ev(sig[2], env), ev(sig[3], env)), {}


def run_block(block, env, mode, cap):
    for s in block:
        env = run_stmt(s, env, mode, cap)
    return env


def run_stmt(s, env, mode, cap):
    k = s[0]
    if k == "op":
        queue_op(s[1], ev(s[2], env))
        return env
    if k == "for":
        _, sig, inits, body, rt = s
        n = len(inits)
        vals = [ev(e, env) for e in inits]
        a, kw = for_range_args(sig, env)
        if mode == "qp":
            st = kw.get("step", a[2] if len(a) == 3 else 1)
            stat("for_calls")
            stat("for_sig_" + sig[0])
            stat("for_carried_%s" % ("many" if n > 1 else n))
            stat("for_depth_%d" % DEPTH[0])
            if st == 0:
                stat("for_step0")
            else:
                ln = len(range(0, a[0], st) if kw else range(*a))
                stat("for_neg_step" if st < 0 else "for_pos_step")
                stat("for_empty" if ln == 0 else "for_nonempty")
                if st < 0 and ln > 0:
                    stat("for_neg_step_nonempty")
                if abs(st) > 1 and ln > 0:
                    stat("for_stride_gt1_nonempty")

            def body_fn(i, *c):
                if len(c) != n:
                    raise TypeError("body_fn() takes %d positional arguments" % (n + 1))
                DEPTH[0] += 1
                try:
                    env2 = run_block(body, [i] + list(c) + env, mode, cap)
                finally:
                    DEPTH[0] -= 1
                return ev_ret(rt, env2)
            r = qp.for_loop(*a, **kw)(body_fn)(*vals)
        else:
            rng = range(0, a[0], kw["step"]) if kw else range(*a)
            for i in rng:
                env2 = run_block(body, [i] + vals + env, mode, cap)
                out = ev_ret(rt, env2)
                vals = [] if n == 0 else [out] if n == 1 else list(out)
            r = None if n == 0 else vals[0] if n == 1 else tuple(vals)
        observe(r)
        return unpack(n, r) + env
    if k == "while":
        _, c, inits, body, rt = s
        n = len(inits)
        vals = [ev(e, env) for e in inits]
        if mode == "qp":
            cnt = [0]
            stat("while_calls")
            stat("while_carried_%s" % ("many" if n > 1 else n))

            def cond_fn(*c_):
                if cnt[0] >= cap:
                    raise FuelOut()
                cnt[0] += 1
                if len(c_) != n:
                    raise TypeError("cond_fn arity")
                return evp(c, list(c_) + env)

            def body_fn(*c_):
                if len(c_) != n:
                    raise TypeError("body_fn arity")
                stat("while_iterations")
                DEPTH[0] += 1
                try:
                    env2 = run_block(body, list(c_) + env, mode, cap)
                finally:
                    DEPTH[0] -= 1
                return ev_ret(rt, env2)
            r = qp.while_loop(cond_fn)(body_fn)(*vals)
        else:
            cnt = 0
            while True:
                if cnt >= cap:
                    raise FuelOut()
                cnt += 1
                if not evp(c, vals + env):
                    break
                env2 = run_block(body, vals + env, mode, cap)
                out = ev_ret(rt, env2)
                vals = [] if n == 0 else [out] if n == 1 else list(out)
            r = None if n == 0 else vals[0] if n == 1 else tuple(vals)
        observe(r)
        return unpack(n, r) + env
    if k == "cond":
        _, style, args, brs, els = s
        argv = [ev(e, env) for e in args]
        assert brs
        if mode == "qp":
            def mk(b, rt):
                def fn(*a_):
                    env2 = run_block(b, list(a_) + env, mode, cap)
                    return ev_ret(rt, env2)
                return fn
            preds = [evp(p, env) for p, _, _ in brs]
            stat("cond_calls")
            stat("cond_style_%d" % style)
            stat("cond_depth_%d" % DEPTH[0])
            first = preds.index(True) if True in preds else None
            stat("cond_taken_first" if first == 0 else "cond_taken_elif" if first else
                 "cond_taken_else" if els is not None else "cond_no_branch")
            if preds.count(True) > 1:
                stat("cond_several_true")
            fns = [mk(b, rt) for _, b, rt in brs]
            efn = mk(els[0], els[1]) if els is not None else None
            if style == 1:          # decorator form + else_if / otherwise
                c = qp.cond(preds[0])(fns[0])
                for p, f in zip(preds[1:], fns[1:]):
                    c.else_if(p)(f)
                if efn is not None:
                    c.otherwise(efn)
            elif style == 2 and len(brs) == 2:   # a single elif given as a bare (pred, fn) pair
                c = qp.cond(preds[0], fns[0], efn, (preds[1], fns[1]))
            else:
                c = qp.cond(preds[0], fns[0], efn, elifs=list(zip(preds[1:], fns[1:])))
            r = c(*argv)
        else:
            r = None
            for j, (p, b, rt) in enumerate(brs):      # if / elif / ... chain
                if evp(p, env):
                    r = ev_ret(rt, run_block(b, argv + env, mode, cap))
                    break
            else:
                if els is not None:
                    r = ev_ret(els[1], run_block(els[0], argv + env, mode, cap))
        observe(r)
        return [r if isinstance(r, int) else -1] + env
    raise GeneratorBug("unknown statement " + str(k))


def decode(q):
    out = []
    for op in q.queue:
        name = getattr(op, "name", "?")
        try:
            w = int(op.wires[0])
            v = float(op.data[0]) * 2
            iv = int(round(v))
            if iv != v:
                iv = 10 ** 15          # non-integer parameter: cannot agree with the model
        except Exception:  # pylint: disable=broad-except
            out.append([-1, 0])
            continue
        if name in GNAME and len(op.wires) == 1:
            out.append([w * 3 + GNAME[name], iv])
        elif name == "PhaseShift":
            out.append([w, iv])
        else:
            out.append([-1, iv])
    return out


def run_prog(prog, mode, cap):
    status = 0
    with AnnotatedQueue() as q:
        try:
            run_block(prog, [], mode, cap)
        except FuelOut:
            status = 2
        except GeneratorBug:
            raise
        except Exception:  # pylint: disable=broad-except
            status = 1
    return [decode(q), status]


# ---- qp.cond on a mid-circuit measurement vs the hand-deferred circuit (small differential test) ----
def mcm_case(th, a, b, variant):
    import numpy as np
    dev = qp.device("default.qubit")

    def tf(a_, b_):
        qp.RX(a_, wires=1)
        qp.RZ(b_, wires=1)
        qp.Hadamard(wires=1)

    def ff(a_, b_):
        qp.RY(b_, wires=1)
        qp.RX(a_, wires=2)

    def with_cond():
        qp.RY(th, wires=0)
        qp.RX(0.3, wires=2)
        m = qp.measure(0)
        if variant == 0:
            qp.cond(m, tf, ff)(a, b)
        elif variant == 1:
            qp.cond(m == 0, tf)(a, b)
        else:
            qp.cond(m, qp.RX, qp.RY)(a, wires=1)
        return qp.probs(wires=[0, 1, 2])

    @qp.qnode(dev)
    def deferred():
        qp.RY(th, wires=0)
        qp.RX(0.3, wires=2)
        if variant == 0:
            qp.ctrl(qp.RX(a, wires=1), control=0)
            qp.ctrl(qp.RZ(b, wires=1), control=0)
            qp.ctrl(qp.Hadamard(wires=1), control=0)
            qp.ctrl(qp.RY(b, wires=1), control=0, control_values=[0])
            qp.ctrl(qp.RX(a, wires=2), control=0, control_values=[0])
        elif variant == 1:
            qp.ctrl(qp.RX(a, wires=1), control=0, control_values=[0])
            qp.ctrl(qp.RZ(b, wires=1), control=0, control_values=[0])
            qp.ctrl(qp.Hadamard(wires=1), control=0, control_values=[0])
        else:
            qp.ctrl(qp.RX(a, wires=1), control=0)
            qp.ctrl(qp.RY(a, wires=1), control=0, control_values=[0])
        return qp.probs(wires=[0, 1, 2])

    p2 = np.asarray(deferred(), dtype=float)
    worst = 0.0
    # the circuit with qp.cond, executed (a) with the default treatment of mid-circuit measurements and
    # (b) by genuinely branching on the measurement outcome (tree traversal)
    for method in (None, "tree-traversal"):
        p1 = np.asarray(qp.QNode(with_cond, dev, mcm_method=method)(), dtype=float)
        worst = max(worst, float(np.max(np.abs(p1 - p2))))
    if abs(float(np.sum(p2)) - 1.0) > 1e-9:
        return 1.0
    return worst


def main():
    payload = json.load(sys.stdin)
    assert not qp.capture.enabled()
    out = []
    for c in payload.get("cases", []):
        cap = c["cap"]
        r = {"qp": run_prog(c["prog"], "qp", cap), "py": None}
        if c.get("wf"):
            r["py"] = run_prog(c["prog"], "py", cap)
        out.append(r)
    mcm = []
    for m in payload.get("mcm", []):
        try:
            mcm.append(mcm_case(m["th"], m["a"], m["b"], m["variant"]))
        except Exception as ex:  # pylint: disable=broad-except
            mcm.append("ERR:" + repr(ex)[:200])
    print(json.dumps({"cases": out, "mcm": mcm, "stats": STATS}))


main()
