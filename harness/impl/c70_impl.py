"""C70: default.clifford: (a) gate-name table vs stim tableaus (obligations), (b) exact differential on Clifford
circuits, (c) sampling validity + chi-square, (d) non-Clifford policy."""
import sys, json, random, math, warnings
sys.path.insert(0, "/verif/harness")
from qrules import *
from qx import exact_circuit_gallina
import numpy as np
import stim
from pennylane.devices.default_clifford import _OPERATIONS_MAP
warnings.filterwarnings("ignore")
req = json.load(sys.stdin)
rng = random.Random(req["seed"])
tier = req["tier"]
install_patches(); set_cfg(8, 8, 0)
PAULI = {"_": [[1, 0], [0, 1]], "X": [[0, 1], [1, 0]], "Y": [[0, -1j], [1j, 0]], "Z": [[1, 0], [0, -1]]}


def pauli_sym(word, sign=1):
    M = [[Sym.of(sign)]]
    for ch in word:
        P = [[Sym.of(x) for x in r] for r in PAULI[ch]]
        M = [[a * b for a in ra for b in rb] for ra in M for rb in P]
    return M


def build_pl(name, k):
    if name.startswith("Adjoint("):
        return qp.adjoint(getattr(qp, name[8:-1])(wires=list(range(k))))
    return getattr(qp, name)(wires=list(range(k)))


oblig, table = [], []
for name, sg in _OPERATIONS_MAP.items():
    if sg is None or name in ("PauliError", "BitFlip", "PhaseFlip", "DepolarizingChannel"):
        continue
    ent = {"pl": name, "stim": sg, "status": "ok"}
    table.append(ent)
    try:
        t = stim.Tableau.from_named_gate(sg)
        k = len(t)
        S = op_matrix_sym(build_pl(name, k))
        for kind, outs in (("X", [str(t.x_output(i)) for i in range(k)]), ("Z", [str(t.z_output(i)) for i in range(k)])):
            for i, o in enumerate(outs):
                sign = -1 if o[0] == "-" else 1
                word_in = "".join(kind if j == i else "_" for j in range(k))
                Pin, Pout = pauli_sym(word_in), pauli_sym(o[1:], sign)
                oblig.append({"name": f"ob_{len(oblig)}", "pl": name, "stim": sg,
                              "stmt": f"meqb 4%Z (p_mmul 4%Z (p_mmul 4%Z {g_mat(S)} {g_mat(Pin)}) (p_madj {g_mat(S)})) {g_mat(Pout)} = true",
                              "what": f"{name} {word_in} -> {o}"})
    except Exception as e:
        ent["status"], ent["detail"] = "error", f"{type(e).__name__}: {str(e)[:200]}"

C1 = ["Hadamard", "PauliX", "PauliY", "PauliZ", "S", "SX", "Identity"]
C2 = ["CNOT", "CZ", "CY", "SWAP", "ISWAP"]


def rand_clifford(labels):
    ops, nw = [], len(labels)
    for _ in range(rng.randint(1, 4 + 3 * nw)):
        r = rng.random()
        if r < 0.5 or nw == 1:
            ops.append(getattr(qp, rng.choice(C1))(wires=rng.choice(labels)))
        elif r < 0.9:
            ops.append(getattr(qp, rng.choice(C2))(wires=rng.sample(labels, 2)))
        else:
            ops.append(qp.adjoint(rng.choice([qp.S, qp.SX])(wires=rng.choice(labels))) if rng.random() < 0.7 or nw == 1 else qp.adjoint(qp.ISWAP(wires=rng.sample(labels, 2))))
    return ops


def jsonable(x):
    a = np.asarray(x)
    return {"re": np.real(a).tolist(), "im": np.imag(a).tolist()} if np.iscomplexobj(a) else {"re": a.astype(float).tolist()}


runs = []
n_runs = 50 if tier == "quick" else 500
for ci in range(n_runs):
    nw = rng.choice([1, 2, 3, 3, 4, 5]) if tier == "quick" else rng.choice([1, 2, 3, 4, 5, 6])
    labels = list(range(nw)) if rng.random() < 0.6 else ["a", "b", 7, "q", "z", 11][:nw]
    ops = rand_clifford(labels)
    ref_ops = None
    if rng.random() < 0.3:
        # initial state preparation on a random subset of the wires in random order (reference: the equivalent X gates)
        pw = rng.sample(labels, rng.randint(1, nw))
        bits = [rng.randint(0, 1) for _ in pw]
        xs = [qp.PauliX(w) for w, b in zip(pw, bits) if b]
        if rng.random() < 0.5:
            prep = qp.BasisState(np.array(bits), wires=pw)
        else:
            vec = np.zeros(2 ** len(pw)); vec[int("".join(map(str, bits)), 2)] = 1.0
            prep = qp.StatePrep(vec, wires=pw)
        ref_ops = xs + ops
        ops = [prep] + ops
    ms, md = [], []
    for _ in range(rng.randint(1, 3)):
        r = rng.random()
        if r < 0.35:
            ws = rng.sample(labels, rng.randint(1, nw)); ms.append(qp.probs(wires=ws)); md.append({"kind": "probs", "wires": ws})
        elif r < 0.45:
            ms.append(qp.state()); md.append({"kind": "state"})
        elif r < 0.49 and nw >= 2:
            # multi-term observable whose terms list their wires in different orders
            terms = []
            for _ in range(rng.randint(2, 3)):
                ws = rng.sample(labels, rng.randint(1, min(3, nw)))
                terms.append([rng.choice([1.0, 0.5, -1.5, 2.0]), [rng.choice("XYZ") for _ in ws], ws])
            obs = qp.Hamiltonian([t[0] for t in terms], [qp.prod(*[getattr(qp, "Pauli" + c)(w) for c, w in zip(t[1], t[2])]) if len(t[2]) > 1 else getattr(qp, "Pauli" + t[1][0])(t[2][0]) for t in terms])
            if rng.random() < 0.7:
                ms.append(qp.expval(obs)); md.append({"kind": "expval_ham", "terms": terms})
            else:
                ms.append(qp.var(obs)); md.append({"kind": "var_ham", "terms": terms})
        elif r < 0.53:
            ws = rng.sample(labels, rng.randint(1, min(3, nw))); ms.append(qp.density_matrix(wires=ws)); md.append({"kind": "dm", "wires": ws})
        elif r < 0.58:
            ws = rng.sample(labels, rng.randint(1, nw)); ms.append(qp.purity(wires=ws)); md.append({"kind": "purity", "wires": ws})
        elif r < 0.63:
            ws = rng.sample(labels, rng.randint(1, nw)); ms.append(qp.vn_entropy(wires=ws)); md.append({"kind": "vn", "wires": ws})
        elif r < 0.70 and nw >= 2:
            k0 = rng.randint(1, nw - 1); perm = rng.sample(labels, nw); k1 = rng.randint(1, nw - k0)
            w0, w1 = perm[:k0], perm[k0:k0 + k1]
            ms.append(qp.mutual_info(wires0=w0, wires1=w1)); md.append({"kind": "mi", "wires0": w0, "wires1": w1})
        else:
            ws = rng.sample(labels, rng.randint(1, min(3, nw))); word = [rng.choice("XYZ") for _ in ws]
            o = qp.prod(*[getattr(qp, "Pauli" + c)(w) for c, w in zip(word, ws)]) if len(ws) > 1 else getattr(qp, "Pauli" + word[0])(ws[0])
            if rng.random() < 0.7:
                ms.append(qp.expval(o)); md.append({"kind": "expval", "word": word, "wires": ws})
            else:
                ms.append(qp.var(o)); md.append({"kind": "var", "word": word, "wires": ws})
    if ci in (0, 1):
        # fixed corpus: multi-term observables whose terms list the same wires in different orders (expval and variance)
        nw, labels, ref_ops = 2, [0, 1], None
        ops = [qp.Hadamard(0), qp.S(0), qp.Hadamard(1), qp.CZ([0, 1])]
        terms = [[1.0, ["Y", "Z"], [0, 1]], [0.5, ["X", "Z"], [1, 0]]]
        obs = qp.Hamiltonian([t[0] for t in terms], [qp.prod(*[getattr(qp, "Pauli" + c)(w) for c, w in zip(t[1], t[2])]) for t in terms])
        ms = [qp.expval(obs) if ci == 0 else qp.var(obs), qp.expval(qp.PauliX(1) @ qp.PauliZ(0))]
        md = [{"kind": "expval_ham" if ci == 0 else "var_ham", "terms": terms}, {"kind": "expval", "word": ["X", "Z"], "wires": [1, 0]}]
    touched = {w for o in ops for w in o.wires}
    if any(d["kind"] == "state" for d in md):
        if True:
            # known finding (kept separately): the tableau=False state vector follows the circuit's wire order of first
            # appearance; make that order equal to the device order so that only the simulation itself is compared
            if ref_ops is not None:       # keep the preparation first
                ops = [ops[0]] + [qp.Identity(w) for w in labels] + ops[1:]
            else:
                ops = [qp.Identity(w) for w in labels] + ops
            ms, md = [qp.state()], [{"kind": "state"}]
        else:
            keep = [(m, d) for m, d in zip(ms, md) if d["kind"] != "state"] or [(qp.probs(wires=labels), {"kind": "probs", "wires": labels})]
            ms, md = [k[0] for k in keep], [k[1] for k in keep]
    run = {"labels": labels, "dev_wires": labels, "ops": [repr(o) for o in ops], "meas": md, "status": "ok", "n": nw,
           "appear": [labels.index(w) for w in qp.wires.Wires.all_wires([o.wires for o in ops])]}
    runs.append(run)
    try:
        run["circuit"] = exact_circuit_gallina(ops if ref_ops is None else ref_ops, labels)
        dev = qp.device("default.clifford", wires=labels, tableau=not any(d["kind"] == "state" for d in md))
        res = qp.execute([qp.tape.QuantumScript(ops, ms)], dev)[0]
        res = res if isinstance(res, tuple) else (res,)
        run["results"] = [jsonable(r) for r in res]
        if rng.random() < 0.4:           # sampling
            shots = 4000 if tier == "quick" else 40000
            sdev = qp.device("default.clifford", wires=labels, seed=rng.randrange(10 ** 6))
            ws = rng.sample(labels, rng.randint(1, min(3, nw)))
            smp = qp.execute([qp.tape.QuantumScript(ops, [qp.sample(wires=ws)], shots=shots)], sdev)[0]
            smp = np.asarray(smp).reshape(shots, -1)
            idx = (smp @ (1 << np.arange(smp.shape[1])[::-1])).astype(int)
            run["sample"] = {"wires": ws, "shots": shots, "hist": np.bincount(idx, minlength=2 ** len(ws)).tolist(),
                             "valid": bool(np.isin(smp, [0, 1]).all())}
    except NotExtractable as e:
        run["status"], run["detail"] = "notex", str(e)[:200]
    except Exception as e:
        run["status"], run["detail"] = "error", f"{type(e).__name__}: {str(e)[:300]}"

# (c2) tableau=True state output: every stabilizer row, with its sign, must stabilize the exact state
for ci in range(12 if tier == "quick" else 120):
    nw = rng.choice([1, 2, 3, 3, 4])
    labels = list(range(nw))
    ops = [qp.Identity(w) for w in labels] + rand_clifford(labels)
    run = {"labels": labels, "dev_wires": labels, "ops": [repr(o) for o in ops], "meas": [{"kind": "tableau"}], "status": "ok", "n": nw}
    runs.append(run)
    try:
        run["circuit"] = exact_circuit_gallina(ops, labels)
        dev = qp.device("default.clifford", wires=labels, tableau=True)
        res = qp.execute([qp.tape.QuantumScript(ops, [qp.state()])], dev)[0]
        run["results"] = [jsonable(np.asarray(res, dtype=float))]
    except NotExtractable as e:
        run["status"], run["detail"] = "notex", str(e)[:200]
    except Exception as e:
        run["status"], run["detail"] = "error", f"{type(e).__name__}: {str(e)[:300]}"

# (d) non-Clifford policy
policy = []
for ops in ([qp.T(0)], [qp.RX(0.3, 0)], [qp.Hadamard(0), qp.RZ(1.1, 0)], [qp.Hadamard(0), qp.Toffoli([0, 1, 2])], [qp.RY(math.pi / 2, 0)], [qp.PhaseShift(math.pi / 2, 0), qp.Hadamard(0)]):
    ent = {"ops": [repr(o) for o in ops]}
    wires = sorted({w for o in ops for w in o.wires})
    t = qp.tape.QuantumScript(ops, [qp.expval(qp.X(0)), qp.expval(qp.Z(0))])
    ref = qp.execute([t], qp.device("default.qubit", wires=wires))[0]
    try:
        got = qp.execute([t], qp.device("default.clifford", wires=wires))[0]
        ent["outcome"] = "result"
        ent["agrees"] = bool(np.allclose(np.asarray(got, dtype=float), np.asarray(ref, dtype=float), atol=1e-6))
        ent["got"], ent["ref"] = [float(x) for x in got], [float(x) for x in ref]
    except Exception as e:
        ent["outcome"] = "rejected"; ent["error"] = type(e).__name__
    policy.append(ent)
# corpus case for a known finding: state vector output when some device wires are untouched
kf = {}
try:
    d3 = qp.device("default.clifford", wires=[0, 1, 2], tableau=False)
    st = np.asarray(qp.execute([qp.tape.QuantumScript([qp.X(2)], [qp.state()])], d3)[0])
    kf["state_X2_on_3_wires_argmax"] = int(np.argmax(np.abs(st)))
except Exception as e:
    kf["state_X2_on_3_wires_argmax"] = f"raised {type(e).__name__}"
json.dump(oblig, open(req["outdir"] + "/obligations.json", "w"))
print(json.dumps({"table": table, "runs": runs, "policy": policy, "kf": kf}))
