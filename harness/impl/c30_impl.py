"""Runs the real PennyLane sample post-processing (mp.process_samples / mp.process_counts) on the JSON
cases from stdin; prints one JSON line with one observation per case.

case = {"one": 4, "kind": "expval|var|probs|counts|sample", "ao": bool, "obs": {...}, "batched": bool,
        "data": [[[0/1 ...] shots] batch], "order": [wire labels], "range": [lo, hi] | None,
        "bin": int | None, "pc": None | bool}
pc = b  means  mp.process_counts(CountsMP(all_outcomes=b).process_samples(samples, order), order).
"""
import json
import sys
import warnings

import numpy as np

warnings.filterwarnings("ignore")

import pennylane as qml  # noqa: E402
from pennylane.measurements import (CountsMP, ExpectationMP, ProbabilityMP, SampleMP,  # noqa: E402
                                    VarianceMP)
from pennylane.ops import MeasurementValue  # noqa: E402
from pennylane.ops.mid_measure import MidMeasure  # noqa: E402
from pennylane.wires import Wires  # noqa: E402

MP = {"expval": ExpectationMP, "var": VarianceMP, "probs": ProbabilityMP, "counts": CountsMP, "sample": SampleMP}


def mcm(k, w):
    # explicit ids: MeasurementValue._merge sorts the measurements by meas_uid
    return MeasurementValue([MidMeasure(wires=Wires([w]), meas_uid=f"m{k:03d}")])


def build_expr(e, ms):
    t = e[0]
    if t == "v":
        return ms[e[1]]
    if t == "c":
        return e[1]
    if t == "not":
        return ~build_expr(e[1], ms)
    a, b = build_expr(e[1], ms), build_expr(e[2], ms)
    if t == "add":
        return a + b
    if t == "sub":
        return a - b
    if t == "mul":
        return a * b
    if t == "eq":
        return a == b
    raise KeyError(t)


def prod_z(ws):
    o = qml.Z(ws[0])
    for w in ws[1:]:
        o = o @ qml.Z(w)
    return o


def build_op(o, one):
    n, ws = o["name"], o["ws"]
    if n in ("Z", "X", "Y", "H"):
        return {"Z": qml.Z, "X": qml.X, "Y": qml.Y, "H": qml.Hadamard}[n](ws[0])
    if n == "prodZ":
        return prod_z(ws)
    if n == "sprod":
        return qml.s_prod(o["coef"] / one, prod_z(ws))
    if n == "sumZ":
        return qml.sum(*[qml.s_prod(c / one, qml.Z(w)) for c, w in zip(o["coefs"], ws)])
    if n == "herm":
        return qml.Hermitian(np.diag([d / one for d in o["diag"]]), wires=ws)
    if n == "proj":
        return qml.Projector(o["state"], wires=ws)
    raise KeyError(n)


def build_mp(c):
    o, one, cls = c["obs"], c["one"], MP[c["kind"]]
    kw = {"all_outcomes": bool(c.get("ao"))} if c["kind"] == "counts" else {}
    t = o["t"]
    if t == "wires":
        return cls(wires=Wires(o["ws"]), **kw) if o["ws"] else cls(**kw)
    if t == "mvlist":
        return cls(obs=[mcm(k, w) for k, w in enumerate(o["ws"])], **kw)
    if t == "eig":
        ev = np.array([e / one for e in o["ev"]]) if o.get("float", True) else np.array(
            [e // one for e in o["ev"]])
        return cls(eigvals=ev, wires=Wires(o["ws"]), **kw)
    if t == "op":
        return cls(obs=build_op(o, one), **kw)
    if t == "mv":
        ms = [mcm(k, w) for k, w in enumerate(o["ws"])]
        return cls(obs=build_expr(o["e"], ms), **kw)
    raise KeyError(t)


def canon_key(k):
    if isinstance(k, str):
        return ["b", str(k)]
    return ["v", float(k)]


def canon_dict(d):
    return [[*canon_key(k), int(v)] for k, v in d.items()]


def canon(r):
    if isinstance(r, dict):
        return {"t": "dict", "v": canon_dict(r)}
    if isinstance(r, list) and (len(r) == 0 or isinstance(r[0], dict)):
        return {"t": "dicts", "v": [canon_dict(d) for d in r]}
    a = np.asarray(r)
    return {"t": "arr", "v": a.astype(float).tolist(), "shape": list(a.shape)}


def one_case(c):
    out = {}
    try:
        with qml.queuing.QueuingManager.stop_recording():
            mp = build_mp(c)
        ev = mp.eigvals()
        out["ev"] = None if ev is None else [float(x) for x in np.asarray(ev).ravel()]
        out["wires"] = list(mp.wires.tolist())
    except Exception as e:  # construction failed
        return {"r": "ERR", "stage": "build", "exc": type(e).__name__}
    try:
        data = np.array(c["data"], dtype=np.int64)
        if not c["batched"]:
            data = data[0]
        order = Wires(c["order"])
        if c.get("pc") is None:
            rng = None if c["range"] is None else tuple(c["range"])
            r = mp.process_samples(data, order, shot_range=rng, bin_size=c["bin"])
        else:
            h = CountsMP(all_outcomes=bool(c["pc"])).process_samples(data, order)
            h = {str(k): int(v) for k, v in h.items()}
            r = mp.process_counts(h, order)
        out["r"] = canon(r)
    except Exception as e:
        out["r"] = "ERR"
        out["exc"] = type(e).__name__
    return out


def main():
    cases = json.load(sys.stdin)["cases"]
    print(json.dumps([one_case(c) for c in cases]))


main()
