"""C02: extract every named gate's matrix symbolically; obligations: equals the documented table entry, unitary,
broadcast kernel, and first-wire-most-significant embedding; plus numeric checks at random/boundary angles."""
import sys, json, random, math, time
sys.path.insert(0, "/verif/harness")
from qrules import *
import numpy as np

req = json.load(sys.stdin)
rng = random.Random(req["seed"])
tier = req["tier"]
install_patches()
KEYS = json.load(open("/verif/harness/c02_keys.json"))


def build(key, p):
    if key.startswith("MultiRZ"):
        return qp.MultiRZ(p[0], wires=list(range(int(key[-1]))))
    if key.startswith("PauliRot_"):
        w = key.split("_")[1]
        return qp.PauliRot(p[0], w, wires=list(range(len(w))))
    if key.startswith("MCX_"):
        cv = key.split("_")[1]
        return qp.MultiControlledX(wires=list(range(len(cv) + 1)), control_values=[int(ch) for ch in cv])
    if key == "GlobalPhase":
        return qp.GlobalPhase(p[0], wires=[0])
    if key == "Identity":
        return qp.Identity(wires=[0])
    cls = getattr(qp, key)
    return cls(*p[:cls.num_params], wires=list(range(cls.num_wires)))


def nparams(key):
    if key.startswith(("MultiRZ", "PauliRot_")) or key == "GlobalPhase":
        return 1
    if key.startswith("MCX_"):
        return 0
    return getattr(qp, key).num_params


items, oblig = [], []
for key in KEYS:
    it = {"key": key, "status": "ok", "detail": ""}
    items.append(it)
    try:
        npar = nparams(key)
        set_cfg(8, 8, npar)
        op = build(key, [var_array(j) for j in range(npar)])
        S = op_matrix_sym(op)
        if key == "GlobalPhase" and len(S) == 1:
            S = [[S[0][0], Sym.of(0)], [Sym.of(0), S[0][0]]]
        else:
            ok, w = spot_check(op, S, rng)
            if not ok:
                raise NotExtractable(f"spot-check failed ({w})")
        k = len(op.wires)
        names = []
        def add(kind, stmt):
            oblig.append({"name": f"ob_{len(oblig)}", "key": key, "kind": kind, "stmt": stmt}); names.append(oblig[-1]["name"])
        add("doc", f'meqb 4%Z {g_mat(S)} (match gate_doc "{key}" with Some m => m | None => [] end) = true')
        add("unitary", f"is_unitary 4%Z {g_mat(S)} = true")
        # numeric unitarity + embedding convention on the implementation
        th = [rng.uniform(-7, 7) for _ in range(max(npar, 1))]
        nop = build(key, th)
        M = np.asarray(qp.matrix(nop, wire_order=list(nop.wires)))
        if not np.allclose(M.conj().T @ M, np.eye(len(M)), atol=1e-9):
            it["numeric_fail"] = {"thetas": th, "detail": "matrix not unitary"}
        if k <= 2:
            # the gate placed on wires [1..k] of a (k+1)-wire register with wire 0 most significant: I (x) M
            big = np.asarray(qp.matrix(nop.map_wires({i: i + 1 for i in range(k)}), wire_order=list(range(k + 1))))
            if not np.allclose(big, np.kron(np.eye(2), M), atol=1e-9):
                it["numeric_fail"] = {"thetas": th, "detail": "qp.matrix(op, wire_order) does not put the first wire on the most significant bit"}
        # broadcast kernel
        if npar >= 1 and tier != "quick" or (npar == 1 and k <= 2):
            B = 2
            set_cfg(8, 8, B * npar)
            batch = []
            for j in range(npar):
                arr = np.empty((B,), dtype=object)
                for b in range(B):
                    arr[b] = Lin.var(b * npar + j)
                batch.append(arr)
            try:
                Mb = np.asarray(build(key, batch).matrix())
                if Mb.ndim == 3 and Mb.shape[0] == B:
                    for b in range(B):
                        Ss = op_matrix_sym(build(key, [lin_array(Lin.var(b * npar + j)) for j in range(npar)]))
                        if key == "GlobalPhase" and len(Ss) == 1:
                            continue
                        add("broadcast", f"meqb 4%Z {g_mat([[Sym.of(x) for x in row] for row in Mb[b]])} {g_mat(Ss)} = true")
            except NotExtractable:
                pass
        it["oblig"] = names
    except NotExtractable as e:
        it["status"], it["detail"] = "notex", str(e)[:300]
    except Exception as e:
        it["status"], it["detail"] = "error", f"{type(e).__name__}: {str(e)[:300]}"
json.dump(oblig, open(req["outdir"] + "/obligations.json", "w"))
print(json.dumps({"items": items}))
