"""C67 implementation driver.  JSON on stdin -> one JSON line on stdout.
   payload: {"table": bool, "outdir": str, "seed": int, "export": [case...], "import": [case...]}
   * table : every entry of the repo's export table OPENQASM_GATES: the PennyLane gate's exact symbolic matrix
             (formal angles) -> Gallina obligations written to <outdir>/obligations.json
   * export: build the tape, call qp.to_openqasm with the case's options, return the text + the circuit's unitary
   * import: qp.from_qasm3(text) -> operations -> unitary in the requested wire order."""
import sys, json, random, warnings
warnings.filterwarnings("ignore")
sys.path.insert(0, "/verif/harness")
import numpy as np

req = json.load(sys.stdin)
out = {}


def cplx(M):
    M = np.asarray(M, dtype=complex)
    return [[[float(x.real), float(x.imag)] for x in row] for row in M]


# ------------------------------------------------------------------ table (Part A)
if req.get("table"):
    from qrules import *            # qp, install_patches, op_matrix_sym, spot_check, g_mat, var_array, set_cfg, Sym ...
    from pennylane.io.to_openqasm import OPENQASM_GATES
    install_patches()
    rng = random.Random(req.get("seed", 0))

    def build(key, p):
        if key.startswith("Adjoint(") and key.endswith(")"):
            return qp.adjoint(build(key[8:-1], p))
        if key == "GlobalPhase":
            return qp.GlobalPhase(p[0])
        if key == "Identity":
            return qp.Identity(wires=[0])
        cls = getattr(qp, key)
        return cls(*p[:cls.num_params], wires=list(range(cls.num_wires)))

    def nparams(key):
        if key.startswith("Adjoint("):
            return nparams(key[8:-1])
        if key == "GlobalPhase":
            return 1
        return getattr(qp, key).num_params

    items, oblig = [], []
    for key, qname in OPENQASM_GATES.items():
        it = {"key": key, "qasm": qname, "status": "ok", "detail": ""}
        items.append(it)
        try:
            npar = nparams(key)
            set_cfg(8, 8, npar)
            op = build(key, [var_array(j) for j in range(npar)])
            if op.name != key:
                raise NotExtractable(f"built operator is named {op.name!r}, table key is {key!r}")
            S = op_matrix_sym(op)
            if key == "GlobalPhase" and len(S) == 1:
                pass                               # 1x1 scalar: the table's gphase entry is 1x1 as well
            else:
                ok, w = spot_check(op, S, rng)
                if not ok:
                    raise NotExtractable(f"spot-check failed ({w})")
            it["npar"], it["nwires"] = npar, len(op.wires)
            pair = f'"{key}->{qname}"'
            name = f"ob_{len(oblig)}"
            oblig.append({"name": name, "key": key, "qasm": qname, "kind": "gate",
                          "stmt": f'export_equiv 4%Z meqb {pair} {g_mat(S)} (qelib_mat "{qname}") = true'})
            oblig.append({"name": name + "_doc", "key": key, "qasm": qname, "kind": "doc",
                          "stmt": f'meqb 4%Z {g_mat(S)} (qt_scale (export_phase {pair}) (qelib_mat "{qname}")) = true'})
            oblig.append({"name": name + "_ph", "key": key, "qasm": qname, "kind": "phase",
                          "stmt": f'ph_unit (export_phase_doc {pair}) = true'})
            oblig.append({"name": name + "_ar", "key": key, "qasm": qname, "kind": "arity",
                          "stmt": f'qelib_arity "{qname}" = Some ({npar}%nat, {len(op.wires)}%nat)'})
        except NotExtractable as e:
            it["status"], it["detail"] = "notex", str(e)[:300]
        except Exception as e:
            it["status"], it["detail"] = "error", f"{type(e).__name__}: {str(e)[:300]}"
    json.dump(oblig, open(req["outdir"] + "/obligations.json", "w"))
    out["table"] = items
else:
    import pennylane as qp


# ------------------------------------------------------------------ export (Part B)
def mk_op(name, params, wires):
    if name.startswith("Adjoint("):
        return qp.adjoint(mk_op(name[8:-1], params, wires))
    if name == "GlobalPhase":
        return qp.GlobalPhase(params[0])
    if name == "MultiRZ":
        return qp.MultiRZ(params[0], wires=wires)
    return getattr(qp, name)(*params, wires=wires)


def mk_obs(o):
    fac = [getattr(qp, n)(w) for n, w in o]
    r = fac[0]
    for f in fac[1:]:
        r = r @ f
    return r


def mk_meas(m):
    kind = m[0]
    if kind == "expval":
        return qp.expval(mk_obs(m[1]))
    if kind == "var":
        return qp.var(mk_obs(m[1]))
    if kind == "sample_obs":
        return qp.sample(mk_obs(m[1]))
    if kind == "sample":
        return qp.sample(wires=m[1])
    if kind == "probs":
        return qp.probs(wires=m[1])
    if kind == "counts":
        return qp.counts(wires=m[1])
    if kind == "state":
        return qp.state()
    raise ValueError(kind)


def run_export(case):
    ops = [mk_op(*o) for o in case["ops"]]
    meas = [mk_meas(m) for m in case["meas"]]
    tape = qp.tape.QuantumScript(ops, meas)
    o = case["opts"]
    kw = {"rotations": o["rotations"], "measure_all": o["measure_all"]}
    if o.get("wires") is not None:
        kw["wires"] = qp.wires.Wires(o["wires"])
    res = {"tape_wires": list(tape.wires)}
    try:
        res["qasm"] = qp.to_openqasm(tape, precision=o["precision"], **kw)
        res["qasm_full"] = qp.to_openqasm(tape, precision=None, **kw) if o["precision"] is not None else res["qasm"]
    except Exception as e:
        res["error"] = f"{type(e).__name__}: {str(e)[:200]}"
        return res
    order = list(o["wires"]) if o.get("wires") is not None else list(tape.wires)
    if order:
        res["U"] = cplx(qp.matrix(qp.tape.QuantumScript(ops), wire_order=order)) if ops else cplx(np.eye(2 ** len(order)))
        obs = []
        for m in tape.measurements:
            if m.obs is not None:
                obs.append({"mat": cplx(qp.matrix(m.obs, wire_order=order)), "label": str(m.obs)})
        res["obs"] = obs
    return res


if "export" in req:
    out["export"] = [run_export(c) for c in req["export"]]


# ------------------------------------------------------------------ import (from_qasm3)
def run_import(case):
    res = {}
    try:
        f = qp.from_qasm3(case["text"], wire_map=None)
        tape = qp.tape.make_qscript(f)()
        opsl = [o for o in tape.operations]
        res["wires"] = [str(w) for w in tape.wires]
        res["ops"] = [str(o) for o in opsl][:40]
        order = case["order"]
        extra = [w for w in tape.wires if w not in order]
        if extra:
            res["foreign_wires"] = [str(w) for w in extra]
            order = order + extra
        res["order"] = [str(w) for w in order]
        res["U"] = cplx(qp.matrix(qp.tape.QuantumScript(opsl), wire_order=order)) if opsl else cplx(np.eye(2 ** len(order)))
    except Exception as e:
        res["error"] = f"{type(e).__name__}: {str(e)[:200]}"
    return res


if "import" in req:
    out["import"] = [run_import(c) for c in req["import"]]

print(json.dumps(out))
