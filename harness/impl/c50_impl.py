"""Runs pennylane.math GF(2) linear algebra on the JSON cases from stdin; prints one JSON line of observations."""
import json, signal, sys
import numpy as np
from pennylane import math as qmath


def mat(c):
    return np.array(c["rows"], dtype=int).reshape(c["m"], c["n"])


def tolist(a):
    return [[int(x) for x in r] for r in np.asarray(a).tolist()]


class Hang(Exception):
    pass


def _alarm(signum, frame):
    raise Hang()


signal.signal(signal.SIGALRM, _alarm)
out = []
hangs = 0
for c in json.load(sys.stdin)["cases"]:
    op = c["op"]
    if hangs >= 10:          # a looping implementation: do not spend 3 s on each remaining case
        out.append("HANG")
        continue
    signal.setitimer(signal.ITIMER_REAL, 3.0)   # per-case watchdog (a case normally takes < 1 ms)
    try:
        if op == "rref":
            M = mat(c)
            M0 = M.copy()
            R = qmath.binary_finite_reduced_row_echelon(M)
            unchanged = bool(np.array_equal(M, M0)) and R is not M
            M2 = M0.copy()
            R2 = qmath.binary_finite_reduced_row_echelon(M2, inplace=True)
            r = {"out": tolist(R), "shape": list(R.shape), "unchanged": unchanged,
                 "inplace_same": bool(R2 is M2) and bool(np.array_equal(R2, R))}
        elif op == "rank":
            M = mat(c)
            M0 = M.copy()
            k = qmath.binary_matrix_rank(M)
            r = {"out": int(k), "unchanged": bool(np.array_equal(M, M0))}
        elif op == "solve":
            A = mat(c)
            b = np.array(c["b"], dtype=int)
            A0, b0 = A.copy(), b.copy()
            x = qmath.binary_solve_linear_system(A, b)
            r = {"out": [int(v) for v in np.asarray(x).tolist()],
                 "unchanged": bool(np.array_equal(A, A0) and np.array_equal(b, b0))}
        elif op == "indep":
            B = mat(c)
            v = np.array(c["v"], dtype=int)
            r = {"out": bool(qmath.binary_is_independent(v, B))}
        elif op == "select":
            M = mat(c)
            basis, other = qmath.binary_select_basis(M)
            basis, other = np.asarray(basis), np.asarray(other)
            r = {"basis": tolist(basis), "basis_shape": list(basis.shape),
                 "other_cols": tolist(other.T), "other_shape": list(other.shape)}
        elif op == "i2b":
            r = {"out": [int(v) for v in np.asarray(qmath.int_to_binary(c["z"], c["w"])).tolist()]}
        else:
            r = "BADOP"
    except (np.linalg.LinAlgError, ValueError, IndexError, TypeError) as e:
        r = "ERR"
    except Hang:
        r = "HANG"
        hangs += 1
    finally:
        signal.setitimer(signal.ITIMER_REAL, 0)
    out.append(r)
print(json.dumps(out))
