"""C04 driver (also imported by c06_impl): builds real PennyLane operators / measurement processes from
JSON specs, extracts the AST the Coq model works on from the REAL objects' attributes, and runs
qp.equal / hash / qp.matrix.  JSON on stdin -> one JSON line on stdout."""
import copy
import json
import sys
import warnings
from fractions import Fraction

warnings.filterwarnings("ignore")
import numpy as np
import pennylane as qp
from pennylane.core import Operator2
from pennylane.core.measurements import MeasurementProcess
from pennylane.ops import Adjoint, CompositeOp, Controlled, Exp, Pow, SProd
from pennylane.ops.op_math.adjoint2 import Adjoint2
from pennylane.ops.op_math.controlled2 import Controlled2
from pennylane.ops.op_math.pow2 import Pow2
from pennylane.ops.op_math.change_op_basis import ChangeOpBasis
from pennylane.ops.op_math.sum import Sum
from pennylane.ops.op_math.prod import Prod
from pennylane import measurements as M


class NotExtractable(Exception):
    pass


# ------------------------------------------------------------------ building
def dec_num(v):
    if isinstance(v, dict):
        if "im" in v:
            return 1j * v["im"]
        if "arr" in v:
            return np.array(dec_arr(v["arr"]), dtype=v.get("dtype", None))
        if "int" in v:
            return int(v["int"])
        if "op" in v:
            return build(v["op"])
        if "ops" in v:
            return [build(x) for x in v["ops"]]
    return v


def dec_arr(a):
    if isinstance(a, list):
        return [dec_arr(x) for x in a]
    return dec_num(a)


def dec_kw(kw):
    out = {}
    for k, v in (kw or {}).items():
        if isinstance(v, dict) and "cls" in v:
            out[k] = getattr(qp, v["cls"])
        elif isinstance(v, dict) and "tuple" in v:
            out[k] = tuple(v["tuple"])
        else:
            out[k] = dec_num(v)
    return out


MP_BUILDERS = {
    "expval": lambda s: qp.expval(build(s["obs"])),
    "var": lambda s: qp.var(build(s["obs"])),
    "sample_obs": lambda s: qp.sample(build(s["obs"])),
    "counts_obs": lambda s: qp.counts(build(s["obs"]), all_outcomes=s.get("all_outcomes", False)),
    "probs_obs": lambda s: qp.probs(op=build(s["obs"])),
    "probs": lambda s: qp.probs(wires=s["w"]),
    "sample": lambda s: qp.sample(wires=s["w"]),
    "counts": lambda s: qp.counts(wires=s["w"], all_outcomes=s.get("all_outcomes", False)),
    "state": lambda s: qp.state(),
    "density_matrix": lambda s: qp.density_matrix(s["w"]),
    "vn_entropy": lambda s: qp.vn_entropy(wires=s["w"], log_base=s.get("log_base")),
    "mutual_info": lambda s: qp.mutual_info(wires0=s["w0"], wires1=s["w1"], log_base=s.get("log_base")),
    "purity": lambda s: qp.purity(wires=s["w"]),
    "classical_shadow": lambda s: qp.classical_shadow(wires=s["w"], seed=s.get("seed")),
    "expval_eig": lambda s: M.ExpectationMP(eigvals=np.array(s["eig"], dtype=float), wires=qp.wires.Wires(s["w"])),
    "var_eig": lambda s: M.VarianceMP(eigvals=np.array(s["eig"], dtype=float), wires=qp.wires.Wires(s["w"])),
    "sample_eig": lambda s: M.SampleMP(eigvals=np.array(s["eig"], dtype=float), wires=qp.wires.Wires(s["w"])),
}


def build(s):
    c = s["c"]
    if c in MP_BUILDERS and s.get("mp"):
        return MP_BUILDERS[c](s)
    if c == "adjoint":
        return qp.adjoint(build(s["b"]), lazy=True)
    if c == "pow":
        return qp.pow(build(s["b"]), dec_num(s["z"]), lazy=True)
    if c == "ctrl":
        kw = {}
        if s.get("ww"):
            kw["work_wires"] = s["ww"]
            kw["work_wire_type"] = s.get("wt", "borrowed")
        return qp.ctrl(build(s["b"]), control=s["cw"], control_values=s["cv"], **kw)
    if c == "sprod":
        return qp.s_prod(dec_num(s["s"]), build(s["b"]), lazy=True)
    if c == "exp":
        return qp.exp(build(s["b"]), dec_num(s["k"]))
    if c == "sum":
        return qp.sum(*[build(o) for o in s["o"]], lazy=True)
    if c == "prod":
        return qp.prod(*[build(o) for o in s["o"]], lazy=True)
    if c == "cob":
        return qp.change_op_basis(*[build(o) for o in s["o"]])
    if c == "hamiltonian":
        return qp.Hamiltonian([dec_num(x) for x in s["coeffs"]], [build(o) for o in s["o"]])
    cls = getattr(qp, c)
    args = [dec_num(p) for p in s.get("p", [])]
    kw = dec_kw(s.get("kw"))
    if s.get("nowires"):
        return cls(*args, **kw)
    return cls(*args, wires=s["w"], **kw)


# ------------------------------------------------------------------ extraction
def fr(x):
    f = Fraction(float(x))
    return [f.numerator, f.denominator]


def num_kind(vals):
    """vals: flat list of python/numpy numbers -> (kind, [fractions]); kind 0 real, 1 pure imaginary"""
    if any(np.ndim(v) > 0 for v in vals):
        raise NotExtractable("array where a scalar is expected")
    cs = [complex(v) for v in vals]
    if any(c != c or abs(c) == float("inf") for c in cs):
        raise NotExtractable("nan/inf")
    if all(c.imag == 0 for c in cs):
        return 0, [fr(c.real) for c in cs]
    if all(c.real == 0 for c in cs):
        return 1, [fr(c.imag) for c in cs]
    raise NotExtractable("mixed complex number")


def wl(w):
    """wire label -> string that is injective w.r.t. python equality for the labels the generator uses"""
    if isinstance(w, (bool, np.bool_)):
        raise NotExtractable("bool wire")
    if isinstance(w, (int, np.integer)):
        return "i:%d" % int(w)
    if isinstance(w, str):
        return "s:" + w
    raise NotExtractable("wire label type %r" % type(w))


def wls(ws):
    return [wl(w) for w in ws]


def canon(v):
    """canonical, ==-injective description of a hyperparameter value"""
    if v is None or isinstance(v, (bool, np.bool_)):
        return repr(None if v is None else bool(v))
    if isinstance(v, (int, np.integer)):
        return "int:%d" % int(v)
    if isinstance(v, (float, np.floating)):
        return "num:%s" % (Fraction(float(v)),)
    if isinstance(v, complex):
        return "cplx:%s,%s" % (Fraction(v.real), Fraction(v.imag))
    if isinstance(v, str):
        return "str:" + json.dumps(v)
    if isinstance(v, qp.wires.Wires):
        return "W" + json.dumps(wls(v))
    if isinstance(v, np.ndarray):
        return "arr%s:%s" % (v.shape, [canon(x) for x in v.reshape(-1).tolist()])
    if isinstance(v, (list, tuple)):
        return "seq[" + ",".join(canon(x) for x in v) + "]"
    if isinstance(v, dict):
        return "dict{" + ",".join(sorted(json.dumps(str(k)) + "=" + canon(x) for k, x in v.items())) + "}"
    if isinstance(v, type):
        return "cls:" + v.__name__
    if isinstance(v, (qp.core.operator.Operator, Operator2, MeasurementProcess)):
        # numbers of nested operators are parameters of the enclosing operator (its .data), not hyperparameters
        return "obj:" + json.dumps(erase_nums(extract(v, None)), sort_keys=True)
    if isinstance(v, qp.measurements.Shots):
        return "shots:" + repr(v)
    raise NotExtractable("hyperparameter of type %r" % type(v))


def erase_nums(a):
    """the AST with every numeric leaf replaced by 0 (shapes kept)"""
    if isinstance(a, list):
        return [erase_nums(x) for x in a]
    if not isinstance(a, dict):
        return a
    out = {}
    for k, v in a.items():
        if k == "params":
            out[k] = [[[0, 1] for _ in p] for p in v]
        elif k in ("s", "c"):
            out[k] = [0, 1]
        elif k == "eig":
            out[k] = None if v is None else [[0, 1] for _ in v]
        else:
            out[k] = erase_nums(v)
    return out


def is_ctrl(o):
    return isinstance(o, (Controlled, Controlled2))


def strip_data(o):
    """op.data without the control-value pseudo parameter that some Controlled2 subclasses expose"""
    out = []
    for d in o.data:
        if is_ctrl(o) and getattr(np.asarray(d), "dtype", None) == np.bool_:
            continue
        out.append(d)
    return out


def ext_param(d):
    a = np.asarray(d)
    k, vals = num_kind(a.reshape(-1).tolist())
    return {"shape": list(a.shape), "kind": k, "vals": vals}


def sum_key(o):      # Sum._sort._sort_key
    if not o.wires:
        return ("", 0, str(o))
    return (sorted(list(map(str, o.wires)))[0], len(o.wires), str(o))


def prod_key(o):     # the label compared by prod._swappable_ops: str(set(wires).pop())
    if not o.wires:
        return ""
    return str(set(o.wires).pop())


def extract(o, reg):
    """reg: None (plain structural AST for C06 / nested hyperparameters) or a dict collecting the
    oracle values (pauli_rep classes, sort keys) for one C04 case."""
    if isinstance(o, MeasurementProcess):
        if o.mv is not None:
            raise NotExtractable("mid-circuit measurement value")
        extra, aux = "", ""
        if isinstance(o, (M.VnEntropyMP, M.MutualInfoMP)):
            extra = "log_base=" + canon(o.log_base)
        if isinstance(o, M.CountsMP):
            extra = "all_outcomes=" + canon(o.all_outcomes)
        if isinstance(o, M.ClassicalShadowMP):
            aux = "seed=" + canon(o.seed)
        if isinstance(o, M.MutualInfoMP):
            aux = "split=%d" % len(o.raw_wires[0]) if hasattr(o, "raw_wires") else ""
        if isinstance(o, M.ShadowExpvalMP):
            raise NotExtractable("shadow expval")
        eig = None
        if o.obs is None and o.eigvals() is not None:
            k, eig = num_kind(np.asarray(o.eigvals()).reshape(-1).tolist())
            if k != 0:
                raise NotExtractable("complex eigvals")
        return {"t": "mp", "kind": type(o).__name__, "obs": None if o.obs is None else extract(o.obs, reg),
                "wires": wls(o.wires) if o.obs is None else wls(o.obs.wires), "eig": eig, "extra": extra, "aux": aux}
    name = type(o).__name__
    if is_ctrl(o):
        return {"t": "ctrl", "name": name, "base": extract(o.base, reg), "cw": wls(o.control_wires),
                "cv": [bool(v) for v in o.control_values], "ww": wls(o.work_wires), "wt": str(o.work_wire_type)}
    if isinstance(o, (Pow, Pow2)):
        z = o.z
        if isinstance(z, complex) or np.iscomplexobj(z):
            raise NotExtractable("complex exponent")
        return {"t": "pow", "name": name, "z": fr(z), "base": extract(o.base, reg)}
    if isinstance(o, (Adjoint, Adjoint2)):
        return {"t": "adj", "name": name, "base": extract(o.base, reg)}
    if isinstance(o, SProd):
        k, v = num_kind([o.scalar])
        return {"t": "sprod", "name": name, "s": v[0], "kind": k, "prep": prep_code(o, reg), "base": extract(o.base, reg)}
    if isinstance(o, Exp):
        k, v = num_kind([o.coeff])
        return {"t": "exp", "name": name, "c": v[0], "kind": k, "base": extract(o.base, reg)}
    if isinstance(o, CompositeOp):
        if isinstance(o, ChangeOpBasis):
            sk = 2
        elif isinstance(o, Sum):
            sk = 0
        elif isinstance(o, Prod):
            sk = 1
        else:
            raise NotExtractable("composite " + name)
        operands = []
        for x in o.operands:
            key = None
            if reg is not None:
                key = sum_key(x) if sk == 0 else (prod_key(x) if sk == 1 else "")
                reg["sumkeys" if sk == 0 else "prodkeys"].append(key)
            operands.append({"key": key, "ow": wls(x.wires), "body": extract(x, reg)})
        extra = ""
        if isinstance(o, qp.ops.LinearCombination):
            raise NotExtractable("LinearCombination")
        return {"t": "comp", "name": name, "sk": sk, "prep": prep_code(o, reg), "operands": operands}
    hp = dict(o.hyperparameters)
    params = [ext_param(d) for d in strip_data(o)]
    hyper = canon(hp) + "|" + ";".join("%s/%d" % (p["shape"], p["kind"]) for p in params)
    return {"t": "plain", "name": name, "params": [p["vals"] for p in params], "wires": wls(o.wires), "hyper": hyper}


def prep_code(o, reg):
    if reg is None:
        return None
    pr = o.pauli_rep
    if pr is None:
        return None
    for i, q in enumerate(reg["preps"]):
        if pr == q:
            return i
    reg["preps"].append(pr)
    return len(reg["preps"]) - 1


def rank_keys(ast, reg):
    """replace recorded sort keys by their ranks (python ordering of the real keys)"""
    sk = {k: i for i, k in enumerate(sorted(set(reg["sumkeys"])))}
    pk = {k: i for i, k in enumerate(sorted(set(reg["prodkeys"])))}

    def go(a):
        if a is None:
            return
        t = a["t"]
        if t == "mp":
            go(a["obs"])
        elif t == "comp":
            for x in a["operands"]:
                x["key"] = sk[tuple(x["key"])] if a["sk"] == 0 else (pk[x["key"]] if a["sk"] == 1 else 0)
                go(x["body"])
        elif t in ("ctrl", "pow", "adj", "sprod", "exp"):
            go(a["base"])
    go(ast)


# ------------------------------------------------------------------ matrices (independent of Prod.matrix)
def has_nested_prod(o, under=False):
    if isinstance(o, CompositeOp):
        if under:
            return True
        return any(has_nested_prod(x, under) for x in o.operands)
    if hasattr(o, "base") and not isinstance(o, (SProd,)) and not isinstance(o, (Adjoint, Adjoint2)):
        return has_nested_prod(o.base, True)
    if hasattr(o, "base"):
        return has_nested_prod(o.base, under)
    return False


def mat(o, wo):
    if isinstance(o, ChangeOpBasis) or isinstance(o, Prod):
        m = np.eye(2 ** len(wo), dtype=complex)
        for x in o.operands:
            m = m @ mat(x, wo)
        return m
    if isinstance(o, Sum):
        return sum(mat(x, wo) for x in o.operands)
    if isinstance(o, SProd):
        return complex(o.scalar) * mat(o.base, wo)
    if isinstance(o, (Adjoint, Adjoint2)):
        return np.conj(mat(o.base, wo)).T
    return np.asarray(qp.matrix(o, wire_order=wo), dtype=complex)


def matrix_check(a, b):
    """None = not applicable, else max abs difference of the two matrices on a's wires"""
    if isinstance(a, MeasurementProcess) or isinstance(b, MeasurementProcess):
        return None
    try:
        if set(a.wires) != set(b.wires) or not (0 < len(a.wires) <= 3):
            return None
        if not (a.has_matrix and b.has_matrix) or has_nested_prod(a) or has_nested_prod(b):
            return None
        wo = list(a.wires)
        return float(np.max(np.abs(mat(a, wo) - mat(b, wo))))
    except Exception as e:            # matrix undefined for this operator: not part of C04
        return None


def main():
    out = []
    for c in json.load(sys.stdin)["cases"]:
        try:
            a = build(c["a"])
            bs = c["b"]
            if isinstance(bs, dict) and "derive" in bs:
                b = {"copy": copy.copy, "deepcopy": copy.deepcopy, "same": lambda x: x,
                     "rebuild": lambda x: build(c["a"])}[bs["derive"]](a)
            else:
                b = build(bs)
        except Exception as e:
            out.append({"skip": "build: %r" % (e,)})
            continue
        try:
            reg = {"preps": [], "sumkeys": [], "prodkeys": []}
            aa, ab = extract(a, reg), extract(b, reg)
            rank_keys(aa, reg)
            rank_keys(ab, reg)
        except NotExtractable as e:
            out.append({"skip": "extract: %s" % (e,)})
            continue
        r = {"a": aa, "b": ab}
        kw = {"rtol": c["rtol"], "atol": c["atol"]}
        try:
            r["eab"] = bool(qp.equal(a, b, **kw))
            r["eba"] = bool(qp.equal(b, a, **kw))
            r["raa"] = bool(qp.equal(a, a, **kw))
            r["rbb"] = bool(qp.equal(b, b, **kw))
            r["hash_eq"] = hash(a) == hash(b)
            r["mat"] = matrix_check(a, b) if (r["eab"] and c["rtol"] <= 1e-5 and c["atol"] <= 1e-5) else None
        except Exception as e:
            r = {"error": "%s: %s" % (type(e).__name__, e), "a": aa, "b": ab}
        out.append(r)
    print(json.dumps(out))


if __name__ == "__main__":
    main()
