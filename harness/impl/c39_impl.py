"""Runs pennylane.gradients compute_vjp/jvp (single, multi), batch_vjp, batch_jvp and classical_jacobian on the
JSON cases from stdin; prints one JSON line of observations.

Value encoding (inputs): null -> None, int n -> 0-d array n/4, {"v": [..]} -> 1-d array (entries /4),
{"t": [..]} -> tuple.  Outputs use the same shapes with integer entries = value * 16 (exactly, checked)."""
import json, sys, warnings
import numpy as np

warnings.filterwarnings("ignore")
import pennylane as qp
from pennylane import numpy as pnp
from pennylane.gradients import (compute_vjp_single, compute_vjp_multi, compute_jvp_single, compute_jvp_multi,
                                 batch_vjp, batch_jvp, classical_jacobian)

S_IN = 4.0


def dec(v, scale=1.0):
    if v is None:
        return None
    if isinstance(v, dict):
        if "v" in v:
            return np.array([x / S_IN * scale for x in v["v"]], dtype=float)
        return tuple(dec(x, scale) for x in v["t"])
    return np.array(v / S_IN * scale, dtype=float)


def enc_num(x, out_scale):
    y = float(x) * out_scale
    if y != int(y):
        raise RuntimeError(f"inexact result {x!r}")
    return int(y)


def enc(r, out_scale):
    if r is None:
        return None
    if isinstance(r, (tuple, list)):
        return {"t": [enc(x, out_scale) for x in r]}
    a = np.asarray(r)
    if a.ndim == 0:
        return enc_num(a, out_scale)
    if a.ndim == 1:
        return {"v": [enc_num(x, out_scale) for x in a]}
    if a.ndim == 2:
        return {"m": [[enc_num(x, out_scale) for x in row] for row in a]}
    raise RuntimeError("rank > 2 result")


def mk_tape(k, meas, shots):
    ops = [qp.RX(0.5, wires=i % 3) for i in range(k)]
    ms = []
    for i, d in enumerate(meas):
        if d == 0:
            ms.append(qp.expval(qp.Z(i % 3)))
        else:
            ms.append(qp.probs(wires=list(range({2: 1, 4: 2, 8: 3}[d]))))
    return qp.tape.QuantumScript(ops, ms, shots=(tuple(shots) if shots else None), trainable_params=list(range(k)))


def weight(sl):
    sl = list(sl)
    if not sl:
        return 1
    return sum((i + 1) * x for i, x in enumerate(sl))


def run_batch(c, is_vjp):
    tapes, cots, table = [], [], {}
    for t in c["tapes"]:
        tp = mk_tape(t["k"], t["meas"], t["shots"])
        table[id(tp)] = t
        tapes.append(tp)
        cots.append(dec(t["dy"]) if is_vjp else np.array([x / S_IN for x in t["tg"]], dtype=float))

    def gradient_fn(tape):
        t = table[id(tape)]
        return [tape] * t["glen"], (lambda results: dec(t["J"], scale=weight(results)))

    f = batch_vjp if is_vjp else batch_jvp
    g_tapes, fn = f(tapes, cots, gradient_fn, reduction=("extend" if c["ext"] else "append"))
    results = list(c["results"])
    n_g = len(g_tapes)
    r = fn(results)
    return enc(list(r), 16.0), n_g


def run_cj(c):
    """classical pre-processing params = A @ x + b used as gate angles; Jacobian must be A."""
    A = np.array(c["A"], dtype=float)
    b = np.array([v / 4.0 for v in c["b"]])
    dev = qp.device("default.qubit", wires=2)
    if c["nargs"] == 1:
        @qp.qnode(dev)
        def circuit(x):
            p = qp.math.dot(A, x) + b
            for i in range(A.shape[0]):
                (qp.RX, qp.RY, qp.RZ)[i % 3](p[i], wires=i % 2)
            return qp.expval(qp.Z(0))
        x = pnp.array([v / 4.0 for v in c["x"]], requires_grad=True)
        jac = classical_jacobian(circuit)(x)
        return [[float(v) for v in row] for row in np.asarray(jac)]
    n0 = c["split"]

    @qp.qnode(dev)
    def circuit2(x, y):
        p = qp.math.dot(A[:, :n0], x) + qp.math.dot(A[:, n0:], y) + b
        for i in range(A.shape[0]):
            (qp.RX, qp.RY, qp.RZ)[i % 3](p[i], wires=i % 2)
        return qp.expval(qp.Z(0))
    x = pnp.array([v / 4.0 for v in c["x"][:n0]], requires_grad=True)
    y = pnp.array([v / 4.0 for v in c["x"][n0:]], requires_grad=True)
    jx, jy = classical_jacobian(circuit2)(x, y)
    return [[float(v) for v in list(rx) + list(ry)] for rx, ry in zip(np.asarray(jx), np.asarray(jy))]


out = []
for c in json.load(sys.stdin)["cases"]:
    op = c["op"]
    try:
        if op == "vs":
            r = enc(compute_vjp_single(dec(c["dy"]), dec(c["jac"])), 16.0)
        elif op == "vm":
            r = enc(compute_vjp_multi(dec(c["dy"]), dec(c["jac"])), 16.0)
        elif op == "js":
            r = enc(compute_jvp_single(np.array([x / S_IN for x in c["tg"]], dtype=float), dec(c["jac"])), 16.0)
        elif op == "jm":
            r = enc(compute_jvp_multi(np.array([x / S_IN for x in c["tg"]], dtype=float), dec(c["jac"])), 16.0)
        elif op in ("bv", "bj"):
            r, ng = run_batch(c, op == "bv")
            r = {"r": r, "ng": ng}
        elif op == "cj":
            r = {"cj": run_cj(c)}
        else:
            raise RuntimeError("unknown op")
    except RuntimeError:
        raise
    except Exception as e:  # pylint: disable=broad-except
        r = "ERR"
    out.append(r)
print(json.dumps(out))
