"""C11: for every catalogued operator instance and applicable rule: emitted gate stream (resource reps via the
repo's own abstractify), declared resources, exactness flag, allocation events, declared work-wire total."""
import sys, json, random, re, collections
sys.path.insert(0, "/verif/harness")
from qrules import *
from qx import _get_decomp_args
try:
    from pennylane.decomposition.decomposition_rule import abstractify
except Exception:
    from pennylane.core.operator.utils import abstractify

req = json.load(sys.stdin)
rng = random.Random(req["seed"])
install_patches()


def canon(r):
    t = re.sub(r", weak_type=True", "", repr(r))
    t = re.sub(r"\b(int64|int32|float64|float32|complex128|complex64|bool)\b", "num", t)
    return " ".join(sorted(re.findall(r"[A-Za-z_0-9\.]+", t)))


out = []
cat = catalog(req["tier"]) + catalog(req["tier"], labels="str")[::5]
for label, nv, f in cat:
    set_cfg(8, 8, nv)
    try:
        op = bind_numeric(f(), [rng.uniform(-3, 3) for _ in range(3)])
        params, args, kwargs = _get_decomp_args(op)
        rules = rules_for(op)
    except Exception as e:
        out.append({"label": label, "rule": "-", "status": "construct-failed", "detail": repr(e)[:150]})
        continue
    for rule in rules:
        rn = getattr(rule, "name", str(rule))[:60]
        try:
            if not rule.is_applicable(**params):
                continue
            decl = rule.compute_resources(**params).gate_counts
            spec = rule.get_work_wire_spec(**params)
            with AnnotatedQueue() as q:
                rule(*args, **kwargs)
        except Exception as e:
            out.append({"label": label, "rule": rn, "status": "error", "detail": f"{type(e).__name__}: {str(e)[:150]}"})
            continue
        emitted, allocs = [], []
        for o in q.queue:
            if type(o).__name__ == "Conditional":
                o = o.base
            if o.name == "Allocate":
                allocs.append(len(o.wires)); continue
            if o.name == "Deallocate":
                allocs.append(-len(o.wires)); continue
            emitted.append(canon(abstractify(o)))
        d2 = collections.Counter()
        for k, v in decl.items():
            if v:
                d2[canon(k)] += int(v)
        out.append({"label": label, "rule": rn, "status": "ok", "emitted": emitted, "declared": dict(d2),
                    "exact": bool(getattr(rule, "exact_resources", True)), "allocs": allocs, "work": int(spec.total)})
print(json.dumps(out))
