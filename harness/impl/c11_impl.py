"""C11: for every catalogued operator instance and applicable rule: emitted gate stream (resource reps via the
repo's own abstractify), declared resources, exactness flag, allocation events, declared work-wire total."""
import sys, json, random, re, collections
sys.path.insert(0, "/verif/harness")
from qrules import *
from qx import _get_decomp_args
try:
    from pennylane.decomposition.decomposition_rule import abstractify
except Exception:
    from pennylane.core.operator.utils import abstractify

req = json.load(sys.stdin)
rng = random.Random(req["seed"])
install_patches()


def _full(r, depth=0):
    """Text of a resource representation that contains EVERY bound argument.  repr() of the new-style abstract operators
    omits arguments that are not part of the short print form (e.g. work_wires / work_wire_type of MultiControlledX),
    although they are part of the representation's identity (__hash__/__eq__); so the argument dict is walked instead."""
    args = getattr(r, "arguments", None)
    if isinstance(args, dict) and depth < 8:
        return f"{getattr(r, 'name', type(r).__name__)}(" + ", ".join(f"{k}={_full(v, depth + 1)}" for k, v in args.items()) + ")"
    if isinstance(r, dict) and depth < 8:
        return "{" + ", ".join(sorted(f"{_full(k, depth + 1)}: {_full(v, depth + 1)}" for k, v in r.items())) + "}"
    if isinstance(r, (list, tuple)) and depth < 8:
        return "[" + ", ".join(_full(v, depth + 1) for v in r) + "]"
    return repr(r)


def canon(r):
    t = re.sub(r", weak_type=True", "", _full(r))
    t = re.sub(r" at 0x[0-9a-f]+", "", t)
    t = re.sub(r"\b(int64|int32|float64|float32|complex128|complex64|bool)\b", "num", t)
    t = t.replace("defaultdict(<class 'int'>, ", "(")      # Counter-like containers print differently from plain dicts
    return " ".join(sorted(re.findall(r"[A-Za-z_0-9\.]+", t)))


out = []
cat = catalog(req["tier"]) + catalog(req["tier"], labels="str")[::5]


def _templates():
    """variable-arity templates with registered rules (resource declarations only; their semantics belong to C56/C58)"""
    T = []
    add = lambda lab, f: T.append(("T:" + lab, 0, f))
    add("Adder[3,mod7]", lambda: qp.Adder(3, x_wires=[0, 1, 2], mod=7, work_wires=[3, 4]))
    add("Adder[3,mod8]", lambda: qp.Adder(3, x_wires=[0, 1, 2], mod=8, work_wires=[3, 4]))
    add("Adder[5,mod5,4w]", lambda: qp.Adder(5, x_wires=[0, 1, 2, 3], mod=5, work_wires=[4, 5]))
    add("PhaseAdder[mod7]", lambda: qp.PhaseAdder(5, x_wires=[0, 1, 2, 3], mod=7, work_wire=[4]))
    add("PhaseAdder[mod16]", lambda: qp.PhaseAdder(5, x_wires=[0, 1, 2, 3], mod=16, work_wire=[4]))
    add("Multiplier[mod7]", lambda: qp.Multiplier(4, x_wires=[0, 1, 2], mod=7, work_wires=[3, 4, 5, 6, 7]))
    add("OutAdder[mod7]", lambda: qp.OutAdder([0, 1], [2, 3], [4, 5, 6], mod=7, work_wires=[7, 8]))
    add("OutMultiplier[mod8]", lambda: qp.OutMultiplier([0, 1], [2, 3], [4, 5, 6], work_wires=[7, 8]))
    add("ModExp[mod7]", lambda: qp.ModExp([0, 1], [2, 3, 4], 2, 7, work_wires=[5, 6, 7, 8, 9]))
    add("SemiAdder[3,3,2w]", lambda: qp.SemiAdder([0, 1, 2], [3, 4, 5], work_wires=[6, 7]))
    add("SemiAdder[2,4,3w]", lambda: qp.SemiAdder([0, 1], [2, 3, 4, 5], work_wires=[6, 7, 8]))
    add("C(SemiAdder)[ctrl work]", lambda: qp.ctrl(qp.SemiAdder([0, 1, 2], [3, 4, 5], work_wires=[]), control=[6], work_wires=[7, 8]))
    add("C(SemiAdder)[base work]", lambda: qp.ctrl(qp.SemiAdder([0, 1, 2], [3, 4, 5], work_wires=[7, 8]), control=[6]))
    add("C(SemiAdder)[cv0]", lambda: qp.ctrl(qp.SemiAdder([0, 1], [2, 3, 4], work_wires=[6, 7]), control=[5], control_values=[0]))
    add("Incrementer[3]", lambda: qp.Incrementer([0, 1, 2]))
    add("Incrementer[4,3w]", lambda: qp.Incrementer([0, 1, 2, 3], work_wires=[4, 5, 6]))
    add("C(Incrementer)", lambda: qp.ctrl(qp.Incrementer([0, 1, 2], work_wires=[4, 5]), control=[3]))
    add("QFT[3]", lambda: qp.QFT(wires=[0, 1, 2]))
    add("IntegerComparator[5]", lambda: qp.IntegerComparator(5, geq=True, wires=[0, 1, 2, 3]))
    add("IntegerComparator[3,lt]", lambda: qp.IntegerComparator(3, geq=False, wires=[0, 1, 2, 3], work_wires=[4]))
    add("OutSquare", lambda: qp.OutSquare([0, 1], [2, 3, 4], work_wires=[5, 6, 7]))
    add("SignedOutSquare", lambda: qp.SignedOutSquare([0, 1], [2, 3, 4], [5, 6, 7]))
    add("Select[3]", lambda: qp.Select([qp.X(2), qp.Y(2), qp.Z(3)], control=[0, 1]))
    add("QROM", lambda: qp.QROM(["01", "11", "10"], control_wires=[0, 1], target_wires=[2, 3], work_wires=None))
    add("GroverOperator[3]", lambda: qp.GroverOperator(wires=[0, 1, 2]))
    add("BasisRotation", lambda: qp.BasisRotation(wires=[0, 1, 2], unitary_matrix=np.array([[0, 1, 0], [1, 0, 0], [0, 0, 1.0]])))
    # ControlledQubitUnitary with several controls and each work-wire type (the inner multi-controlled X gates inherit the type)
    import math as _m
    U1 = np.exp(0.4j) * np.array([[_m.cos(0.35), -_m.sin(0.35) * np.exp(0.3j)], [_m.sin(0.35) * np.exp(-0.8j), _m.cos(0.35) * np.exp(-0.5j)]])
    add("CQU[3c,1w zeroed]", lambda: qp.ControlledQubitUnitary(U1, wires=[0, 1, 2, 3], work_wires=[4], work_wire_type="zeroed"))
    add("CQU[3c,1w borrowed]", lambda: qp.ControlledQubitUnitary(U1, wires=[0, 1, 2, 3], work_wires=[4], work_wire_type="borrowed"))
    add("CQU[4c,2w zeroed,cv]", lambda: qp.ControlledQubitUnitary(U1, wires=[0, 1, 2, 3, 4], control_values=[1, 0, 1, 1], work_wires=[5, 6], work_wire_type="zeroed"))
    add("CQU[2c,0w]", lambda: qp.ControlledQubitUnitary(U1, wires=[0, 1, 2]))
    # Select at the boundary sizes of its unary-iteration resource formulas (K = 2^(c-2), 2^(c-2)+1, 2^(c-1), 2^c)
    for c_, K_ in ((2, 1), (3, 2), (3, 3), (3, 4), (4, 4), (3, 8)):
        add(f"Select[c={c_},K={K_},not partial]", lambda c_=c_, K_=K_: qp.Select([[qp.Z, qp.S, qp.X, qp.T, qp.Y, qp.Hadamard, qp.SX, qp.Z][i](9) for i in range(K_)],
                                                                                control=list(range(c_)), work_wires=[10 + i for i in range(max(c_ - 1, 1))], partial=False))
    return T


import numpy as np
cat = cat + _templates()
for label, nv, f in cat:
    set_cfg(8, 8, nv)
    try:
        op = f() if label.startswith("T:") else bind_numeric(f(), [rng.uniform(-3, 3) for _ in range(3)])
        params, args, kwargs = _get_decomp_args(op)
        rules = rules_for(op)
    except Exception as e:
        out.append({"label": label, "rule": "-", "status": "construct-failed", "detail": repr(e)[:150]})
        continue
    for rule in rules:
        rn = getattr(rule, "name", str(rule))[:60]
        try:
            if not rule.is_applicable(**params):
                continue
            decl = rule.compute_resources(**params).gate_counts
            spec = rule.get_work_wire_spec(**params)
            with AnnotatedQueue() as q:
                rule(*args, **kwargs)
        except Exception as e:
            out.append({"label": label, "rule": rn, "status": "error", "detail": f"{type(e).__name__}: {str(e)[:150]}"})
            continue
        emitted, allocs = [], []
        for o in q.queue:
            if type(o).__name__ == "Conditional":
                o = o.base
            if o.name == "Allocate":
                allocs.append(len(o.wires)); continue
            if o.name == "Deallocate":
                allocs.append(-len(o.wires)); continue
            emitted.append(canon(abstractify(o)))
        d2 = collections.Counter()
        for k, v in decl.items():
            if v:
                d2[canon(k)] += int(v)
        out.append({"label": label, "rule": rn, "status": "ok", "emitted": emitted, "declared": dict(d2),
                    "exact": bool(getattr(rule, "exact_resources", True)), "allocs": allocs, "work": int(spec.total)})
print(json.dumps(out))
