"""C37 Part B: second derivatives from the real code (unpatched PennyLane) against the certified polynomials:
 * qp.gradients.param_shift_hessian applied to numeric tapes (gate-level Hessian),
 * nested differentiation of QNodes with max_diff=2 (parameter-shift and backprop) in autograd, jax and torch, with
   classical preprocessing of the QNode arguments (chain rule of second order in the reference)."""
import sys, json, random, math, cmath, warnings
warnings.filterwarnings("ignore")
import numpy as np
import pennylane as qp

req = json.load(sys.stdin)
rng = random.Random(req["seed"] + 11)
PI = math.pi
sys.path.insert(0, "/verif/harness")
from gradcfg import *


def expr_hess(e, x):
    n = len(x)
    H = [[0.0] * n for _ in range(n)]
    if e[0] == "prod":
        H[e[1]][e[2]] += 1.0
        H[e[2]][e[1]] += 1.0
    elif e[0] == "sin":
        H[e[1]][e[1]] = -math.sin(x[e[1]])
    elif e[0] == "sq":
        H[e[1]][e[1]] = 2.0
    return H


def reference(spec, refs, tp, xval, D):
    theta = [expr_val(spec["steps"][si]["params"][pi], xval, math) for (si, pi) in tp]
    dth = [expr_grad(spec["steps"][si]["params"][pi], xval) for (si, pi) in tp]
    hth = [expr_hess(spec["steps"][si]["params"][pi], xval) for (si, pi) in tp]
    P, A = len(tp), len(xval)
    Hg, Hx = [], []
    for r in refs:
        g = [pnum(r["dE"][p], theta, D).real for p in range(P)]
        h = [[pnum(r["ddE"][p][q], theta, D).real for q in range(P)] for p in range(P)]
        Hg.append(h)
        Hx.append([[sum(h[p][q] * dth[p][a] * dth[q][b] for p in range(P) for q in range(P)) + sum(g[p] * hth[p][a][b] for p in range(P))
                    for b in range(A)] for a in range(A)])
    return np.array(Hg, dtype=float), np.array(Hx, dtype=float), theta


def run_hessian_transform(spec, refs, tp, xval, D, kw):
    Hg, Hx, theta = reference(spec, refs, tp, xval, D)
    tape = numeric_tape(spec, theta, tp)
    try:
        gt, fn = qp.gradients.param_shift_hessian(tape, **kw)
        res = qp.execute(gt, qp.device("default.qubit"), diff_method=None) if len(gt) else ()
        out = fn(res)
    except Exception as e:
        return {"status": "rejected", "err": type(e).__name__ + ": " + str(e)[:160].replace("\n", " ")}
    P = len(tp)
    nm = len(spec["meas"])
    try:
        per_m = out if nm > 1 else (out,)
        rows = []
        for mi in range(nm):
            hm = per_m[mi]
            if P == 1 and not isinstance(hm, tuple):
                hm = ((hm,),)
            arr = [[np.asarray(hm[j][k], dtype=float).reshape(-1) for k in range(P)] for j in range(P)]
            for c in range(len(arr[0][0])):
                rows.append([[arr[j][k][c] for k in range(P)] for j in range(P)])
        H = np.array(rows, dtype=float)
    except Exception as e:
        return {"status": "shape", "err": repr(e)[:200]}
    if H.shape != Hg.shape:
        return {"status": "shape", "got": list(H.shape), "want": list(Hg.shape)}
    if (np.abs(H - Hg) > 1e-7).any() or not np.all(np.isfinite(H)):
        return {"status": "mismatch", "hess": H.tolist(), "ref": Hg.tolist(), "theta": theta}
    return {"status": "ok"}


def hessian_in(spec, interface, diff_method, xval):
    cost, circ = make_qnode(spec, interface, diff_method, {"max_diff": 2})
    if interface == "autograd":
        from pennylane import numpy as pnp
        x = pnp.array(xval, requires_grad=True)
        return np.asarray(qp.jacobian(qp.jacobian(cost))(x), dtype=float)
    if interface in ("jax", "jax-jit"):
        import jax
        jax.config.update("jax_enable_x64", True)
        f = jax.jacobian(jax.jacobian(cost))
        if interface == "jax-jit":
            f = jax.jit(f)
        return np.asarray(f(jax.numpy.array(xval)), dtype=float)
    if interface == "torch":
        import torch
        x = torch.tensor(xval, dtype=torch.float64, requires_grad=True)
        return np.asarray(torch.autograd.functional.jacobian(lambda y: torch.autograd.functional.jacobian(cost, y, create_graph=True), x).detach().numpy(), dtype=float)
    raise ValueError(interface)


NESTED = [(i, d) for i in ["autograd", "jax", "jax-jit", "torch"] for d in ["parameter-shift", "backprop"]]


def main():
    out = {"results": [], "stats": {}}
    for item in req["specs"]:
        spec, tp, refs, D = item["spec"], [tuple(x) for x in item["tp"]], item["refs"], item["D"]
        xval = [rng.uniform(-2.5, 2.5) for _ in range(spec["nx"])]
        Hg, Hx, theta = reference(spec, refs, tp, xval, D)
        if item.get("transform", True):
            r = run_hessian_transform(spec, refs, tp, xval, D, {})
            d = out["stats"].setdefault("transform:param_shift_hessian", {})
            d[r["status"]] = d.get(r["status"], 0) + 1
            if r["status"] not in ("ok", "rejected"):
                out["results"].append({"si": item["si"], "config": "transform:param_shift_hessian", "x": xval, "result": r})
        for itf, dm in item.get("nested", NESTED):
            ck = f"{itf}/{dm}/max_diff=2"
            try:
                H = hessian_in(spec, itf, dm, xval)
                if H.size != Hx.size:
                    r = {"status": "shape", "got": list(H.shape), "want": list(Hx.shape)}
                else:
                    H = H.reshape(Hx.shape)
                    r = {"status": "ok"} if (np.abs(H - Hx) <= 1e-6).all() and np.all(np.isfinite(H)) else {"status": "mismatch", "hess": H.tolist(), "ref": Hx.tolist()}
            except Exception as e:
                r = {"status": "rejected", "err": type(e).__name__ + ": " + str(e)[:160].replace("\n", " ")}
            d = out["stats"].setdefault(ck, {})
            d[r["status"]] = d.get(r["status"], 0) + 1
            if r["status"] == "rejected":
                e = out["stats"].setdefault("_reject_reasons", {})
                e[r["err"][:70]] = e.get(r["err"][:70], 0) + 1
            elif r["status"] != "ok":
                out["results"].append({"si": item["si"], "config": ck, "x": xval, "result": r})
    print(json.dumps(out))


main()
