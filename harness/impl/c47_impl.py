"""Runs pennylane.estimator.estimate / WireResourceManager on the JSON cases from stdin; prints one
JSON line: the observations, the workflows translated to model operators (codes for the distinct
non-symbolic CompressedResourceOps) and the ORACLE TABLE: what the operator classes' own
resource_decomp / adjoint_ / controlled_ / pow_resource_decomp return for every operator reachable
from the workflows.  The table is obtained by calling the class methods directly, never through
estimate.py's dispatch (_get_resource_decomposition etc.), which is the code under check."""
import json
import sys

import pennylane.estimator as qre
from pennylane.estimator.ops.op_math.symbolic import Adjoint, Controlled, Pow
from pennylane.estimator.resource_operator import GateCount, ResourceOperator
from pennylane.estimator.wires_manager import Allocate, Deallocate, WireResourceManager

CONFIG = qre.ResourceConfig()          # estimate() uses a fresh default config when config=None
LIMIT = 20000

# ------------------------------------------------------------------ operator <-> model term
CODE = {}      # CompressedResourceOp -> code
CMPR = []      # code -> CompressedResourceOp
NAMES = {}     # tracking name (str) -> name code


def code_of(c):
    if c not in CODE:
        CODE[c] = len(CMPR)
        CMPR.append(c)
        NAMES.setdefault(c.name, len(NAMES))
    return CODE[c]


def as_int(x):
    if isinstance(x, bool) or int(x) != x:
        raise ValueError(f"non-integer count {x!r}")
    return int(x)


def conv(c):
    """CompressedResourceOp -> model rop (nested list)"""
    t = c.op_type
    if t is Adjoint:
        return ["a", conv(c.params["base_cmpr_op"])]
    if t is Controlled:
        return ["c", conv(c.params["base_cmpr_op"]), as_int(c.params["num_ctrl_wires"]),
                as_int(c.params["num_zero_ctrl"])]
    if t is Pow:
        return ["p", conv(c.params["base_cmpr_op"]), as_int(c.params["pow_z"])]
    return ["b", code_of(c)]


def acts(lst):
    out = []
    for a in lst:
        if isinstance(a, GateCount):
            out.append(["g", conv(a.gate), as_int(a.count)])
        elif isinstance(a, Allocate):
            out.append(["A", as_int(a.num_wires)])
        elif isinstance(a, Deallocate):
            out.append(["D", as_int(a.num_wires)])
        else:
            raise ValueError(f"unknown action {a!r}")
    return out


def params_of(c):
    """resource params with None-valued entries replaced by the configured precisions
    (written independently of estimate._update_params_from_config)"""
    cfg = CONFIG.resource_op_precisions.get(c.op_type, {})
    out = {}
    for k, v in c.params.items():
        if v is None and k in cfg:
            continue
        out[k] = v
    for k, v in cfg.items():
        if k not in out:
            out[k] = v
    return out


def overridden(cls, meth):
    return getattr(cls, meth).__func__ is not getattr(ResourceOperator, meth).__func__


def guarded(f):
    try:
        return acts(f())
    except ValueError:
        raise
    except Exception:          # ResourcesUndefinedError and whatever else the class raises
        return "raise"


T_DEC, T_ADJ, T_CTL, T_POW = {}, {}, {}, {}


def q_decomp(code):
    if code not in T_DEC:
        c = CMPR[code]
        T_DEC[code] = guarded(lambda: c.op_type.resource_decomp(**params_of(c)))
    return T_DEC[code]


def q_adj(code):
    if code not in T_ADJ:
        c = CMPR[code]
        if overridden(c.op_type, "adjoint_resource_decomp"):
            T_ADJ[code] = guarded(lambda: c.op_type.adjoint_resource_decomp(target_resource_params=params_of(c)))
        else:
            T_ADJ[code] = "none"
    return T_ADJ[code]


def q_ctl(code, n, z):
    k = (code, n, z)
    if k not in T_CTL:
        c = CMPR[code]
        if overridden(c.op_type, "controlled_resource_decomp"):
            T_CTL[k] = guarded(lambda: c.op_type.controlled_resource_decomp(
                target_resource_params=params_of(c), num_ctrl_wires=n, num_zero_ctrl=z))
        else:
            T_CTL[k] = "none"
    return T_CTL[k]


def q_pow(code, p):
    k = (code, p)
    if k not in T_POW:
        c = CMPR[code]
        if overridden(c.op_type, "pow_resource_decomp"):
            T_POW[k] = guarded(lambda: c.op_type.pow_resource_decomp(target_resource_params=params_of(c), pow_z=p))
        else:
            T_POW[k] = "none"
    return T_POW[k]


# ------------------------------------------------------------------ closure of the oracle queries
# Enumerates the queries the model's get_decomp can make; it only decides WHICH class methods get
# recorded (a query the model makes that is absent here shows up as DMissing = a loud failure).
X_CODE = code_of(qre.X.resource_rep())
MEMO = {}


def key(r):
    return json.dumps(r)


def gd(r):
    k = key(r)
    if k in MEMO:
        return MEMO[k]
    MEMO[k] = None
    kind, res = r[0], None
    if kind == "b":
        d = q_decomp(r[1])
        res = None if d == "raise" else d
    else:
        b = r[1]
        ov = "none"
        if b[0] == "b":
            if kind == "a":
                ov = q_adj(b[1])
            elif kind == "c":
                ov = q_ctl(b[1], r[2], r[3])
            else:
                ov = q_pow(b[1], r[2])
        if ov != "none":
            res = None if ov == "raise" else ov
        elif kind == "a" and b[0] == "a":
            res = [["g", b[1], 1]]
        elif kind == "c" and b[0] == "c":
            res = [["g", ["c", b[1], b[2] + r[2], b[3] + r[3]], 1]]
        elif kind == "p" and b[0] == "p":
            res = [["g", ["p", b[1], r[2] * b[2]], 1]]
        else:
            base = gd(b)
            if base is None:
                res = None
            elif kind == "a":
                res = [(["g", ["a", a[1]], a[2]] if a[0] == "g" else ["D" if a[0] == "A" else "A", a[1]])
                       for a in reversed(base)]
            elif kind == "c":
                res = ([["g", ["b", X_CODE], 2 * r[3]]] if r[3] != 0 else []) + \
                      [(["g", ["c", a[1], r[2], 0], a[2]] if a[0] == "g" else a) for a in base]
            else:
                res = None if r[2] < 0 else [["g", b, r[2]]]
    MEMO[k] = res
    return res


def close(roots):
    work = list(roots)
    seen = set()
    while work:
        r = work.pop()
        k = key(r)
        if k in seen:
            continue
        seen.add(k)
        if len(seen) > LIMIT:
            raise RuntimeError("oracle closure too large")
        l = gd(r)
        if r[0] != "b":
            work.append(r[1])
        for a in l or []:
            if a[0] == "g":
                work.append(a[1])


# ------------------------------------------------------------------ building real operators
NW = {}


def build(spec, wire_start=None):
    """spec -> ResourceOperator instance.  wire_start: label of the first wire or None (no labels)."""
    if "c" in spec:
        cls = getattr(qre, spec["c"])
        kw = dict(spec.get("kw", {}))
        if wire_start is None:
            return cls(**kw)
        k = json.dumps([spec["c"], kw], sort_keys=True)
        if k not in NW:                 # first built outside any queuing context (see run_case)
            NW[k] = cls(**kw).num_wires
        n = NW[k]
        return cls(**kw, wires=list(range(wire_start, wire_start + n)))
    if "adj" in spec:
        return qre.Adjoint(build(spec["adj"], wire_start))
    if "pow" in spec:
        return qre.Pow(build(spec["pow"], wire_start), spec["p"])
    base = build(spec["ctrl"], wire_start)
    w = None
    if spec.get("cw") is not None and wire_start is not None:
        w = list(range(spec["cw"], spec["cw"] + spec["n"]))
    return qre.Controlled(base, spec["n"], spec["z"], wires=w)


def wires_of(op):
    w = getattr(op, "wires", None)
    return [as_int(x) for x in w] if w else []


def observe(res):
    return {"gt": [[conv(c), as_int(v)] for c, v in res.gate_types.items()],
            "z": as_int(res.zeroed_wires), "a": as_int(res.any_state_wires), "algo": as_int(res.algo_wires)}


def run_case(c):
    gs = None if c["gs"] is None else set(c["gs"])
    kw = dict(gate_set=gs, zeroed_wires=c["z"], any_state_wires=c["a"], tight_wires_budget=c["tight"])
    path = c["path"]
    out = {}
    if path == "q":
        made = []

        def circuit():
            for s in c["ops"]:
                made.append(build(s["op"], s.get("w")))
        # translate first (on separately built instances; construction is deterministic)
        insts = [build(s["op"], s.get("w")) for s in c["ops"]]
        out["wf"] = [{"r": conv(o.resource_rep_from_op()), "w": wires_of(o), "nw": as_int(o.num_wires or 0)}
                     for o in insts]
        run = lambda: qre.estimate(circuit, **kw)()
    elif path == "r":
        insts = [build(s["op"], None) for s in c["ops"]]
        gt = {}
        for o, k in zip(insts, c["counts"]):
            gt[o.resource_rep_from_op()] = k       # harness guarantees distinct operators
        out["wf"] = [[conv(k), v] for k, v in gt.items()]
        out["algo"] = c["algo"]
        resources = qre.Resources(zeroed_wires=0, any_state_wires=0, algo_wires=c["algo"], gate_types=gt)
        run = lambda: qre.estimate(resources, **kw)
    else:
        o = build(c["ops"][0]["op"], None)
        out["wf"] = {"r": conv(o.resource_rep_from_op()), "nw": as_int(o.num_wires or 0)}
        run = lambda: qre.estimate(o, **kw)
    try:
        out["res"] = observe(run())
    except Exception as ex:  # pylint: disable=broad-except
        out["res"] = "ERR"
        out["err"] = type(ex).__name__
    return out


def run_hist(h):
    m = WireResourceManager(h["z"], h["a"], h["algo"], h["tight"])
    idx = -1
    for i, (k, n) in enumerate(h["ops"]):
        try:
            if k == "g":
                m.grab_zeroed(n)
            else:
                m.free_wires(n)
        except ValueError:
            idx = i
            break
    return [idx, m.zeroed, m.any_state, m.algo_wires, m.total_wires]


def roots_of(o):
    wf = o["wf"]
    if isinstance(wf, dict):
        return [wf["r"]]
    return [e["r"] if isinstance(e, dict) else e[0] for e in wf]


def main():
    payload = json.load(sys.stdin)
    outs = [run_case(c) for c in payload.get("cases", [])]
    hists = [run_hist(h) for h in payload.get("hists", [])]
    roots = []
    for o in outs:
        roots.extend(roots_of(o))
        if o["res"] != "ERR":
            roots.extend(k for k, _ in o["res"]["gt"])
    close(roots)
    # names asked for by the harness (gate-set strings) that no operator carries get no code here
    table = {"names": NAMES,
             "base": [{"code": i, "name": NAMES[c.name], "sname": c.name, "nw": c.num_wires} for i, c in enumerate(CMPR)],
             "dec": [[k, v] for k, v in sorted(T_DEC.items())],
             "adj": [[k, v] for k, v in sorted(T_ADJ.items())],
             "ctl": [[list(k), v] for k, v in sorted(T_CTL.items())],
             "pow": [[list(k), v] for k, v in sorted(T_POW.items())],
             "x": X_CODE}
    print(json.dumps({"cases": outs, "hists": hists, "table": table}))


main()
