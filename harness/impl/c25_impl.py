"""Runs pennylane.noise (fold_global, add_noise, insert, *_extrapolate) on the JSON cases from stdin;
prints one JSON line of observations.

Gate encoding (both directions): [kind, name, wires, pcode, adj_depth]
  kind "b" = ordinary operator, "c" = Channel instance; parameter value = pcode/64 (0 for
  parameter-free gates; for BasisState pcode = the basis bits read as a binary number)."""
import json
import sys

import numpy as np
import pennylane as qp
from pennylane.core.operator import Channel, Operation
from pennylane.ops.op_math import Adjoint
from pennylane.tape import QuantumScript

PARAM_GATES = {"RX", "RY", "RZ", "PhaseShift", "CRX", "IsingXX",
               "AmplitudeDamping", "PhaseDamping", "DepolarizingChannel", "BitFlip", "PhaseFlip"}


def cls_of(name):
    if name == "Operation":
        return Operation
    if name == "Channel":
        return Channel
    return getattr(qp, name)


def mk_gate(g):
    kind, name, wires, pc, adj = g
    c = cls_of(name)
    if name == "BasisState":
        bits = [(pc >> (len(wires) - 1 - i)) & 1 for i in range(len(wires))]
        op = c(np.array(bits), wires=wires)
    elif name in PARAM_GATES:
        op = c(pc / 64, wires=wires)
    else:
        op = c(wires=wires)
    for _ in range(adj):
        op = qp.adjoint(op)
    return op


def enc(op):
    a = 0
    while isinstance(op, Adjoint):
        op = op.base
        a += 1
    kind = "c" if isinstance(op, Channel) else "b"
    if op.name == "BasisState":
        pc = int("".join(str(int(b)) for b in np.asarray(op.parameters[0]).tolist()) or "0", 2)
    elif op.num_params == 0:
        pc = 0
    else:
        v = float(op.parameters[0]) * 64
        pc = int(v) if v == int(v) else 999983
    return [kind, op.name, [int(w) for w in op.wires], pc, a]


def tape_of(ops, mw=()):
    ms = [qp.expval(qp.Z(w)) for w in mw] or [qp.state()]
    return QuantumScript([mk_gate(g) for g in ops], ms)


def first_param(op):
    return float(op.parameters[0]) if op.parameters else 0.0


def form_of(name, form):
    if form == "str":
        return name
    if form == "cls":
        return cls_of(name)
    n = cls_of(name).num_wires
    return mk_gate(["b", name, list(range(7, 7 + n)), 8, 0])


def mk_cond(c):
    t = c[0]
    if t == "op_eq":
        return qp.noise.op_eq(form_of(c[1], c[2]))
    if t == "op_in":
        return qp.noise.op_in([form_of(n, f) for n, f in c[1]])
    if t == "wires_in":
        return qp.noise.wires_in(c[1])
    if t == "wires_eq":
        return qp.noise.wires_eq(c[1] if len(c[1]) > 1 or c[2] else c[1][0])
    if t == "param_lt":
        return qp.BooleanFn(lambda op, t_=c[1]: first_param(op) < t_ / 64)
    if t == "and":
        return mk_cond(c[1]) & mk_cond(c[2])
    if t == "or":
        return mk_cond(c[1]) | mk_cond(c[2])
    if t == "xor":
        return mk_cond(c[1]) ^ mk_cond(c[2])
    if t == "not":
        return ~mk_cond(c[1])
    raise KeyError(t)


def mk_single(kind, name, pc, w):
    c = cls_of(name)
    return c(pc / 64, wires=w) if name in PARAM_GATES else c(wires=w)


def mk_noise(f):
    if f[0] == "partial":
        return qp.noise.partial_wires(cls_of(f[1]), f[2] / 64)
    items = f[1]

    def custom(op, **kwargs):
        for it in items:
            if it[0] == "self":
                qp.apply(op)
            elif it[0] == "each":
                for w in op.wires:
                    mk_single(it[1], it[2], it[3], w)
            elif it[0] == "fixed":
                mk_gate(it[1])
            elif it[0] == "copy":
                cls_of(it[1])(first_param(op), wires=op.wires[0])
    return custom


def mk_model(model):
    return qp.NoiseModel({mk_cond(c): mk_noise(f) for c, f in model})


def insert_args(c):
    t = c["tmpl"]
    if t["func"]:
        items = t["items"]

        def qf(*args, wires):
            for (kind, name, pc), _ in zip(items, args):
                mk_single(kind, name, pc, wires)
        op, op_args = qf, [pc / 64 for _, _, pc in items]
    else:
        kind, name, pc = t["items"][0]
        op = cls_of(name)
        op_args = pc / 64 if name in PARAM_GATES else []
    pos = c["pos"]
    if isinstance(pos, list):
        pos = [cls_of(n) for n in pos]
        if len(pos) == 1 and c.get("single"):
            pos = pos[0]
    return op, op_args, pos


def unitary(ops, nw):
    if not ops:
        return np.eye(2 ** nw)
    return qp.matrix(QuantumScript(ops), wire_order=list(range(nw)))


def run(c):
    k = c["kind"]
    if k == "fold":
        tape = tape_of(c["ops"])
        s = c["p"] / c["q"] if c["q"] != 1 else (c["p"] if c.get("int") else float(c["p"]))
        [nt], fn = qp.noise.fold_global(tape, s)
        r = {"ops": [enc(o) for o in nt.operations]}
        if c.get("unitary"):
            nw = c["nw"]
            r["udiff"] = float(np.max(np.abs(unitary(nt.operations, nw) - unitary(tape.operations, nw))))
        return r
    if k == "noise":
        tape = tape_of(c["ops"], c.get("mw", ()))
        [nt], fn = qp.noise.add_noise(tape, mk_model(c["model"]))
        return {"ops": [enc(o) for o in nt.operations]}
    if k == "insert":
        tape = tape_of(c["ops"], c.get("mw", ()))
        op, op_args, pos = insert_args(c)
        [nt], fn = qp.noise.insert(tape, op, op_args, position=pos, before=c["before"])
        return {"ops": [enc(o) for o in nt.operations]}
    if k == "zero":
        nw = c["nw"]
        tape = QuantumScript([mk_gate(g) for g in c["ops"]], [qp.probs(wires=list(range(nw)))])
        if c["mode"] == "noise":
            [nt], fn = qp.noise.add_noise(tape, mk_model(c["model"]))
        else:
            op, op_args, pos = insert_args(c)
            [nt], fn = qp.noise.insert(tape, op, op_args, position=pos, before=c["before"])
        dev = qp.device("default.mixed", wires=nw)
        r0, r1 = dev.execute([tape, nt])
        return {"diff": float(np.max(np.abs(np.asarray(r0) - np.asarray(r1)))),
                "inserted": len(nt.operations) - len(tape.operations)}
    if k == "extrap":
        xs = np.array([n / d for n, d in c["xs"]])
        ys = np.array([n / d for n, d in c["ys"]])
        if c["fn"] == "richardson":
            r = qp.noise.richardson_extrapolate(xs, ys)
        else:
            r = qp.noise.poly_extrapolate(xs, ys, c["order"])
        n, d = float(r).as_integer_ratio()
        return {"res": [n, d]}
    if k == "expo":
        xs = np.array(c["xs"])
        ys = c["a"] + c["b"] * np.exp(c["c"] * xs)
        if c["asym"]:
            r = qp.noise.exponential_extrapolate(xs, ys, asymptote=c["a"])
        else:
            r = qp.noise.exponential_extrapolate(xs, ys)
        return {"res": float(r)}
    raise KeyError(k)


out = []
for c in json.load(sys.stdin)["cases"]:
    try:
        out.append(run(c))
    except ValueError:
        out.append("ERR")
print(json.dumps(out))
