"""C03: random nested operator expressions with formal parameters: implementation matrix vs reference tree."""
import sys, json, random, math, itertools
sys.path.insert(0, "/verif/harness")
from qrules import *
import numpy as np

req = json.load(sys.stdin)
rng = random.Random(req["seed"])
tier = req["tier"]
install_patches()
HZ = 4
LEAVES = [("RX", 1, 1), ("RY", 1, 1), ("RZ", 1, 1), ("PhaseShift", 1, 1), ("Hadamard", 0, 1), ("PauliX", 0, 1), ("PauliY", 0, 1), ("PauliZ", 0, 1), ("S", 0, 1), ("T", 0, 1),
          ("SX", 0, 1), ("CNOT", 0, 2), ("CZ", 0, 2), ("SWAP", 0, 2), ("CRX", 1, 2), ("CRZ", 1, 2), ("IsingXX", 1, 2), ("IsingZZ", 1, 2), ("ISWAP", 0, 2), ("Toffoli", 0, 3), ("Rot", 3, 1)]
SCALARS = [Fr(1, 2), Fr(-3, 4), Fr(2), 1j, -0.5j, Fr(1, 4) + 0.5j]


class Node:
    def __init__(self, kind, **kw):
        self.kind = kind; self.__dict__.update(kw)


def gen(depth, n, nvars):
    r = rng.random()
    if depth == 0 or r < 0.25:
        name, npar, nw = rng.choice([l for l in LEAVES if l[2] <= n])
        return Node("leaf", name=name, vars=[rng.randrange(nvars) for _ in range(npar)], wires=rng.sample(range(n), nw))
    k = rng.choice(["adj", "pow", "ctrl", "ctrl2", "prod", "prod", "sum", "sprod", "cob"])
    if k == "ctrl2":
        # nested controls with DIFFERENT control values on a composite base (flattening of Controlled(Controlled(.)))
        e = gen(0, n, nvars) if rng.random() < 0.4 else gen(min(depth - 1, 1), n, nvars)
        if rng.random() < 0.6:
            f = gen(0, n, nvars)
            e = Node(rng.choice(["prod", "sum"]), a=e, b=f)
        free = [w for w in range(n) if w not in wires_of(e)]
        if len(free) < 2:
            return e
        w1, w2 = rng.sample(free, 2)
        b = rng.random() < 0.5
        return Node("ctrl", cw=[w1], cv=[b], e=Node("ctrl", cw=[w2], cv=[not b], e=e))
    if k == "adj":
        return Node("adj", e=gen(depth - 1, n, nvars))
    if k == "pow":
        return Node("pow", z=rng.choice([0, 1, 2, 3, -1, -2]), e=gen(depth - 1, n, nvars))
    if k == "ctrl":
        e = gen(depth - 1, n, nvars)
        free = [w for w in range(n) if w not in wires_of(e)]
        if not free:
            return e
        cw = rng.sample(free, rng.randint(1, min(2, len(free))))
        return Node("ctrl", cw=cw, cv=[rng.random() < 0.6 for _ in cw], e=e)
    if k in ("prod", "sum"):
        if rng.random() < 0.5:
            return Node(k + "n", ch=[gen(depth - 1 if rng.random() < 0.5 else 0, n, nvars) for _ in range(rng.randint(3, 4))])
        return Node(k, a=gen(depth - 1, n, nvars), b=gen(depth - 1, n, nvars))
    if k == "sprod":
        return Node("sprod", c=rng.choice(SCALARS), e=gen(depth - 1, n, nvars))
    return Node("cob", u=gen(depth - 1, n, nvars), v=gen(depth - 1, n, nvars))


def wires_of(t):
    if t.kind == "leaf":
        return set(t.wires)
    if t.kind == "ctrl":
        return set(t.cw) | wires_of(t.e)
    if t.kind in ("prod", "sum"):
        return wires_of(t.a) | wires_of(t.b)
    if t.kind in ("prodn", "sumn"):
        return set().union(*[wires_of(c) for c in t.ch])
    if t.kind == "cob":
        return wires_of(t.u) | wires_of(t.v)
    return wires_of(t.e)


def build(t, params, lazy=True):
    """PennyLane operator for the tree with `params` (list indexed by variable)"""
    if t.kind == "leaf":
        cls = getattr(qp, t.name)
        return cls(*[params[v] for v in t.vars], wires=list(t.wires))
    if t.kind == "adj":
        return qp.adjoint(build(t.e, params), lazy=lazy)
    if t.kind == "pow":
        return qp.pow(build(t.e, params), t.z, lazy=lazy)
    if t.kind == "ctrl":
        return qp.ctrl(build(t.e, params), control=list(t.cw), control_values=[bool(b) for b in t.cv])
    if t.kind == "prod":
        return qp.prod(build(t.a, params), build(t.b, params), lazy=lazy)
    if t.kind == "sum":
        return qp.sum(build(t.a, params), build(t.b, params), lazy=lazy)
    if t.kind == "prodn":
        return qp.prod(*[build(c, params) for c in t.ch], lazy=lazy)
    if t.kind == "sumn":
        return qp.sum(*[build(c, params) for c in t.ch], lazy=lazy)
    if t.kind == "sprod":
        c = t.c if not isinstance(t.c, Fr) else float(t.c)
        return qp.s_prod(c, build(t.e, params), lazy=lazy)
    return qp.change_op_basis(build(t.u, params), build(t.v, params))


def ref_num(t, th, n):
    I = np.eye(2 ** n)
    if t.kind == "leaf":
        return np.asarray(qp.matrix(getattr(qp, t.name)(*[th[v] for v in t.vars], wires=list(t.wires)), wire_order=list(range(n))))
    if t.kind == "adj":
        return ref_num(t.e, th, n).conj().T
    if t.kind == "pow":
        M = ref_num(t.e, th, n)
        return np.linalg.matrix_power(M if t.z >= 0 else np.linalg.inv(M), abs(t.z))
    if t.kind == "ctrl":
        P = np.diag([1.0 if all(((i >> (n - 1 - w)) & 1) == int(v) for w, v in zip(t.cw, t.cv)) else 0.0 for i in range(2 ** n)])
        return P @ ref_num(t.e, th, n) + (I - P)
    if t.kind == "prod":
        return ref_num(t.a, th, n) @ ref_num(t.b, th, n)
    if t.kind == "sum":
        return ref_num(t.a, th, n) + ref_num(t.b, th, n)
    if t.kind == "prodn":
        M = I
        for c in t.ch:
            M = M @ ref_num(c, th, n)
        return M
    if t.kind == "sumn":
        return sum(ref_num(c, th, n) for c in t.ch)
    if t.kind == "sprod":
        return complex(t.c) * ref_num(t.e, th, n)
    U = ref_num(t.u, th, n)
    return U.conj().T @ ref_num(t.v, th, n) @ U


def gal(t, leafmats):
    if t.kind == "leaf":
        return f"(OLeaf {g_nats(t.wires)} {g_mat(leafmats[id(t)])})"
    if t.kind == "adj":
        return f"(OAdj {gal(t.e, leafmats)})"
    if t.kind == "pow":
        inner = gal(t.e, leafmats)
        return f"(OPow {abs(t.z)}%nat {inner})" if t.z >= 0 else f"(OPow {abs(t.z)}%nat (OAdj {inner}))"
    if t.kind == "ctrl":
        return f"(OCtrl {g_nats(t.cw)} [{'; '.join('true' if b else 'false' for b in t.cv)}] {gal(t.e, leafmats)})"
    if t.kind in ("prod", "sum"):
        return f"({'OProd' if t.kind == 'prod' else 'OSum'} {gal(t.a, leafmats)} {gal(t.b, leafmats)})"
    if t.kind in ("prodn", "sumn"):
        acc = gal(t.ch[-1], leafmats)
        for c in reversed(t.ch[:-1]):
            acc = f"({'OProd' if t.kind == 'prodn' else 'OSum'} {gal(c, leafmats)} {acc})"
        return acc
    if t.kind == "sprod":
        return f"(OSProd {Sym.of(t.c).gallina()} {gal(t.e, leafmats)})"
    u = gal(t.u, leafmats)
    return f"(OProd (OAdj {u}) (OProd {gal(t.v, leafmats)} {u}))"


def leaves(t):
    if t.kind == "leaf":
        return [t]
    out = []
    for k in ("e", "a", "b", "u", "v"):
        if hasattr(t, k):
            out += leaves(getattr(t, k))
    for c in getattr(t, "ch", []):
        out += leaves(c)
    return out


def descr(t):
    if t.kind == "leaf":
        return f"{t.name}{t.vars}@{t.wires}"
    if t.kind == "pow":
        return f"pow({descr(t.e)},{t.z})"
    if t.kind == "ctrl":
        return f"ctrl({descr(t.e)},{t.cw},{[int(b) for b in t.cv]})"
    if t.kind == "sprod":
        return f"sprod({t.c},{descr(t.e)})"
    if t.kind in ("prod", "sum"):
        return f"{t.kind}({descr(t.a)},{descr(t.b)})"
    if t.kind in ("prodn", "sumn"):
        return f"{t.kind}({','.join(descr(c) for c in t.ch)})"
    if t.kind == "cob":
        return f"cob({descr(t.u)},{descr(t.v)})"
    return f"adj({descr(t.e)})"


def maptree(t, sigma):
    import copy
    t2 = copy.copy(t)
    if t.kind == "leaf":
        t2.wires = [sigma[w] for w in t.wires]
    if t.kind == "ctrl":
        t2.cw = [sigma[w] for w in t.cw]
    for k in ("e", "a", "b", "u", "v"):
        if hasattr(t, k):
            setattr(t2, k, maptree(getattr(t, k), sigma))
    if hasattr(t, "ch"):
        t2.ch = [maptree(c, sigma) for c in t.ch]
    return t2


items, oblig = [], []
ncase = 40 if tier == "quick" else 400
def _L(name, vars, wires):
    return Node("leaf", name=name, vars=vars, wires=wires)


# fixed regression expressions, evaluated before the random ones: nested controls with different control values on
# composite / legacy bases (flattening of Controlled(Controlled(.)) must keep each value on its wire)
CORPUS = [
    (4, Node("ctrl", cw=[0], cv=[True], e=Node("ctrl", cw=[1], cv=[False], e=Node("prod", a=_L("RX", [0], [2]), b=_L("PauliY", [], [3]))))),
    (4, Node("ctrl", cw=[3], cv=[False], e=Node("ctrl", cw=[0], cv=[True], e=Node("sum", a=_L("RZ", [0], [1]), b=_L("SWAP", [], [1, 2]))))),
    (4, Node("ctrl", cw=[2], cv=[False], e=Node("ctrl", cw=[3], cv=[True], e=Node("sprod", c=Fr(1, 2), e=_L("CNOT", [], [0, 1]))))),
    (4, Node("ctrl", cw=[1, 3], cv=[True, False], e=Node("ctrl", cw=[0], cv=[False], e=Node("adj", e=Node("prod", a=_L("S", [], [2]), b=_L("RY", [1], [2])))))),
    # adjoint of a change-of-basis composition whose compute operator is NOT self-inverse and does not commute with the target
    (1, Node("adj", e=Node("cob", u=_L("RX", [0], [0]), v=_L("S", [], [0])))),
    (2, Node("adj", e=Node("cob", u=_L("RY", [0], [0]), v=_L("CNOT", [], [0, 1])))),
    (3, Node("ctrl", cw=[2], cv=[True], e=Node("adj", e=Node("cob", u=Node("prod", a=_L("RX", [0], [1]), b=_L("RY", [1], [0])), v=_L("CRZ", [1], [0, 1]))))),
]
for ci in range(ncase):
    n = rng.choice([1, 2, 3, 3, 4])
    nvars = 2
    t = gen(rng.choice([1, 2, 2, 3] if tier == "quick" else [1, 2, 3, 3, 4]), n, nvars)
    if ci < len(CORPUS):
        n, t = CORPUS[ci]
    it = {"expr": descr(t), "n": n, "status": "ok", "detail": "", "kinds": []}
    items.append(it)
    # numeric statement (incl. simplify and map_wires) at random / boundary points
    try:
        for th in ([rng.uniform(-6, 6) for _ in range(nvars)], [0.0, math.pi], [2 * math.pi, -math.pi]):
            op = build(t, th, lazy=rng.random() < 0.7)
            R = ref_num(t, th, n)
            wo = list(range(n))
            M = np.asarray(qp.matrix(op, wire_order=wo))
            bad = None
            if not np.allclose(M, R, atol=1e-8):
                bad = "matrix"
            else:
                try:
                    Ms = np.asarray(qp.matrix(qp.simplify(op), wire_order=wo))
                    if not np.allclose(Ms, R, atol=1e-8):
                        bad = "simplify"
                except qp.operation.MatrixUndefinedError:
                    # simplify() may return a Sum of products containing ChangeOpBasis (has_matrix False): qp.matrix is then
                    # undefined for the Sum although every summand has one; counted, not a violation of the property
                    it.setdefault("kinds", []).append("simplify-no-matrix")
                except Exception as e:
                    bad = f"simplify raised {type(e).__name__}: {str(e)[:80]}"
                sg = list(range(n)); rng.shuffle(sg)
                mapped = qp.map_wires(op, {i: sg[i] for i in range(n)})
                Mm = np.asarray(qp.matrix(mapped, wire_order=wo))
                Rm = ref_num(maptree(t, sg), th, n)
                if bad is None and not np.allclose(Mm, Rm, atol=1e-8):
                    bad = "map_wires"
                if bad is None:
                    # consumers of cached representations of the relabelled operator (a stale cache keeps the old wires)
                    try:
                        if not np.allclose(np.asarray(qp.matrix(qp.simplify(mapped), wire_order=wo)), Rm, atol=1e-8):
                            bad = "simplify after map_wires"
                    except qp.operation.MatrixUndefinedError:
                        it.setdefault("kinds", []).append("simplify-no-matrix")
                    except Exception as e:
                        bad = f"simplify after map_wires raised {type(e).__name__}: {str(e)[:80]}"
            if bad:
                it["numeric_fail"] = {"thetas": th, "what": bad, "operator": repr(op)[:200]}
                break
    except qp.operation.MatrixUndefinedError:
        it["status"], it["detail"] = "no-matrix", "the implementation documents no matrix for this expression (MatrixUndefinedError)"
        continue
    except np.linalg.LinAlgError:
        # a negative power of an operator that is singular at the sampled point: the inverse is undefined, nothing to compare
        it["status"], it["detail"] = "no-matrix", "negative power of a singular operator (inverse undefined at the sampled parameters)"
        continue
    except Exception as e:
        it["numeric_fail"] = {"what": f"raised {type(e).__name__}: {str(e)[:150]}"}
    # symbolic obligations
    try:
        set_cfg(8, 8, nvars)
        params = [var_array(j) for j in range(nvars)]
        lm = {}
        for lf in leaves(t):
            lop = getattr(qp, lf.name)(*[params[v] for v in lf.vars], wires=list(range(len(lf.wires))))
            lm[id(lf)] = op_matrix_sym(lop, strict=True)
        op = build(t, params)
        wo = list(range(n))
        Mi = mat_to_sym(qp.matrix(op, wire_order=wo))
        oblig.append({"name": f"ob_{len(oblig)}", "kind": "arith", "expr": it["expr"], "stmt": f"exp_ok {HZ}%Z {n}%nat {gal(t, lm)} {g_mat(Mi)} = true"})
        it["kinds"].append("arith")
        try:
            Ms = mat_to_sym(qp.matrix(qp.simplify(op), wire_order=wo))
            oblig.append({"name": f"ob_{len(oblig)}", "kind": "simplify", "expr": it["expr"], "stmt": f"meqb {HZ}%Z {g_mat(Ms)} {g_mat(Mi)} = true"})
            it["kinds"].append("simplify")
        except NotExtractable:
            pass
        except Exception as e:
            it.setdefault("skipped", []).append(f"simplify: {type(e).__name__}: {str(e)[:80]}")
        sg = list(range(n)); rng.shuffle(sg)
        if sg != list(range(n)):
            Mm = mat_to_sym(qp.matrix(qp.map_wires(op, {i: sg[i] for i in range(n)}), wire_order=wo))
            t2 = maptree(t, sg)
            lm2 = {id(a): lm[id(b)] for a, b in zip(leaves(t2), leaves(t))}
            oblig.append({"name": f"ob_{len(oblig)}", "kind": "map_wires", "expr": it["expr"], "stmt": f"exp_ok {HZ}%Z {n}%nat {gal(t2, lm2)} {g_mat(Mm)} = true"})
            it["kinds"].append("map_wires")
    except NotExtractable as e:
        it["status"], it["detail"] = "notex", str(e)[:200]
    except Exception as e:
        # PennyLane's batching paths are not always polymorphic in the scalar type (our formal parameters carry a
        # batch dimension of 1): translator limitation, the expression stays covered by the numeric check above
        it["status"], it["detail"] = "notex", f"{type(e).__name__}: {str(e)[:200]}"
# ---- linear combinations with repeated / cancelling terms (numeric; simplify must return the same linear map)
def _lc_cases():
    P = lambda: qp.Projector([1], wires=[2])
    Hm = lambda: qp.Hermitian(np.array([[1.0, 0.5], [0.5, -1.0]]), wires=0)
    yield "LC[.5 P,.5 P]", lambda: qp.ops.LinearCombination([0.5, 0.5], [P(), P()])
    yield "LC[P,-P,I]", lambda: qp.ops.LinearCombination([1.0, -1.0, 1.0], [qp.Z(0) @ P(), qp.Z(0) @ P(), qp.I(0) @ qp.I(1)])
    yield "LC[P,P,2 Herm]", lambda: qp.ops.LinearCombination([1.0, 1.0, 2.0], [P(), P(), Hm()])
    yield "LC[.25 H,.75 H]", lambda: qp.ops.LinearCombination([0.25, 0.75], [Hm(), Hm()])
    yield "LC[X,Z,X]", lambda: qp.ops.LinearCombination([1.0, 2.0, -0.5], [qp.X(0), qp.Z(1), qp.X(0)])
    yield "LC[ZP,XZ,-ZP]", lambda: qp.ops.LinearCombination([1.0, 0.5, -1.0], [qp.Z(0) @ P(), qp.X(0) @ qp.Z(1), qp.Z(0) @ P()])
    yield "Sum[.5 P,.5 P]", lambda: qp.sum(qp.s_prod(0.5, P()), qp.s_prod(0.5, P()))


for name, mk in _lc_cases():
    it = {"expr": name, "n": 3, "status": "regression", "detail": "numeric regression block (not an obligation)", "kinds": ["lc-simplify"]}
    items.append(it)
    try:
        op = mk()
        M = np.asarray(qp.matrix(op, wire_order=[0, 1, 2]))
        try:
            S = op.simplify()
            Ms = np.asarray(qp.matrix(S, wire_order=[0, 1, 2]))
            if not np.allclose(M, Ms, atol=1e-10):
                it["numeric_fail"] = {"what": "simplify", "operator": repr(op)[:200], "simplified": repr(S)[:200]}
        except Exception as e:
            it["numeric_fail"] = {"what": f"simplify raised {type(e).__name__}: {str(e)[:80]}", "operator": repr(op)[:200]}
    except Exception as e:
        it["numeric_fail"] = {"what": f"raised {type(e).__name__}: {str(e)[:150]}"}
# ---- wrappers with a cached Pauli representation, relabelled (numeric; every consumer of the relabelled operator must see the new wires)
def _map_cases():
    yield "sprod(.5, X0@Z1)", lambda: qp.s_prod(0.5, qp.X(0) @ qp.Z(1))
    yield "pow(X0@Y1, 3)", lambda: qp.pow(qp.X(0) @ qp.Y(1), 3)
    yield "adjoint(1j*Y1)", lambda: qp.adjoint(qp.s_prod(1j, qp.Y(1)))
    yield "exp(.5*X0, .3j)", lambda: qp.exp(qp.s_prod(0.5, qp.X(0)), 0.3j)
    yield "sum(X0, .5*Z1)", lambda: qp.sum(qp.X(0), qp.s_prod(0.5, qp.Z(1)))
    yield "prod(X0, Y1)@Z2", lambda: qp.prod(qp.X(0), qp.Y(1)) @ qp.Z(2)
    yield "sprod(2, adjoint(X0@Y2))", lambda: qp.s_prod(2.0, qp.adjoint(qp.X(0) @ qp.Y(2)))


for name, mk in _map_cases():
    for wm in ({0: 1, 1: 0, 2: 2}, {0: 2, 1: 0, 2: 1}):
        it = {"expr": f"map_wires({name}, {wm})", "n": 3, "status": "regression", "detail": "numeric regression block (not an obligation)", "kinds": ["map-consumers"]}
        items.append(it)
        try:
            op = mk()
            M0 = np.asarray(qp.matrix(op, wire_order=[0, 1, 2]))
            inv = [k for k, _ in sorted(wm.items(), key=lambda kv: kv[1])]          # new position -> old wire
            R = np.asarray(qp.matrix(op, wire_order=inv))                           # relabelling = reading the old operator in the permuted order
            m = qp.map_wires(op, wm)
            views = {"matrix": lambda: qp.matrix(m, wire_order=[0, 1, 2]),
                     "simplify": lambda: qp.matrix(qp.simplify(m), wire_order=[0, 1, 2]),
                     "sparse_matrix": lambda: m.sparse_matrix(wire_order=[0, 1, 2]).toarray(),
                     "pauli_rep": lambda: (m.pauli_rep.to_mat(wire_order=[0, 1, 2]) if m.pauli_rep is not None else R),
                     "sum_on_top": lambda: qp.matrix(qp.simplify(qp.sum(m, m)), wire_order=[0, 1, 2]) / 2}
            for vname, f in views.items():
                try:
                    V = np.asarray(f())
                except (qp.operation.MatrixUndefinedError, qp.operation.SparseMatrixUndefinedError, NotImplementedError):
                    continue
                if V.shape != R.shape or not np.allclose(V, R, atol=1e-10):
                    it["numeric_fail"] = {"what": f"map_wires then {vname}", "operator": repr(op)[:120], "wire_map": str(wm)}
                    break
        except Exception as e:
            it["numeric_fail"] = {"what": f"raised {type(e).__name__}: {str(e)[:150]}"}
# ---- integer powers (z = 0, 1, 2, 3, -1) of Pauli words and non-Pauli bases (numeric): the power itself and everything built on
# top of it (simplify, sparse matrix, cached Pauli representation, Sum / Prod / SProd / Exp) must equal numpy's matrix_power of the base
def _pow_cases():
    yield "X0", lambda: qp.X(0)
    yield "Y1", lambda: qp.Y(1)
    yield "Z2", lambda: qp.Z(2)
    yield "adjoint(Y0)", lambda: qp.adjoint(qp.Y(0))
    yield "X0@Y1", lambda: qp.X(0) @ qp.Y(1)
    yield "sprod(.5, Z1)", lambda: qp.s_prod(0.5, qp.Z(1))
    yield "sum(X0, .5*Z1)", lambda: qp.sum(qp.X(0), qp.s_prod(0.5, qp.Z(1)))
    yield "Hadamard0", lambda: qp.Hadamard(0)
    yield "S1", lambda: qp.S(1)
    yield "RX(.7)@2", lambda: qp.RX(0.7, wires=2)
    yield "CNOT[0,2]", lambda: qp.CNOT(wires=[0, 2])


_WO = [0, 1, 2]
_NP = {w: np.asarray(qp.matrix(o, wire_order=_WO)) for w, o in (("Z2", qp.Z(2)), ("Y0", qp.Y(0)), ("X1", qp.X(1)))}
for name, mk in _pow_cases():
    for z in (0, 1, 2, 3, -1):
        it = {"expr": f"pow({name}, {z}) and consumers", "n": 3, "status": "regression", "detail": "numeric regression block (not an obligation)", "kinds": ["pow-consumers"]}
        items.append(it)
        try:
            B = np.asarray(qp.matrix(mk(), wire_order=_WO))
            R = np.linalg.matrix_power(B if z >= 0 else np.linalg.inv(B), abs(z))       # independent reference
            w, V = np.linalg.eig(0.5 * (R + _NP["Z2"]))
            RE = (V * np.exp(0.3j * w)) @ np.linalg.inv(V)                               # exp(0.3j * 0.5 (R + Z2)) by eigendecomposition
            for lazy in (True, False):
                pw = lambda: qp.pow(mk(), z, lazy=lazy)
                views = {"matrix": (lambda: qp.matrix(pw(), wire_order=_WO), R),
                         "simplify": (lambda: qp.matrix(qp.simplify(pw()), wire_order=_WO), R),
                         "sparse_matrix": (lambda: pw().sparse_matrix(wire_order=_WO).toarray(), R),
                         "pauli_rep": (lambda: (lambda q: q.pauli_rep.to_mat(wire_order=_WO) if q.pauli_rep is not None else R)(pw()), R),
                         "sum_on_top": (lambda: qp.matrix(qp.sum(pw(), qp.Z(2)), wire_order=_WO), R + _NP["Z2"]),
                         "simplify(sum_on_top)": (lambda: qp.matrix(qp.simplify(qp.sum(pw(), qp.Z(2))), wire_order=_WO), R + _NP["Z2"]),
                         "prod_on_top": (lambda: qp.matrix(qp.prod(pw(), qp.Y(0)), wire_order=_WO), R @ _NP["Y0"]),
                         "simplify(prod_on_top)": (lambda: qp.matrix(qp.simplify(qp.prod(qp.X(1), pw())), wire_order=_WO), _NP["X1"] @ R),
                         "sparse(prod_on_top)": (lambda: qp.prod(pw(), qp.Y(0)).sparse_matrix(wire_order=_WO).toarray(), R @ _NP["Y0"]),
                         "sprod_on_top": (lambda: qp.matrix(qp.s_prod(2.5, pw()), wire_order=_WO), 2.5 * R),
                         "simplify(sprod_on_top)": (lambda: qp.matrix(qp.simplify(qp.s_prod(2.5, pw())), wire_order=_WO), 2.5 * R),
                         "exp_on_top": (lambda: qp.matrix(qp.exp(qp.s_prod(0.5, qp.sum(pw(), qp.Z(2))), 0.3j), wire_order=_WO), RE)}
                for vname, (f, want) in views.items():
                    if z < 0 and "sparse" in vname:
                        continue        # sparse matrices of negative powers are not offered (scipy's sparse power needs z >= 0)
                    try:
                        G = np.asarray(f())
                    except (qp.operation.MatrixUndefinedError, qp.operation.SparseMatrixUndefinedError, NotImplementedError):
                        continue
                    if G.shape != want.shape or not np.allclose(G, want, atol=1e-9):
                        it["numeric_fail"] = {"what": f"pow then {vname}", "operator": repr(pw())[:120], "z": z, "lazy": lazy,
                                              "max_abs_diff": float(np.abs(G - want).max()) if G.shape == want.shape else None}
                        break
                if it.get("numeric_fail"):
                    break
        except Exception as e:
            it["numeric_fail"] = {"what": f"raised {type(e).__name__}: {str(e)[:150]}"}
# ---- adjoint / inverse of change-of-basis compositions V.T.U, incl. an explicit uncompute V != U^dagger and template operands (numeric):
# every way of taking the adjoint must give (V T U)^dagger computed from the operands' own matrices
def _cob_cases():
    yield "cob(RX(.7)@0, S0)", lambda: (qp.RX(0.7, 0), qp.S(0), None)
    yield "cob(RY(.4)@0, CNOT[0,1], RZ(.9)@1)", lambda: (qp.RY(0.4, 0), qp.CNOT([0, 1]), qp.RZ(0.9, 1))
    yield "cob(T1, RX(.3)@1, SX1)", lambda: (qp.T(1), qp.RX(0.3, 1), qp.SX(1))
    yield "cob(QFT[0,1], PhaseAdder(1,[0,1]))", lambda: (qp.QFT([0, 1]), qp.PhaseAdder(1, x_wires=[0, 1]), None)
    yield "cob(Rot(.1,.2,.3)@1, CRX(.5)[1,0])", lambda: (qp.Rot(0.1, 0.2, 0.3, wires=1), qp.CRX(0.5, wires=[1, 0]), None)
    yield "cob(Hadamard0, T0)", lambda: (qp.Hadamard(0), qp.T(0), None)


for name, mk in _cob_cases():
    it = {"expr": f"adjoint of {name}", "n": 3, "status": "regression", "detail": "numeric regression block (not an obligation)", "kinds": ["cob-adjoint"]}
    items.append(it)
    try:
        wo2 = [0, 1]
        U, T, V = [None if o is None else np.asarray(qp.matrix(o, wire_order=wo2)) for o in mk()]
        C = (U.conj().T if V is None else V) @ T @ U                                   # independent reference of the composition
        Cd = C.conj().T
        P1 = np.kron(np.diag([0.0, 1.0]), np.eye(4))                                    # control wire 2 (first in the order [2,0,1]) in |1>
        cob = lambda: qp.change_op_basis(*[o for o in mk() if o is not None])
        views = {"composition": (lambda: qp.matrix(cob(), wire_order=wo2), C),
                 "adjoint": (lambda: qp.matrix(qp.adjoint(cob()), wire_order=wo2), Cd),
                 "adjoint(lazy=False)": (lambda: qp.matrix(qp.adjoint(cob(), lazy=False), wire_order=wo2), Cd),
                 "simplify(adjoint)": (lambda: qp.matrix(qp.simplify(qp.adjoint(cob())), wire_order=wo2), Cd),
                 "adjoint(adjoint)": (lambda: qp.matrix(qp.adjoint(qp.adjoint(cob(), lazy=False), lazy=False), wire_order=wo2), C),
                 "ctrl(adjoint)": (lambda: qp.matrix(qp.ctrl(qp.adjoint(cob()), control=2), wire_order=[2, 0, 1]), P1 @ np.kron(np.eye(2), Cd) + (np.eye(8) - P1)),
                 "prod(adjoint, C)": (lambda: qp.matrix(qp.prod(qp.adjoint(cob()), cob()), wire_order=wo2), Cd @ C)}
        for vname, (f, want) in views.items():
            try:
                G = np.asarray(f())
            except (qp.operation.MatrixUndefinedError, NotImplementedError):
                it.setdefault("skipped", []).append(vname)
                continue
            if G.shape != want.shape or not np.allclose(G, want, atol=1e-9):
                it["numeric_fail"] = {"what": f"change_op_basis then {vname}", "operator": repr(cob())[:160],
                                      "max_abs_diff": float(np.abs(G - want).max()) if G.shape == want.shape else None}
                break
    except Exception as e:
        it["numeric_fail"] = {"what": f"raised {type(e).__name__}: {str(e)[:150]}"}
json.dump(oblig, open(req["outdir"] + "/obligations.json", "w"))
print(json.dumps({"items": items}))
