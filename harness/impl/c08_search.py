import sys, json, random
sys.path.insert(0, "/verif/harness")
req = json.load(sys.stdin)
import importlib.util, io, contextlib
# reuse builders from c08_impl without running its main part
src = open("/verif/harness/impl/c08_impl.py").read().split("items, oblig = [], []")[0].replace("req = json.load(sys.stdin)", "req = {'seed': 0, 'tier': 'quick'}")
exec(src)
rng = random.Random(req["seed"] + 5)
a, b, w2 = req["a"], req["b"], req["w2"]
(p1, k1), (p2, k2) = arity(a), arity(b)
n = len(set(w2) | set(range(k1)))
wit = None
for _ in range(200):
    th = [rng.uniform(-6, 6) for _ in range(p1 + p2)]
    o1 = build(a, th[:p1], list(range(k1))); o2 = build(b, th[p1:], w2)
    try:
        if not qp.is_commuting(o1, o2):
            continue
    except Exception:
        continue
    A, B = np.asarray(qp.matrix(o1, wire_order=list(range(n)))), np.asarray(qp.matrix(o2, wire_order=list(range(n))))
    if not np.allclose(A @ B, B @ A, atol=1e-9):
        wit = {"op1": repr(o1), "op2": repr(o2), "max_commutator": float(np.abs(A @ B - B @ A).max())}
        break
print(json.dumps({"witness": wit}))
