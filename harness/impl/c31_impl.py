"""C31 driver: runs device histories (sequences of batches) on the REAL default.qubit under the serial path and
the executor backends, with per-task delays injected at the simulate entry point, and records for every step
the generator states, an independent clone's draws (numpy as the oracle), the per-task log written at the
simulate entry point (circuit, rng argument, result digest, completion time) and the assembled results.

Module level (also executed inside spawned pool workers, which re-import the main script as __mp_main__):
the wrapper around pennylane.devices.default_qubit.simulate.  It changes no result: it sleeps, calls the
original, and appends one line to the file named by C31_LOG.
stdin: {"jobs": [...], "par": k};  stdout: one JSON line {"obs": [...]} (same order as jobs)."""
import hashlib, json, os, subprocess, sys, tempfile, threading, time

_MAIN = __name__ == "__main__"

import warnings
warnings.filterwarnings("ignore")
import numpy as np
import pennylane as qp
from pennylane.devices import default_qubit as _dq
from pennylane.devices import ExecutionConfig
from pennylane.concurrency.executors import get_executor

_orig_simulate = _dq.simulate


def _fp(gen):
    try:
        return hashlib.sha1(json.dumps(gen.bit_generator.state, sort_keys=True, default=int).encode()).hexdigest()[:16]
    except Exception:
        return "nostate"


def _digest(x):
    h = hashlib.sha1()

    def go(v):
        if isinstance(v, dict):
            h.update(b"{")
            for k in sorted(v, key=str):
                h.update(str(k).encode()); go(v[k])
            h.update(b"}")
        elif isinstance(v, (tuple, list)):
            h.update(b"(")
            for e in v:
                go(e)
            h.update(b")")
        else:
            a = np.asarray(v)
            h.update(str(a.dtype).encode() + str(a.shape).encode() + a.tobytes())
    go(x)
    return h.hexdigest()[:20]


def _c31_simulate(circuit, **kw):
    r = kw.get("rng")
    if isinstance(r, (int, np.integer)):
        kind, val, entry = "int", int(r), None
    elif isinstance(r, np.random.Generator):
        kind, val, entry = "gen", None, _fp(r)
    else:
        kind, val, entry = "other", None, None
    salt = os.environ.get("C31_SALT", "")
    if salt:
        hb = hashlib.sha1(f"{salt}:{val}:{circuit.hash}".encode()).digest()
        d = hb[0] / 255.0 * float(os.environ.get("C31_MAXD", "0"))
        if kind == "int" and str(val) == os.environ.get("C31_HEAVY", ""):
            d += float(os.environ.get("C31_HEAVYD", "0"))
        time.sleep(d)
    res = _orig_simulate(circuit, **kw)
    log = os.environ.get("C31_LOG")
    if log:
        line = json.dumps({"h": str(circuit.hash), "kind": kind, "rng": val, "entry": entry,
                           "exit": _fp(r) if kind == "gen" else None, "dig": _digest(res),
                           "t": time.monotonic(), "pid": os.getpid(), "tid": threading.get_ident()}) + "\n"
        fd = os.open(log, os.O_WRONLY | os.O_APPEND | os.O_CREAT)
        try:
            os.write(fd, line.encode())
        finally:
            os.close(fd)
    return res


_dq.simulate = _c31_simulate


# ------------------------------------------------------------------------------------------ main process only
def build_tape(spec):
    ops = [getattr(qp, nm)(*ps, wires=ws) for nm, ps, ws in spec["ops"]]
    wires = list(range(spec["n"]))
    k = spec["meas"]
    if k == "sample":
        m = [qp.sample(wires=wires)]
    elif k == "counts":
        m = [qp.counts(wires=wires)]
    elif k == "probs":
        m = [qp.probs(wires=wires)]
    elif k == "expval":
        m = [qp.expval(qp.PauliZ(0) @ qp.PauliX(spec["n"] - 1)) if spec["n"] > 1 else qp.expval(qp.PauliZ(0))]
    else:
        m = [qp.expval(qp.PauliZ(0)), qp.probs(wires=[spec["n"] - 1])]
    return qp.tape.QuantumScript(ops, m, shots=spec["shots"])


def jsonable(x):
    if isinstance(x, dict):
        return {str(k): jsonable(v) for k, v in x.items()}
    if isinstance(x, (tuple, list)):
        return [jsonable(v) for v in x]
    return np.asarray(x).astype(float).tolist()


def run_job(job, tmp):
    be, mw = job["backend"], job["mw"]
    dev = qp.device("default.qubit", seed=job["dev_seed"], **({"max_workers": mw} if job["via"] == "qp" else {}))
    steps = []
    for si, batch in enumerate(job["batches"]):
        tapes = [build_tape(s) for s in batch]
        n = len(tapes)
        hashes = [str(t.hash) for t in tapes]
        rec = {"par": mw is not None, "n": n, "dup_hash": len(set(hashes)) != n, "error": None}
        rec["state_before"] = _fp(dev._rng)
        bg = dev._rng.bit_generator
        clone = np.random.Generator(type(bg)())
        clone.bit_generator.state = bg.state
        seeds = [int(v) for v in clone.integers(2**31 - 1, size=n)]
        st1 = _fp(clone)
        z = int(clone.integers(2**31 - 1))
        rec["clone"] = {"seeds": seeds, "st1": st1, "z": z, "st2": _fp(clone), "st3": _fp(np.random.default_rng(z))}
        log = os.path.join(tmp, f"log_{job['id']}_{si}.jsonl")
        open(log, "w").close()
        hrng = int(hashlib.sha1(f"{job['salt']}:{si}".encode()).hexdigest(), 16)
        os.environ.update({"C31_LOG": log, "C31_SALT": f"{job['salt']}:{si}", "C31_MAXD": str(job["maxd"]),
                           "C31_HEAVY": str(seeds[hrng % (min(n, 2) if job.get("heavy_first") else n)]) if job["heavyd"] else "", "C31_HEAVYD": str(job["heavyd"])})
        t0 = time.monotonic()
        try:
            if job["via"] == "qp":
                res = qp.execute(tapes, dev)
            elif mw is None:
                res = dev.execute(tapes, ExecutionConfig())
            else:
                cfg = ExecutionConfig(executor_backend=get_executor(be), device_options={"max_workers": mw})
                res = dev.execute(tapes, cfg)
            rec["out_digests"] = [_digest(r) for r in res]
            rec["analytic"] = [jsonable(r) if s["shots"] is None else None for r, s in zip(res, batch)]
        except Exception as e:  # noqa
            rec["error"] = f"{type(e).__name__}: {str(e)[:300]}"
            rec["out_digests"], rec["analytic"] = [], []
        rec["wall"] = round(time.monotonic() - t0, 3)
        os.environ["C31_LOG"] = ""
        entries = [json.loads(l) for l in open(log) if l.strip()]
        entries.sort(key=lambda e: e["t"])
        for e in entries:
            e["idx"] = hashes.index(e["h"]) if e["h"] in hashes else -1
            del e["h"]
        rec["log"] = entries
        rec["workers_seen"] = len({(e["pid"], e["tid"]) for e in entries})
        rec["state_after"] = _fp(dev._rng)
        steps.append(rec)
    return {"id": job["id"], "steps": steps}


def _fork_job(job, tmp):
    """process-pool histories are slow (every pool worker imports pennylane): each runs in a forked copy of this
    (already imported, still single-threaded) driver with its own environment; result comes back through a file"""
    path = os.path.join(tmp, f"obs_{job['id']}.json")
    pid = os.fork()
    if pid == 0:
        try:
            dn = os.open(os.devnull, os.O_RDWR)     # pool workers must not keep the driver's pipes open
            os.dup2(dn, 0); os.dup2(dn, 1); os.dup2(dn, 2)
            try:
                o = run_job(job, tmp)
            except BaseException as e:  # noqa
                o = {"id": job["id"], "steps": [], "driver_error": f"{type(e).__name__}: {str(e)[:1000]}"}
            with open(path, "w") as f:
                f.write(json.dumps(o))
            import multiprocessing as _mp
            for c in _mp.active_children():         # Pool.close() does not wait for its workers
                c.join(2)
                if c.is_alive():
                    c.terminate()
        finally:
            os._exit(0)
    return pid, path


if _MAIN:
    _payload = json.load(sys.stdin)
    tmp = tempfile.mkdtemp(prefix="c31_")
    try:
        queue = [j for j in _payload["jobs"] if j["slow"]]
        running, paths, obs = {}, {}, {}

        def pump(block=False):
            while True:
                while queue and len(running) < int(_payload.get("par", 4)):
                    j = queue.pop(0)
                    pid, path = _fork_job(j, tmp)
                    running[pid] = j["id"]; paths[j["id"]] = path
                if not running:
                    return
                pid, _ = os.waitpid(-1, 0 if block else os.WNOHANG)
                if pid == 0:
                    return
                running.pop(pid, None)
        pump()
        for j in _payload["jobs"]:
            if not j["slow"]:
                obs[j["id"]] = run_job(j, tmp)
                pump()
        while running or queue:
            pump(block=True)
        for jid, path in paths.items():
            try:
                obs[jid] = json.loads(open(path).read())
            except Exception as e:  # noqa
                obs[jid] = {"id": jid, "steps": [], "driver_error": f"no result file: {e}"}
        print(json.dumps({"obs": [obs[j["id"]] for j in _payload["jobs"]]}))
    finally:
        import shutil
        shutil.rmtree(tmp, ignore_errors=True)
