"""Runs the real pennylane.math quantum-information functions on the JSON cases from stdin; prints one JSON line.

Arrays arrive as {"d": den, "e": nested lists of [re, im] integers} (value = (re + i im) / den, all dyadic, so the
complex128 arrays built here are exact).  Results are returned as nested lists of [re, im] floats (json round-trips
Python floats exactly) or plain floats."""
import json
import sys
import warnings

import numpy as np

warnings.filterwarnings("ignore")
import pennylane as qp  # noqa: E402
from pennylane import numpy as pnp  # noqa: E402
from pennylane import math as qm  # noqa: E402


def arr(a):
    e = np.array(a["e"], dtype=np.float64)
    if e.size == 0:
        return np.zeros(e.shape[:-1], dtype=np.complex128)
    return (e[..., 0] + 1j * e[..., 1]) / float(a["d"])


def enc(x):
    x = np.asarray(x)
    if np.iscomplexobj(x):
        return np.stack([x.real, x.imag], axis=-1).tolist()
    return np.stack([x.astype(np.float64), np.zeros(x.shape)], axis=-1).tolist()


def fl(x):
    x = np.asarray(x)
    if np.iscomplexobj(x):
        x = x.real if np.all(x.imag == 0) else x
    return x.tolist()


def one(c):
    op = c["op"]
    if op == "reduce_dm":
        return enc(qm.reduce_dm(arr(c["rho"]), c["indices"]))
    if op == "partial_trace":
        a = arr(c["rho"])
        if c.get("iface") == "autograd":
            a = pnp.array(a, requires_grad=False)
        return enc(qm.partial_trace(a, c["indices"]))
    if op == "reduce_sv":
        return enc(qm.reduce_statevector(arr(c["psi"]), c["indices"]))
    if op == "dm_from_sv":
        return enc(qm.dm_from_state_vector(arr(c["psi"])))
    if op == "expand":
        m = arr(c["mat"])
        wo = c["wire_order"]
        if c.get("sparse"):
            from scipy import sparse
            return enc(qm.expand_matrix(sparse.csr_matrix(m), c["wires"], wo).toarray())
        return enc(qm.expand_matrix(m, c["wires"], wo))
    if op == "purity":
        return fl(qm.purity(arr(c["rho"]), c["indices"]))
    if op == "fid_sv":
        return fl(qm.fidelity_statevector(arr(c["psi"]), arr(c["phi"])))
    if op == "fid_dm":
        return fl(qm.fidelity(arr(c["rho"]), arr(c["sigma"])))
    if op == "vn_entropy":
        return fl(qm.vn_entropy(arr(c["rho"]), c["indices"], base=c.get("base")))
    if op == "max_entropy":
        return fl(qm.max_entropy(arr(c["rho"]), c["indices"], base=c.get("base")))
    if op == "min_entropy":
        return fl(qm.min_entropy(arr(c["rho"]), c["indices"], base=c.get("base")))
    if op == "mutual_info":
        return fl(qm.mutual_info(arr(c["rho"]), c["indices0"], c["indices1"], base=c.get("base")))
    if op == "rel_entropy":
        return fl(qm.relative_entropy(arr(c["rho"]), arr(c["sigma"]), base=c.get("base")))
    if op == "trace_distance":
        return fl(qm.trace_distance(arr(c["rho"]), arr(c["sigma"])))
    raise KeyError(op)


out = []
for c in json.load(sys.stdin)["cases"]:
    try:
        out.append({"ok": one(c)})
    except (ValueError, IndexError, TypeError, KeyError) as e:  # noqa: PERF203
        out.append({"err": type(e).__name__})
print(json.dumps(out))
