"""C28: (a) Kraus matrices of every built-in channel extracted symbolically (p = sin^2(theta/2) ...) -> completeness
obligations; numeric completeness on grids incl. endpoints; (b) default.mixed on random noisy circuits vs an
independent numpy Kraus-sum simulation + physicality of the result; a fixed corpus (run first) applies every operator with a
dedicated kernel in devices/qubit_mixed/apply_operation.py to entangled complex superpositions (pure/mixed, batched, permuted wires)."""
import sys, json, random, math, itertools
sys.path.insert(0, "/verif/harness")
from qrules import *
import qsym
import numpy as np
import pennylane.ops.channel as chmod

req = json.load(sys.stdin)
rng = random.Random(req["seed"])
nprng = np.random.default_rng(req["seed"])
tier = req["tier"]
install_patches()
items, oblig = [], []


def s2(j): return Lin.var(j).scale(Fr(1, 2)).sin() ** 2 if False else (Lin.var(j) * Fr(1, 2)).sin() * (Lin.var(j) * Fr(1, 2)).sin()
def c2(j): return (Lin.var(j) * Fr(1, 2)).cos() * (Lin.var(j) * Fr(1, 2)).cos()
def sn(j): return (Lin.var(j) * Fr(1, 2)).sin()
def cs(j): return (Lin.var(j) * Fr(1, 2)).cos()


def obj(x):
    a = np.empty((), dtype=object); a[()] = x
    return a


# channel -> (number of angles, builder(params as Sym) , [(square, root)...], numeric builder from angles)
def specs():
    out = []
    out.append(("AmplitudeDamping", 1, lambda: [s2(0)], lambda: [(s2(0), sn(0)), (c2(0), cs(0))], lambda p: qp.AmplitudeDamping(p[0], wires=0)))
    out.append(("PhaseDamping", 1, lambda: [s2(0)], lambda: [(s2(0), sn(0)), (c2(0), cs(0))], lambda p: qp.PhaseDamping(p[0], wires=0)))
    out.append(("BitFlip", 1, lambda: [s2(0)], lambda: [(s2(0), sn(0)), (c2(0), cs(0))], lambda p: qp.BitFlip(p[0], wires=0)))
    out.append(("PhaseFlip", 1, lambda: [s2(0)], lambda: [(s2(0), sn(0)), (c2(0), cs(0))], lambda p: qp.PhaseFlip(p[0], wires=0)))
    out.append(("DepolarizingChannel", 1, lambda: [s2(0)], lambda: [(s2(0), sn(0)), (c2(0), cs(0))], lambda p: qp.DepolarizingChannel(p[0], wires=0)))
    out.append(("GeneralizedAmplitudeDamping", 2, lambda: [s2(0), s2(1)],
                lambda: [(s2(0), sn(0)), (c2(0), cs(0)), (s2(1), sn(1)), (c2(1), cs(1))], lambda p: qp.GeneralizedAmplitudeDamping(p[0], p[1], wires=0)))
    # ResetError(p0, p1): p0 = sin^2 a cos^2 b, p1 = sin^2 a sin^2 b, 1-p0-p1 = cos^2 a
    out.append(("ResetError", 2, lambda: [s2(0) * c2(1), s2(0) * s2(1)],
                lambda: [(s2(0) * c2(1), sn(0) * cs(1)), (s2(0) * s2(1), sn(0) * sn(1)), (c2(0), cs(0))], lambda p: qp.ResetError(p[0], p[1], wires=0)))
    out.append(("PauliError[X]", 1, lambda: [s2(0)], lambda: [(s2(0), sn(0)), (c2(0), cs(0))], lambda p: qp.PauliError("X", p[0], wires=0)))
    out.append(("PauliError[ZY]", 1, lambda: [s2(0)], lambda: [(s2(0), sn(0)), (c2(0), cs(0))], lambda p: qp.PauliError("ZY", p[0], wires=[0, 1])))
    return out


chmod._SQRT_STABILITY_EPS = 0.0          # the exact formulas (the 1e-14 stabiliser is a float device)
for name, nang, params, sqtab, mk in specs():
    it = {"kind": "channel", "name": name, "status": "ok", "detail": ""}
    items.append(it)
    try:
        ok = False
        for N in (8,):   # only rings with x^(N/2)+1 irreducible (N a power of two) have a canonical normal form
            try:
                set_cfg(N, 8, nang)
                qsym.SQRT_TABLE[:] = sqtab()
                ps = params()
                proto = mk([0.25, 0.5][:nang] if not name.startswith("ResetError") else [0.2, 0.3])
                hyper = {k: v for k, v in (getattr(proto, "hyperparameters", {}) or {}).items()}
                import pennylane.math as qmath
                _ia = qmath.is_abstract
                chmod.np.is_abstract = lambda x, *a, **k: True if isinstance(x, (Sym, Lin)) else _ia(x, *a, **k)
                try:
                    Ks = type(proto).compute_kraus_matrices(*[Sym.of(p_) for p_ in ps], **hyper)
                finally:
                    chmod.np.is_abstract = _ia
                SK = [mat_to_sym(np.asarray(K)) for K in Ks]
                d = len(SK[0])
                oblig.append({"name": f"ob_{len(oblig)}", "channel": name,
                              "stmt": f"kraus_complete {N // 2}%Z {d}%nat [{'; '.join(g_mat(K) for K in SK)}] = true"})
                it["lemma"], it["ring"] = oblig[-1]["name"], N
                ok = True
                break
            except NotExtractable as e:
                last = str(e)
        if not ok:
            it["status"], it["detail"] = "notex", last[:200]
    except Exception as e:
        it["status"], it["detail"] = "error", f"{type(e).__name__}: {str(e)[:200]}"
qsym.SQRT_TABLE[:] = []
chmod._SQRT_STABILITY_EPS = 1e-14

# numeric completeness on grids incl. endpoints (real code, with its stabiliser)
GRID = [0.0, 1e-9, 0.1, 0.25, 0.5, 0.75, 0.9, 1.0 - 1e-9, 1.0]


def complete(op):
    Ks = op.kraus_matrices()
    d = Ks[0].shape[0]
    return float(np.abs(sum(np.conj(K).T @ K for K in Ks) - np.eye(d)).max())


num = []
for p in GRID:
    for mk, nm in ((lambda p: qp.AmplitudeDamping(p, wires=0), "AmplitudeDamping"), (lambda p: qp.PhaseDamping(p, wires=0), "PhaseDamping"),
                   (lambda p: qp.BitFlip(p, wires=0), "BitFlip"), (lambda p: qp.PhaseFlip(p, wires=0), "PhaseFlip"),
                   (lambda p: qp.DepolarizingChannel(p, wires=0), "DepolarizingChannel"), (lambda p: qp.PauliError("XZ", p, wires=[0, 1]), "PauliError"),
                   (lambda p: qp.PauliError("Y", p, wires=0), "PauliError"), (lambda p: qp.PauliError("ZY", p, wires=[0, 1]), "PauliError"),
                   (lambda p: qp.PauliError("YXY", p, wires=[0, 1, 2]), "PauliError"), (lambda p: qp.PauliError("I", p, wires=0), "PauliError")):
        try:
            e = complete(mk(p))
        except Exception as ex:
            e = f"raised {type(ex).__name__}"
        num.append({"channel": nm, "params": [p], "err": e})
    for q in (0.0, 0.3, 1.0):
        num.append({"channel": "GeneralizedAmplitudeDamping", "params": [p, q], "err": complete(qp.GeneralizedAmplitudeDamping(p, q, wires=0))})
        if p + q <= 1:
            num.append({"channel": "ResetError", "params": [p, q], "err": complete(qp.ResetError(p, q, wires=0))})
# fixed ThermalRelaxationError points (both branches T2 <= T1 / T2 > T1, pe at and away from 0.5, gate time 0 .. several T1)
for pe in (0.0, 0.2, 0.5, 1.0):
    for t1, t2, tg in ((2.0, 1.0, 0.5), (0.7, 0.175, 3.0), (1.0, 1.0, 1.0), (1.2, 1.3, 0.1), (1.0, 2.0, 0.7), (1.0, 1.5, 0.0), (2.0, 0.2, 0.0), (1e-5, 4e-6, 2e-5), (5e-5, 9e-5, 1e-7)):
        try:
            e = complete(qp.ThermalRelaxationError(pe, t1, t2, tg, wires=0))
        except Exception as ex:
            e = f"raised {type(ex).__name__}"
        num.append({"channel": "ThermalRelaxationError", "params": [pe, t1, t2, tg], "err": e})
for _ in range(6):
    pe, t1, tg = nprng.uniform(0, 1), nprng.uniform(1e-6, 1e-4), nprng.uniform(1e-8, 1e-6)
    for t2 in (t1 * nprng.uniform(0.1, 1.0), t1 * nprng.uniform(1.0, 2.0)):
        try:
            num.append({"channel": "ThermalRelaxationError", "params": [pe, t1, t2, tg], "err": complete(qp.ThermalRelaxationError(pe, t1, t2, tg, wires=0))})
        except Exception as ex:
            num.append({"channel": "ThermalRelaxationError", "params": [pe, t1, t2, tg], "err": f"raised {type(ex).__name__}"})

# (b) noisy circuits on default.mixed vs independent Kraus-sum simulation
def embed(K, ws, n):
    k = len(ws)
    T = K.reshape([2] * (2 * k))
    full = np.zeros((2 ** n, 2 ** n), dtype=complex)
    for r in range(2 ** n):
        rb = [(r >> (n - 1 - i)) & 1 for i in range(n)]
        for x in itertools.product([0, 1], repeat=k):
            cb = list(rb)
            for t, w in enumerate(ws):
                cb[w] = x[t]
            c = sum(b << (n - 1 - i) for i, b in enumerate(cb))
            full[r, c] = T[tuple([rb[w] for w in ws] + list(x))]
    return full


def embed_big(K, ws, n):
    """Same as embed (kron with the identity + axis permutation); used for registers of more than 5 wires, where the entry-wise loop is slow."""
    rest = [i for i in range(n) if i not in ws]
    full = np.kron(K, np.eye(2 ** len(rest))).reshape([2] * (2 * n))
    cur = list(ws) + rest
    perm = [cur.index(i) for i in range(n)]
    return full.transpose(perm + [n + q for q in perm]).reshape(2 ** n, 2 ** n)


_K = np.arange(64).reshape(8, 8) * (1 + 0.5j)
assert np.array_equal(embed(_K, [3, 0, 2], 4), embed_big(_K, [3, 0, 2], 4)) and np.array_equal(embed(_K[:2, :2], [1], 3), embed_big(_K[:2, :2], [1], 3))


def ptrace_kron(rho, sigma, ws, n):
    """rho -> sigma (on wire positions ws) (x) tr_ws(rho): the documented action of QubitDensityMatrix on a subset of wires."""
    k = len(ws)
    rest = [i for i in range(n) if i not in ws]
    T = rho.reshape([2] * (2 * n))
    red = np.einsum(T, list(range(n)) + [i if i in ws else n + i for i in range(n)], rest + [n + i for i in rest]).reshape(2 ** len(rest), 2 ** len(rest))
    full = np.kron(sigma, red).reshape([2] * (2 * n))          # axes: ws + rest (rows), ws + rest (cols)
    cur = list(ws) + rest
    perm = [cur.index(i) for i in range(n)]
    return full.transpose(perm + [n + q for q in perm]).reshape(2 ** n, 2 ** n)


def reference(ops, order, n, b):
    """Independent dense simulation rho -> sum_k K rho K^dagger (numpy); batch entry b of broadcast operators."""
    rho = np.zeros((2 ** n, 2 ** n), dtype=complex); rho[0, 0] = 1
    for o in ops:
        ws = [order.index(w) for w in o.wires]
        if isinstance(o, qp.Snapshot):
            continue
        if isinstance(o, qp.StatePrep):                          # only used on all wires
            psi = embed_vec(np.asarray(o.data[0], dtype=complex), ws, n)
            rho = np.outer(psi, psi.conj())
            continue
        if isinstance(o, qp.QubitDensityMatrix):
            rho = ptrace_kron(rho, np.asarray(o.data[0], dtype=complex), ws, n)
            continue
        if isinstance(o, qp.operation.Channel):
            Ks = o.kraus_matrices()
        else:
            M = np.asarray(qp.matrix(o))
            Ks = [M[b] if M.ndim == 3 else M]
        Es = [(embed if n <= 5 else embed_big)(np.asarray(K, dtype=complex), ws, n) if len(ws) else np.asarray(K).reshape(()) * np.eye(2 ** n) for K in Ks]
        rho = sum(E @ rho @ E.conj().T for E in Es)
    return rho


def embed_vec(psi, ws, n):
    """State vector given on wire positions ws (all n wires, any order) -> natural position order."""
    return psi.reshape([2] * n).transpose([ws.index(i) for i in range(n)]).reshape(-1)


runs = []


def reference_pure(ops, order, n):
    """Unitary-only circuits on large registers: |psi> -> U|psi> with dense embedded matrices, rho = |psi><psi| (avoids 2^n-dim matrix products)."""
    psi = np.zeros(2 ** n, dtype=complex); psi[0] = 1
    for o in ops:
        psi = embed_big(np.asarray(qp.matrix(o), dtype=complex), [order.index(w) for w in o.wires], n) @ psi
    return np.outer(psi, psi.conj())


def run_case(ops, order, B, tag=None, pure=False):
    n = len(order)
    rec = {"ops": [repr(o) for o in ops], "order": order, "batch": B}
    if tag:
        rec["fixed"] = tag
    try:
        dev = qp.device("default.mixed", wires=order)
        rho_all = np.asarray(qp.execute([qp.tape.QuantumScript(ops, [qp.density_matrix(wires=order)])], dev)[0])
        rho_all = rho_all.reshape((B or 1, 2 ** n, 2 ** n))
    except Exception as ex:                                     # a crash of the device on a documented circuit is a failure of the property
        runs.append(dict(rec, err=1e9, herm=1e9, trace=1e9, min_eig=-1e9, raised=f"{type(ex).__name__}: {str(ex)[:200]}"))
        return
    worst = {"err": 0.0, "herm": 0.0, "trace": 0.0, "min_eig": 1.0}
    for b in range(B or 1):
        rho = reference_pure(ops, order, n) if pure else reference(ops, order, n, b)
        rho_dev = rho_all[b]
        # positivity by eigenvalues up to 6 wires; beyond that it follows (to 2^n * err) from the entry-wise agreement with the reference state
        ev = np.linalg.eigvalsh((rho_dev + rho_dev.conj().T) / 2) if n <= 6 else np.zeros(1)
        worst = {"err": max(worst["err"], float(np.abs(rho_dev - rho).max())), "herm": max(worst["herm"], float(np.abs(rho_dev - rho_dev.conj().T).max())),
                 "trace": max(worst["trace"], float(abs(np.trace(rho_dev) - 1))), "min_eig": min(worst["min_eig"], float(ev.min()))}
    runs.append(dict(rec, **worst))


# ---- fixed corpus (runs first, independent of the seed): every operator with a dedicated kernel in
# devices/qubit_mixed/apply_operation.py (Identity, GlobalPhase, PauliX, PauliZ, T, S, PhaseShift, the real symmetric
# controlled gates incl. the >= 9-wire matrix-free branch, the diagonal-in-Z family, QubitDensityMatrix, Snapshot) plus the
# generic einsum / tensordot paths, applied to entangled coherent superpositions with complex amplitudes (pure and mixed,
# unbatched and broadcast, natural and permuted device wire order); oracle rho -> U rho U^dagger / Kraus sum in numpy.
def prep(n, B=None, mixed=False):
    ops = []
    if B:
        ops.append(qp.RX(np.array([0.7, -1.9, 2.3][:B]), wires=n - 1))
    for w in range(n):
        ops.append(qp.Rot(0.4 + 0.5 * w, 1.1 + 0.3 * w, -0.8 + 0.45 * w, wires=w))
    for w in range(n - 1):
        ops.append(qp.CRY(0.9 + 0.2 * w, wires=[w, w + 1]))
    if mixed:
        ops += [qp.AmplitudeDamping(0.3, wires=0), qp.DepolarizingChannel(0.15, wires=n - 1)]
    return ops


def fixed_gates():
    d2 = np.exp(1j * np.array([0.3, -1.1, 2.0, 0.9]))
    d3 = np.exp(1j * np.array([0.3, -1.1, 2.0, 0.9, -2.4, 1.7, 0.2, -0.6]))
    one = [("Identity", lambda w: qp.Identity(w)), ("GlobalPhase", lambda w: qp.GlobalPhase(0.7, wires=w)), ("PauliX", lambda w: qp.PauliX(w)),
           ("PauliY", lambda w: qp.PauliY(w)), ("PauliZ", lambda w: qp.PauliZ(w)), ("Hadamard", lambda w: qp.Hadamard(w)), ("S", lambda w: qp.S(w)),
           ("T", lambda w: qp.T(w)), ("SX", lambda w: qp.SX(w)), ("Adjoint(S)", lambda w: qp.adjoint(qp.S(w))), ("Adjoint(T)", lambda w: qp.adjoint(qp.T(w))),
           ("PhaseShift", lambda w: qp.PhaseShift(0.83, wires=w)), ("RZ", lambda w: qp.RZ(-1.27, wires=w)), ("RX", lambda w: qp.RX(0.61, wires=w)),
           ("U-generic", lambda w: qp.QubitUnitary(np.asarray(qp.matrix(qp.Rot(0.3, 1.2, -0.7, wires=0))), wires=w)),
           ("Snapshot", lambda w: qp.Snapshot()),
           ("ThermalRelaxationError<", lambda w: qp.ThermalRelaxationError(0.2, 2.0, 1.0, 0.5, wires=w)), ("ThermalRelaxationError>", lambda w: qp.ThermalRelaxationError(0.3, 1.2, 1.9, 0.4, wires=w)),
           ("QubitDensityMatrix-1", lambda w: qp.QubitDensityMatrix(np.array([[0.7, 0.2 - 0.1j], [0.2 + 0.1j, 0.3]]), wires=w))]
    two = [("CNOT", lambda a, b: qp.CNOT([a, b])), ("CZ", lambda a, b: qp.CZ([a, b])), ("CY", lambda a, b: qp.CY([a, b])), ("CH", lambda a, b: qp.CH([a, b])),
           ("SWAP", lambda a, b: qp.SWAP([a, b])), ("ISWAP", lambda a, b: qp.ISWAP([a, b])), ("CRZ", lambda a, b: qp.CRZ(1.3, wires=[a, b])),
           ("ControlledPhaseShift", lambda a, b: qp.ControlledPhaseShift(-0.9, wires=[a, b])), ("CPhaseShift10", lambda a, b: qp.CPhaseShift10(0.77, wires=[a, b])),
           ("MultiRZ-2", lambda a, b: qp.MultiRZ(0.57, wires=[a, b])), ("IsingZZ", lambda a, b: qp.IsingZZ(-0.66, wires=[a, b])),
           ("DiagonalQubitUnitary-2", lambda a, b: qp.DiagonalQubitUnitary(d2, wires=[a, b])),
           ("PauliError-XY", lambda a, b: qp.PauliError("XY", 0.3, wires=[a, b]))]
    three = [("Toffoli", lambda a, b, c: qp.Toffoli([a, b, c])), ("CSWAP", lambda a, b, c: qp.CSWAP([a, b, c])), ("CCZ", lambda a, b, c: qp.CCZ([a, b, c])),
             ("MultiControlledX-3", lambda a, b, c: qp.MultiControlledX(wires=[a, b, c], control_values=[1, 0])),
             ("MultiRZ-3", lambda a, b, c: qp.MultiRZ(-0.41, wires=[a, b, c])), ("DiagonalQubitUnitary-3", lambda a, b, c: qp.DiagonalQubitUnitary(d3, wires=[a, b, c])),
             ("PCPhase", lambda a, b, c: qp.PCPhase(0.93, dim=3, wires=[a, b, c])),
             ("PauliError-XYZ", lambda a, b, c: qp.PauliError("XYZ", 0.3, wires=[a, b, c]))]
    return one, two, three


def fixed_corpus():
    one, two, three = fixed_gates()
    tail = lambda n: [qp.PhaseDamping(0.2, wires=0), qp.BitFlip(0.1, wires=n - 1)]
    for nm, mk in one:
        run_case(prep(3) + [mk(1)], [0, 1, 2], None, tag=nm)
        run_case(prep(3, B=2, mixed=True) + [mk(2), mk(0)] + tail(3), [2, 0, 1], 2, tag=nm + "/batched")
    for nm, mk in two:
        run_case(prep(3) + [mk(2, 0)], [0, 1, 2], None, tag=nm)
        run_case(prep(3, B=2, mixed=True) + [mk(0, 1), mk(1, 2)] + tail(3), [1, 2, 0], 2, tag=nm + "/batched")
    for nm, mk in three:
        run_case(prep(4) + [mk(3, 0, 2)], [0, 1, 2, 3], None, tag=nm)
        run_case(prep(4, B=3, mixed=True) + [mk(1, 2, 3), mk(2, 0, 1)] + tail(4), [3, 1, 0, 2], 3, tag=nm + "/batched")
    # broadcast operators acting on an unbatched / already batched state (PhaseShift kernel, diagonal kernel, einsum)
    ang = np.array([0.35, -1.4, 2.2])
    for nm, mk in (("PhaseShift[b]", lambda: qp.PhaseShift(ang, wires=1)), ("RZ[b]", lambda: qp.RZ(ang, wires=1)), ("CRZ[b]", lambda: qp.CRZ(ang, wires=[2, 0])),
                   ("ControlledPhaseShift[b]", lambda: qp.ControlledPhaseShift(ang, wires=[0, 1])), ("MultiRZ[b]", lambda: qp.MultiRZ(ang, wires=[2, 1, 0])),
                   ("RY[b]", lambda: qp.RY(ang, wires=2))):
        run_case(prep(3) + [mk(), qp.T(1), qp.AmplitudeDamping(0.25, wires=1)], [0, 1, 2], 3, tag=nm + "/op-batched")
        run_case(prep(3, B=3, mixed=True) + [mk(), qp.S(0)], [1, 0, 2], 3, tag=nm + "/both-batched")
    # state preparation operators (complex amplitudes), then dedicated kernels
    psi = np.array([0.5, 0.5j, -0.5, 0.1 + 0.2j, 0.3 - 0.1j, 0.2j, 0.4, -0.1 - 0.3j]); psi = psi / np.linalg.norm(psi)
    run_case([qp.StatePrep(psi, wires=[0, 1, 2]), qp.T(0), qp.S(1), qp.PauliZ(2), qp.PauliX(1), qp.Toffoli([2, 0, 1])], [0, 1, 2], None, tag="StatePrep")
    run_case([qp.StatePrep(psi, wires=[2, 0, 1]), qp.T(2), qp.adjoint(qp.T(1)), qp.SWAP([0, 2]), qp.AmplitudeDamping(0.2, wires=2)], [1, 2, 0], None, tag="StatePrep/permuted")
    v = np.array([0.6, 0.8j, -0.3 + 0.1j, 0.2]); v = v / np.linalg.norm(v)
    sig = 0.7 * np.outer(v, v.conj()) + 0.3 * np.diag([0.1, 0.2, 0.3, 0.4])
    run_case(prep(3) + [qp.QubitDensityMatrix(sig, wires=[2, 0]), qp.T(2), qp.CNOT([0, 1])], [0, 1, 2], None, tag="QubitDensityMatrix-2")
    run_case(prep(3, B=2, mixed=True) + [qp.QubitDensityMatrix(sig, wires=[1, 2]), qp.T(1), qp.CZ([2, 0])], [2, 0, 1], 2, tag="QubitDensityMatrix-2/batched")
    rho3 = np.outer(psi, psi.conj()) * 0.8 + 0.2 * np.eye(8) / 8
    run_case([qp.QubitDensityMatrix(rho3, wires=[0, 1, 2]), qp.T(1), qp.S(0), qp.Hadamard(2)], [0, 1, 2], None, tag="QubitDensityMatrix-all")
    # all device wires in a non-device (cyclic) order: the matrix is given in the order of op.wires (repaired in /repo)
    run_case([qp.QubitDensityMatrix(rho3, wires=[2, 0, 1]), qp.T(1), qp.S(0), qp.Hadamard(2)], [0, 1, 2], None, tag="QubitDensityMatrix-all/permuted")
    run_case(prep(3) + [qp.QubitDensityMatrix(rho3, wires=[1, 2, 0]), qp.T(2), qp.CNOT([0, 1])], [2, 0, 1], None, tag="QubitDensityMatrix-all/permuted-order")
    # the >= 9-operator-wire matrix-free branch of the real symmetric kernel
    run_case(prep(9) + [qp.T(4), qp.MultiControlledX(wires=[8, 1, 2, 3, 4, 5, 6, 7, 0], control_values=[1, 0, 1, 1, 0, 1, 1, 1]), qp.S(0), qp.PauliZ(8)],
             list(range(9)), None, tag="MultiControlledX-9", pure=True)
    # the published circuit shapes: noise after an entangler followed by a phase gate
    for g in (qp.T, qp.S, qp.PauliZ, qp.PauliX, qp.Hadamard):
        run_case([qp.RY(0.9, wires=1), qp.CNOT([1, 0]), g(1), qp.AmplitudeDamping(0.2, wires=1), qp.DepolarizingChannel(0.1, wires=0)], [0, 1], None, tag="noisy/" + g.__name__)


fixed_corpus()
n_fixed = len(runs)

FIXED1 = [qp.Hadamard, qp.T, qp.S, qp.PauliX, qp.PauliY, qp.PauliZ, qp.SX, lambda w: qp.adjoint(qp.T(w)), lambda w: qp.adjoint(qp.S(w)),
          lambda w: qp.PhaseShift(rng.uniform(-3, 3), wires=w)]
for ci in range(30 if tier == "quick" else 300):
    n = rng.choice([1, 2, 2, 3, 4])
    order = list(range(n)); rng.shuffle(order)
    ops = []
    B = rng.choice([None, None, 2, 3])      # broadcast dimension (one batched rotation early in the circuit)
    if B:
        ops.append(rng.choice([qp.RX, qp.RY])(np.array([rng.uniform(-3, 3) for _ in range(B)]), wires=rng.randrange(n)))
    for _ in range(rng.randint(2, 8)):
        r = rng.random()
        w = rng.randrange(n)
        if r < 0.30:
            ops.append(rng.choice([qp.RX, qp.RY, qp.RZ])(rng.uniform(-3, 3), wires=w))
        elif r < 0.45 and n > 1:
            if n > 2 and rng.random() < 0.3:
                ops.append(rng.choice([qp.Toffoli, qp.CSWAP, qp.CCZ])(wires=rng.sample(range(n), 3)))
            else:
                g = rng.choice([qp.CNOT, qp.CZ, qp.SWAP, qp.CY, qp.CH, "CRZ", "CPS"])
                ws2 = rng.sample(range(n), 2)
                ops.append(qp.CRZ(rng.uniform(-3, 3), wires=ws2) if g == "CRZ" else qp.ControlledPhaseShift(rng.uniform(-3, 3), wires=ws2) if g == "CPS" else g(wires=ws2))
        elif r < 0.62:
            ops.append(rng.choice(FIXED1)(w))     # gates with dedicated density-matrix kernels
        elif r < 0.72:
            k = rng.randint(1, min(3, n))        # multi-wire Pauli error (3-wire operators take the tensordot kernel)
            ops.append(qp.PauliError("".join(rng.choice("XYZ") for _ in range(k)), rng.choice([0.0, 1.0, rng.uniform(0, 1)]), wires=rng.sample(range(n), k)))
        else:
            p = rng.choice([0.0, 1.0, rng.uniform(0, 1)])
            ch = rng.choice(["AD", "PD", "BF", "PF", "DP", "GAD", "RE"])
            ops.append({"AD": lambda: qp.AmplitudeDamping(p, wires=w), "PD": lambda: qp.PhaseDamping(p, wires=w), "BF": lambda: qp.BitFlip(p, wires=w),
                        "PF": lambda: qp.PhaseFlip(p, wires=w), "DP": lambda: qp.DepolarizingChannel(p, wires=w),
                        "GAD": lambda: qp.GeneralizedAmplitudeDamping(p, rng.uniform(0, 1), wires=w), "RE": lambda: qp.ResetError(p * 0.5, rng.uniform(0, 0.5), wires=w)}[ch]())
    run_case(ops, order, B)
json.dump(oblig, open(req["outdir"] + "/obligations.json", "w"))
print(json.dumps({"items": items, "numeric": num, "runs": runs}))
