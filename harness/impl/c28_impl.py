"""C28: (a) Kraus matrices of every built-in channel extracted symbolically (p = sin^2(theta/2) ...) -> completeness
obligations; numeric completeness on grids incl. endpoints; (b) default.mixed on random noisy circuits vs an
independent numpy Kraus-sum simulation + physicality of the result."""
import sys, json, random, math, itertools
sys.path.insert(0, "/verif/harness")
from qrules import *
import qsym
import numpy as np
import pennylane.ops.channel as chmod

req = json.load(sys.stdin)
rng = random.Random(req["seed"])
nprng = np.random.default_rng(req["seed"])
tier = req["tier"]
install_patches()
items, oblig = [], []


def s2(j): return Lin.var(j).scale(Fr(1, 2)).sin() ** 2 if False else (Lin.var(j) * Fr(1, 2)).sin() * (Lin.var(j) * Fr(1, 2)).sin()
def c2(j): return (Lin.var(j) * Fr(1, 2)).cos() * (Lin.var(j) * Fr(1, 2)).cos()
def sn(j): return (Lin.var(j) * Fr(1, 2)).sin()
def cs(j): return (Lin.var(j) * Fr(1, 2)).cos()


def obj(x):
    a = np.empty((), dtype=object); a[()] = x
    return a


# channel -> (number of angles, builder(params as Sym) , [(square, root)...], numeric builder from angles)
def specs():
    out = []
    out.append(("AmplitudeDamping", 1, lambda: [s2(0)], lambda: [(s2(0), sn(0)), (c2(0), cs(0))], lambda p: qp.AmplitudeDamping(p[0], wires=0)))
    out.append(("PhaseDamping", 1, lambda: [s2(0)], lambda: [(s2(0), sn(0)), (c2(0), cs(0))], lambda p: qp.PhaseDamping(p[0], wires=0)))
    out.append(("BitFlip", 1, lambda: [s2(0)], lambda: [(s2(0), sn(0)), (c2(0), cs(0))], lambda p: qp.BitFlip(p[0], wires=0)))
    out.append(("PhaseFlip", 1, lambda: [s2(0)], lambda: [(s2(0), sn(0)), (c2(0), cs(0))], lambda p: qp.PhaseFlip(p[0], wires=0)))
    out.append(("DepolarizingChannel", 1, lambda: [s2(0)], lambda: [(s2(0), sn(0)), (c2(0), cs(0))], lambda p: qp.DepolarizingChannel(p[0], wires=0)))
    out.append(("GeneralizedAmplitudeDamping", 2, lambda: [s2(0), s2(1)],
                lambda: [(s2(0), sn(0)), (c2(0), cs(0)), (s2(1), sn(1)), (c2(1), cs(1))], lambda p: qp.GeneralizedAmplitudeDamping(p[0], p[1], wires=0)))
    # ResetError(p0, p1): p0 = sin^2 a cos^2 b, p1 = sin^2 a sin^2 b, 1-p0-p1 = cos^2 a
    out.append(("ResetError", 2, lambda: [s2(0) * c2(1), s2(0) * s2(1)],
                lambda: [(s2(0) * c2(1), sn(0) * cs(1)), (s2(0) * s2(1), sn(0) * sn(1)), (c2(0), cs(0))], lambda p: qp.ResetError(p[0], p[1], wires=0)))
    out.append(("PauliError[X]", 1, lambda: [s2(0)], lambda: [(s2(0), sn(0)), (c2(0), cs(0))], lambda p: qp.PauliError("X", p[0], wires=0)))
    out.append(("PauliError[ZY]", 1, lambda: [s2(0)], lambda: [(s2(0), sn(0)), (c2(0), cs(0))], lambda p: qp.PauliError("ZY", p[0], wires=[0, 1])))
    return out


chmod._SQRT_STABILITY_EPS = 0.0          # the exact formulas (the 1e-14 stabiliser is a float device)
for name, nang, params, sqtab, mk in specs():
    it = {"kind": "channel", "name": name, "status": "ok", "detail": ""}
    items.append(it)
    try:
        ok = False
        for N in (8,):   # only rings with x^(N/2)+1 irreducible (N a power of two) have a canonical normal form
            try:
                set_cfg(N, 8, nang)
                qsym.SQRT_TABLE[:] = sqtab()
                ps = params()
                proto = mk([0.25, 0.5][:nang] if not name.startswith("ResetError") else [0.2, 0.3])
                hyper = {k: v for k, v in (getattr(proto, "hyperparameters", {}) or {}).items()}
                import pennylane.math as qmath
                _ia = qmath.is_abstract
                chmod.np.is_abstract = lambda x, *a, **k: True if isinstance(x, (Sym, Lin)) else _ia(x, *a, **k)
                try:
                    Ks = type(proto).compute_kraus_matrices(*[Sym.of(p_) for p_ in ps], **hyper)
                finally:
                    chmod.np.is_abstract = _ia
                SK = [mat_to_sym(np.asarray(K)) for K in Ks]
                d = len(SK[0])
                oblig.append({"name": f"ob_{len(oblig)}", "channel": name,
                              "stmt": f"kraus_complete {N // 2}%Z {d}%nat [{'; '.join(g_mat(K) for K in SK)}] = true"})
                it["lemma"], it["ring"] = oblig[-1]["name"], N
                ok = True
                break
            except NotExtractable as e:
                last = str(e)
        if not ok:
            it["status"], it["detail"] = "notex", last[:200]
    except Exception as e:
        it["status"], it["detail"] = "error", f"{type(e).__name__}: {str(e)[:200]}"
qsym.SQRT_TABLE[:] = []
chmod._SQRT_STABILITY_EPS = 1e-14

# numeric completeness on grids incl. endpoints (real code, with its stabiliser)
GRID = [0.0, 1e-9, 0.1, 0.25, 0.5, 0.75, 0.9, 1.0 - 1e-9, 1.0]


def complete(op):
    Ks = op.kraus_matrices()
    d = Ks[0].shape[0]
    return float(np.abs(sum(np.conj(K).T @ K for K in Ks) - np.eye(d)).max())


num = []
for p in GRID:
    for mk, nm in ((lambda p: qp.AmplitudeDamping(p, wires=0), "AmplitudeDamping"), (lambda p: qp.PhaseDamping(p, wires=0), "PhaseDamping"),
                   (lambda p: qp.BitFlip(p, wires=0), "BitFlip"), (lambda p: qp.PhaseFlip(p, wires=0), "PhaseFlip"),
                   (lambda p: qp.DepolarizingChannel(p, wires=0), "DepolarizingChannel"), (lambda p: qp.PauliError("XZ", p, wires=[0, 1]), "PauliError"),
                   (lambda p: qp.PauliError("Y", p, wires=0), "PauliError"), (lambda p: qp.PauliError("ZY", p, wires=[0, 1]), "PauliError"),
                   (lambda p: qp.PauliError("YXY", p, wires=[0, 1, 2]), "PauliError"), (lambda p: qp.PauliError("I", p, wires=0), "PauliError")):
        try:
            e = complete(mk(p))
        except Exception as ex:
            e = f"raised {type(ex).__name__}"
        num.append({"channel": nm, "params": [p], "err": e})
    for q in (0.0, 0.3, 1.0):
        num.append({"channel": "GeneralizedAmplitudeDamping", "params": [p, q], "err": complete(qp.GeneralizedAmplitudeDamping(p, q, wires=0))})
        if p + q <= 1:
            num.append({"channel": "ResetError", "params": [p, q], "err": complete(qp.ResetError(p, q, wires=0))})
for _ in range(6):
    pe, t1, tg = nprng.uniform(0, 1), nprng.uniform(1e-6, 1e-4), nprng.uniform(1e-8, 1e-6)
    for t2 in (t1 * nprng.uniform(0.1, 1.0), t1 * nprng.uniform(1.0, 2.0)):
        try:
            num.append({"channel": "ThermalRelaxationError", "params": [pe, t1, t2, tg], "err": complete(qp.ThermalRelaxationError(pe, t1, t2, tg, wires=0))})
        except Exception as ex:
            num.append({"channel": "ThermalRelaxationError", "params": [pe, t1, t2, tg], "err": f"raised {type(ex).__name__}"})

# (b) noisy circuits on default.mixed vs independent Kraus-sum simulation
def embed(K, ws, n):
    k = len(ws)
    T = K.reshape([2] * (2 * k))
    full = np.zeros((2 ** n, 2 ** n), dtype=complex)
    for r in range(2 ** n):
        rb = [(r >> (n - 1 - i)) & 1 for i in range(n)]
        for x in itertools.product([0, 1], repeat=k):
            cb = list(rb)
            for t, w in enumerate(ws):
                cb[w] = x[t]
            c = sum(b << (n - 1 - i) for i, b in enumerate(cb))
            full[r, c] = T[tuple([rb[w] for w in ws] + list(x))]
    return full


runs = []
for ci in range(30 if tier == "quick" else 300):
    n = rng.choice([1, 2, 2, 3, 4])
    order = list(range(n)); rng.shuffle(order)
    ops = []
    B = rng.choice([None, None, 2, 3])      # broadcast dimension (one batched rotation early in the circuit)
    if B:
        ops.append(rng.choice([qp.RX, qp.RY])(np.array([rng.uniform(-3, 3) for _ in range(B)]), wires=rng.randrange(n)))
    for _ in range(rng.randint(2, 8)):
        r = rng.random()
        w = rng.randrange(n)
        if r < 0.35:
            ops.append(rng.choice([qp.RX, qp.RY, qp.RZ])(rng.uniform(-3, 3), wires=w))
        elif r < 0.5 and n > 1:
            ops.append(rng.choice([qp.CNOT, qp.CZ])(wires=rng.sample(range(n), 2)))
        elif r < 0.6:
            ops.append(qp.Hadamard(w))
        elif r < 0.72:
            k = rng.randint(1, min(3, n))        # multi-wire Pauli error (3-wire operators take the tensordot kernel)
            ops.append(qp.PauliError("".join(rng.choice("XYZ") for _ in range(k)), rng.choice([0.0, 1.0, rng.uniform(0, 1)]), wires=rng.sample(range(n), k)))
        else:
            p = rng.choice([0.0, 1.0, rng.uniform(0, 1)])
            ch = rng.choice(["AD", "PD", "BF", "PF", "DP", "GAD", "RE"])
            ops.append({"AD": lambda: qp.AmplitudeDamping(p, wires=w), "PD": lambda: qp.PhaseDamping(p, wires=w), "BF": lambda: qp.BitFlip(p, wires=w),
                        "PF": lambda: qp.PhaseFlip(p, wires=w), "DP": lambda: qp.DepolarizingChannel(p, wires=w),
                        "GAD": lambda: qp.GeneralizedAmplitudeDamping(p, rng.uniform(0, 1), wires=w), "RE": lambda: qp.ResetError(p * 0.5, rng.uniform(0, 0.5), wires=w)}[ch]())
    dev = qp.device("default.mixed", wires=order)
    rho_all = np.asarray(qp.execute([qp.tape.QuantumScript(ops, [qp.density_matrix(wires=order)])], dev)[0])
    rho_all = rho_all.reshape((B or 1, 2 ** n, 2 ** n))
    worst = {"err": 0.0, "herm": 0.0, "trace": 0.0, "min_eig": 1.0}
    for b in range(B or 1):
        rho = np.zeros((2 ** n, 2 ** n), dtype=complex); rho[0, 0] = 1
        for o in ops:
            ws = [order.index(w) for w in o.wires]
            if isinstance(o, qp.operation.Channel):
                Ks = o.kraus_matrices()
            else:
                ob = o
                if getattr(o, "batch_size", None):
                    ob = type(o)(float(np.asarray(o.data[0])[b]), wires=o.wires)
                Ks = [np.asarray(qp.matrix(ob))]
            rho = sum(embed(np.asarray(K), ws, n) @ rho @ embed(np.asarray(K), ws, n).conj().T for K in Ks)
        rho_dev = rho_all[b]
        ev = np.linalg.eigvalsh((rho_dev + rho_dev.conj().T) / 2)
        worst = {"err": max(worst["err"], float(np.abs(rho_dev - rho).max())), "herm": max(worst["herm"], float(np.abs(rho_dev - rho_dev.conj().T).max())),
                 "trace": max(worst["trace"], float(abs(np.trace(rho_dev) - 1))), "min_eig": min(worst["min_eig"], float(ev.min()))}
    runs.append(dict({"ops": [repr(o) for o in ops], "order": order, "batch": B}, **worst))
json.dump(oblig, open(req["outdir"] + "/obligations.json", "w"))
print(json.dumps({"items": items, "numeric": num, "runs": runs}))
