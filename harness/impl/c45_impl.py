"""Runs pennylane.wires.Wires on the JSON cases from stdin; prints one JSON line of observations.

Label encoding (JSON): int -> int, str -> str, {"t": [...]} tuple, {"f": x} float, {"b": x} bool.
Argument encoding: {"k": "list", "v": [labels], "tup": bool} | {"k": "lbl", "v": label} | {"k": "w", "src": src}
src = {"a": raw argument, "sub": null | {"ix": int | [int], "per": bool}}   (Wires(a)[.subset(ix, per)])
Observation per case: "ERR" or {"r": result, "ops": [labels of the Wires operands], "h": hash checks ok}
"""
import json, sys
from pennylane.wires import Wires


def dec(l):
    if isinstance(l, dict):
        if "t" in l:
            return tuple(dec(x) for x in l["t"])
        if "f" in l:
            return float(l["f"])
        return bool(l["b"])
    return l


def enc(l):
    if isinstance(l, bool):
        return {"b": l}
    if isinstance(l, int):
        return l
    if isinstance(l, float):
        return {"f": l}
    if isinstance(l, str):
        return l
    if isinstance(l, tuple):
        return {"t": [enc(x) for x in l]}
    return {"unknown": repr(l)}


def raw(a):
    if a["k"] == "list":
        v = [dec(x) for x in a["v"]]
        return tuple(v) if a.get("tup") else v
    return dec(a["v"])


def build(s):
    w = Wires(raw(s["a"]))
    if s.get("sub") is not None:
        w = w.subset(s["sub"]["ix"], periodic_boundary=s["sub"]["per"])
    return w


OPS = []        # Wires operands of the current case
HOK = [True]


def note(w):
    """basic observers of a Wires object must agree with its labels tuple; hash is the tuple's hash"""
    t = w.labels
    ok = (hash(w) == hash(tuple(t)) and hash(w) == hash(w) and len(w) == len(t) and w.tolist() == list(t)
          and tuple(iter(w)) == tuple(t) and w.toset() == set(t) and all(w[i] == t[i] for i in range(len(t))))
    if not ok:
        HOK[0] = False
    return w


def carg(a):
    if a["k"] == "w":
        w = note(build(a["src"]))
        OPS.append([enc(x) for x in w.labels])
        return w
    return raw(a)


def wsrc(s):
    w = note(build(s))
    OPS.append([enc(x) for x in w.labels])
    return w


def out_w(w):
    assert isinstance(w, Wires)
    note(w)
    return [enc(x) for x in w.labels]


def one(c):
    op = c["op"]
    if op == "mk":
        a = carg(c["a"])
        return out_w(Wires(a))
    if op == "add":
        w, a = wsrc(c["s"]), carg(c["a"])
        return out_w(w + a)
    if op == "radd":
        w, a = wsrc(c["s"]), carg(c["a"])
        return out_w(w.__radd__(a) if (isinstance(a, Wires) or c.get("via") == "method") else a + w)
    if op in ("all", "shared", "unique"):
        ls = [carg(a) for a in c["ls"]]
        f = {"all": Wires.all_wires, "shared": Wires.shared_wires, "unique": Wires.unique_wires}[op]
        return out_w(f(ls))
    if op == "set":
        w, a = wsrc(c["s"]), carg(c["a"])
        k, via = c["kind"], c.get("via", "method")
        if via == "method" or (k in ("rsub", "rxor") and isinstance(a, Wires)):
            f = {"union": w.union, "inter": w.intersection, "diff": w.difference, "xor": w.symmetric_difference,
                 "rsub": w.__rsub__, "rxor": w.__rxor__}[k]
            return out_w(f(a))
        if via == "rop" and not isinstance(a, Wires) and k in ("union", "inter"):
            return out_w(w.__ror__(a) if k == "union" else w.__rand__(a))
        if k == "union":
            return out_w(w | a)
        if k == "inter":
            return out_w(w & a)
        if k == "diff":
            return out_w(w - a)
        if k == "xor":
            return out_w(w ^ a)
        if k == "rsub":
            return out_w(a - w)
        return out_w(a ^ w)
    if op == "index":
        w = wsrc(c["s"])
        a = wsrc(c["a"]["src"]) if c["a"]["k"] == "w" else dec(c["a"]["v"])
        r = w.index(a)
        assert isinstance(r, int)
        return r
    if op == "indices":
        w, a = wsrc(c["s"]), carg(c["a"])
        r = w.indices(a)
        assert isinstance(r, list)
        return [int(i) for i in r]
    if op == "map":
        w = wsrc(c["s"])
        m = {}
        for k, v in c["m"]:
            m[dec(k)] = dec(v)
        return out_w(w.map(m))
    if op == "subset":
        w = wsrc(c["s"])
        return out_w(w.subset(c["ix"], periodic_boundary=c["per"]))
    if op == "eq":
        a, b = wsrc(c["s"]), wsrc(c["s2"])
        r = a == b
        assert isinstance(r, bool) and (a != b) == (not r)
        return {"eq": r, "heq": hash(a) == hash(b)}
    if op == "containsw":
        w, a = wsrc(c["s"]), carg(c["a"])
        r = w.contains_wires(a)
        assert isinstance(r, bool)
        return r
    if op == "contains":
        w = wsrc(c["s"])
        r = dec(c["x"]) in w
        assert isinstance(r, bool)
        return r
    raise SystemExit("unknown op " + op)


out = []
for c in json.load(sys.stdin)["cases"]:
    OPS.clear()
    HOK[0] = True
    try:
        r = {"r": one(c), "ops": list(OPS), "h": HOK[0]}
    except SystemExit:
        raise
    except Exception as e:      # every exception type is one error value
        r = "ERR"
    out.append(r)
print(json.dumps(out))
