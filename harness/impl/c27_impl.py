"""C27: the same exactly-representable circuits executed on every simulator device; plus exact circuits for Coq."""
import sys, json, random, math, time, warnings
sys.path.insert(0, "/verif/harness")
from qrules import *
from qx import pyth_angle, exact_circuit_gallina
import numpy as np
warnings.filterwarnings("ignore")
req = json.load(sys.stdin)
rng = random.Random(req["seed"])
tier = req["tier"]
install_patches()
G1 = ["RX", "RY", "RZ", "PhaseShift", "Hadamard", "PauliX", "PauliY", "PauliZ", "S", "T", "SX"]
G2 = ["CNOT", "CZ", "CY", "SWAP", "CRX", "CRY", "CRZ", "IsingXX", "IsingZZ", "ControlledPhaseShift", "ISWAP"]
C1 = ["Hadamard", "PauliX", "PauliY", "PauliZ", "S", "SX"]
C2 = ["CNOT", "CZ", "CY", "SWAP", "ISWAP"]


def rand_ops(labels, clifford=False):
    ops, nw = [], len(labels)
    for _ in range(rng.randint(2, 5 + 2 * nw)):
        if rng.random() < 0.55 or nw == 1:
            nm = rng.choice(C1 if clifford else G1); ws = [rng.choice(labels)]
        else:
            nm = rng.choice(C2 if clifford else G2); ws = rng.sample(labels, 2)
        cls = getattr(qp, nm)
        ops.append(cls(*[pyth_angle(rng) for _ in range(cls.num_params)], wires=ws))
    if clifford and rng.random() < 0.3:
        ops.append(qp.adjoint(qp.S(rng.choice(labels))))
    return ops


def jsonable(x):
    a = np.asarray(x)
    if np.iscomplexobj(a):
        return {"re": np.real(a).tolist(), "im": np.imag(a).tolist()}
    return {"re": a.astype(float).tolist()}


DEVICES = ["default.mixed", "reference.qubit", "default.tensor:mps", "default.tensor:tn", "default.clifford", "null.qubit", "default.qubit"]
runs = []
ncirc = 40 if tier == "quick" else 300
for ci in range(ncirc):
    nw = rng.choice([1, 2, 2, 3, 3, 4])
    labels = list(range(nw)) if rng.random() < 0.6 else ["a", "b", 7, "q"][:nw]
    devname = DEVICES[ci % len(DEVICES)]
    clifford = devname == "default.clifford"
    ops = rand_ops(labels, clifford)
    ms, mdesc = [], []
    for _ in range(rng.randint(1, 2)):
        r = rng.random()
        if r < 0.4 and not devname.startswith("default.tensor"):
            k = rng.randint(1, nw); ws = rng.sample(labels, k)
            ms.append(qp.probs(wires=ws)); mdesc.append({"kind": "probs", "wires": ws})
        else:
            k = rng.randint(1, min(2, nw)); ws = rng.sample(labels, k)
            word = [rng.choice("XYZ") for _ in ws]
            o = qp.prod(*[getattr(qp, "Pauli" + ch)(w) for ch, w in zip(word, ws)]) if k > 1 else getattr(qp, "Pauli" + word[0])(ws[0])
            if rng.random() < 0.7:
                ms.append(qp.expval(o)); mdesc.append({"kind": "expval", "word": word, "wires": ws})
            else:
                ms.append(qp.var(o)); mdesc.append({"kind": "var", "word": word, "wires": ws})
    run = {"labels": labels, "dev_wires": labels, "device": devname, "ops": [repr(o) for o in ops], "meas": mdesc, "status": "ok", "n": nw}
    runs.append(run)
    try:
        run["circuit"] = exact_circuit_gallina(ops, labels)
        if devname.startswith("default.tensor"):
            dev = qp.device("default.tensor", wires=labels, method=devname.split(":")[1], **({"max_bond_dim": 64} if devname.endswith("mps") else {}))
        else:
            dev = qp.device(devname, wires=labels)
        tape = qp.tape.QuantumScript(ops, ms)
        res = qp.execute([tape], dev)[0]
        res = res if isinstance(res, tuple) else (res,)
        run["results"] = [jsonable(r) for r in res]
        run["shapes"] = [list(np.shape(r)) for r in res]
        # reference shapes from default.qubit for null.qubit comparison
        if devname == "null.qubit":
            ref = qp.execute([tape], qp.device("default.qubit", wires=labels))[0]
            ref = ref if isinstance(ref, tuple) else (ref,)
            run["ref_shapes"] = [list(np.shape(r)) for r in ref]
    except NotExtractable as e:
        run["status"], run["detail"] = "notex", str(e)[:200]
    except Exception as e:
        run["status"], run["detail"] = "error", f"{type(e).__name__}: {str(e)[:300]}"
print(json.dumps({"runs": runs}))
