"""C27: the same exactly-representable circuits executed on every simulator device; plus exact circuits for Coq."""
import sys, json, random, math, time, warnings
sys.path.insert(0, "/verif/harness")
from qrules import *
from qx import pyth_angle, exact_circuit_gallina
import numpy as np
warnings.filterwarnings("ignore")
req = json.load(sys.stdin)
rng = random.Random(req["seed"])
tier = req["tier"]
# NOTE: the translator's patches are installed only AFTER every device has been executed (second pass below): the devices
# must run on the unmodified package (with the patches active default.tensor takes a different code path for PauliRot)
G1 = ["RX", "RY", "RZ", "PhaseShift", "Hadamard", "PauliX", "PauliY", "PauliZ", "S", "T", "SX"]
G2 = ["CNOT", "CZ", "CY", "SWAP", "CRX", "CRY", "CRZ", "IsingXX", "IsingZZ", "ControlledPhaseShift", "ISWAP"]
C1 = ["Hadamard", "PauliX", "PauliY", "PauliZ", "S", "SX"]
C2 = ["CNOT", "CZ", "CY", "SWAP", "ISWAP"]


def rand_ops(labels, clifford=False):
    ops, nw = [], len(labels)
    for _ in range(rng.randint(2, 5 + 2 * nw)):
        if nw >= 3 and not clifford and rng.random() < 0.18:
            # three-wire operators (devices use different kernels from three wires on), real and complex, diagonal and not
            ws = rng.sample(labels, 3)
            k = rng.choice(["Toffoli", "CSWAP", "CCZ", "c2rx", "c2ry", "c2ps", "mrz", "c01rx"])
            if k in ("Toffoli", "CSWAP", "CCZ"):
                ops.append(getattr(qp, k)(wires=ws))
            elif k == "mrz":
                ops.append(qp.MultiRZ(pyth_angle(rng), wires=ws))
            elif k == "c01rx":
                ops.append(qp.ctrl(qp.RX(pyth_angle(rng), wires=ws[2]), control=ws[:2], control_values=[0, 1]))
            else:
                base = {"c2rx": qp.RX, "c2ry": qp.RY, "c2ps": qp.PhaseShift}[k](pyth_angle(rng), wires=ws[2])
                ops.append(qp.ctrl(base, control=ws[:2]))
            continue
        if rng.random() < 0.55 or nw == 1:
            nm = rng.choice(C1 if clifford else G1); ws = [rng.choice(labels)]
        else:
            nm = rng.choice(C2 if clifford else G2); ws = rng.sample(labels, 2)
        cls = getattr(qp, nm)
        ops.append(cls(*[pyth_angle(rng) for _ in range(cls.num_params)], wires=ws))
    if clifford and rng.random() < 0.3:
        ops.append(qp.adjoint(qp.S(rng.choice(labels))))
    return ops


def pauli_word(word, ws):
    return qp.prod(*[getattr(qp, "Pauli" + ch)(w) for ch, w in zip(word, ws)]) if len(ws) > 1 else getattr(qp, "Pauli" + word[0])(ws[0])


def lincomb(kind, style, terms):
    """measurement of sum_i c_i P_i (terms: (coefficient, letters, wires), the factors of each word kept in the listed order);
    style: operator arithmetic (Sum of SProd), qp.Hamiltonian / LinearCombination, qp.dot"""
    cs, words = [t[0] for t in terms], [pauli_word(t[1], t[2]) for t in terms]
    if style == "sum":
        o = qp.sum(*[w if c == 1.0 else qp.s_prod(c, w) for c, w in zip(cs, words)])
    elif style == "hamiltonian":
        o = qp.Hamiltonian(cs, words)
    else:
        o = qp.dot(cs, words)
    m = qp.expval(o) if kind == "expval_sum" else qp.var(o)
    return m, {"kind": kind, "style": style, "terms": [{"coeff": c, "word": list(w), "wires": list(ws)} for c, w, ws in terms]}


def rand_lincomb(labels):
    """random Sum / LinearCombination of Pauli words whose factors are listed in independent random wire orders"""
    nw, terms, seen = len(labels), [], set()
    for _ in range(rng.randint(2, 3)):
        ws = rng.sample(labels, rng.randint(1, min(3, nw)))
        word = [rng.choice("XYZ") for _ in ws]
        key = tuple(sorted(zip(map(str, ws), word)))
        if key in seen:
            continue
        seen.add(key)
        terms.append((rng.choice([1.0, 0.5, -1.5, 0.25, -0.75, 2.0]), word, ws))
    if nw >= 2 and rng.random() < 0.6:
        # a term on the wires of the first multi-wire term in the reverse factor order
        multi = [t for t in terms if len(t[2]) > 1]
        if multi:
            ws = multi[0][2][::-1]
            word = [rng.choice("XYZ") for _ in ws]
            if tuple(sorted(zip(map(str, ws), word))) not in seen:
                terms.append((rng.choice([0.5, -1.25, 0.75]), word, ws))
    return lincomb("expval_sum" if rng.random() < 0.7 else "var_sum", rng.choice(["sum", "hamiltonian", "dot"]), terms)


def jsonable(x):
    a = np.asarray(x)
    if np.iscomplexobj(a):
        return {"re": np.real(a).tolist(), "im": np.imag(a).tolist()}
    return {"re": a.astype(float).tolist()}


pending = []
DEVICES = ["default.mixed", "reference.qubit", "default.tensor:mps", "default.tensor:tn", "default.clifford", "null.qubit", "default.qubit"]
runs = []
ncirc = 40 if tier == "quick" else 300
for ci in range(ncirc):
    nw = rng.choice([1, 2, 2, 3, 3, 4])
    labels = list(range(nw)) if rng.random() < 0.6 else ["a", "b", 7, "q"][:nw]
    devname = DEVICES[ci % len(DEVICES)]
    clifford = devname == "default.clifford"
    ops = rand_ops(labels, clifford)
    if ci < len(DEVICES) and not clifford:
        # fixed corpus circuit (one per device): complex non-diagonal three-wire operators on string / unordered labels
        import math as _m
        nw, labels = 3, ["b", 3, "a"]
        A1, A2 = 2 * _m.atan2(4, 3), 2 * _m.atan2(3, 4)
        ops = [qp.Hadamard("b"), qp.RY(A1, 3), qp.ctrl(qp.RX(A2, "a"), control=["b", 3]), qp.S("a"), qp.T("b"),
               qp.ctrl(qp.RX(A1, 3), control=["a", "b"], control_values=[0, 1]), qp.CNOT([3, "a"]), qp.CSWAP(["a", "b", 3]), qp.RX(A2, "b")]
        # a dense complex three-wire unitary with Gaussian-rational entries, applied natively as one matrix
        U3 = np.kron(np.kron(qp.matrix(qp.RX(A1, 0)), np.eye(2)), qp.matrix(qp.RY(A2, 0))) @ qp.matrix(qp.Toffoli([0, 1, 2])) \
            @ np.kron(np.kron(np.eye(2), qp.matrix(qp.S(0))), qp.matrix(qp.RX(A2, 0)))
        ops.insert(4, qp.QubitUnitary(U3, wires=[3, "a", "b"]))
        # Pauli rotations on three wires given in a non-ascending device order (devices with an MPO kernel must place each letter on its site)
        ops.insert(2, qp.PauliRot(A1, "XYZ", wires=[3, "a", "b"]))
        ops.insert(3, qp.MultiRZ(A2, wires=["a", "b", 3]))
        ops.insert(9, qp.PauliRot(A2, "YXX", wires=["a", 3, "b"]))
        # first-order Trotter product of non-commuting terms (devices with their own kernel for it must keep the factor order);
        # coefficients are Pythagorean angles so that every factor exp(-i c t/n P) is exactly representable
        ops.append(qp.TrotterProduct(qp.sum(qp.s_prod(A1, qp.X("b")), qp.s_prod(A2, qp.Z("b") @ qp.Z(3)), qp.s_prod(A1, qp.Y(3)), qp.s_prod(A2, qp.X("a") @ qp.Y("b"))),
                                     time=1.0, n=2, order=1))
    if len(DEVICES) <= ci < 2 * len(DEVICES) and not clifford:
        # second fixed corpus circuit: short, so that a three-wire Pauli rotation / doubly controlled phase on non-ascending
        # device sites acts on a (nearly) product state (regression: default.tensor's MPO kernel)
        import math as _m
        nw, labels = 3, ["b", 3, "a"]
        A1, A2 = 2 * _m.atan2(4, 3), 2 * _m.atan2(3, 4)
        ops = [qp.Hadamard("b"), qp.RY(A1, 3), qp.PauliRot(A1, "XYZ", wires=[3, "a", "b"]), qp.RX(A2, "a"),
               qp.ctrl(qp.PhaseShift(A2, "b"), control=[3, "a"]), qp.MultiRZ(A1, wires=["a", "b", 3]),
               # asymmetric diagonal gates on descending device wires (devices with an eigenvalue kernel must keep the axis order)
               qp.RY(A2, "b"), qp.CRZ(A1, wires=["a", "b"]), qp.RX(A1, 3),
               qp.DiagonalQubitUnitary(np.array([1, 1j, 0.6 + 0.8j, -1]), wires=["a", 3]), qp.RY(A1, "a"), qp.CRZ(A2, wires=[3, "b"])]
    if ci < 2 * len(DEVICES) and clifford:
        # fixed corpus circuits for default.clifford (entangled stabilizer states on string / unordered device labels)
        if ci < len(DEVICES):
            nw, labels = 3, ["b", 3, "a"]
            ops = [qp.Hadamard("b"), qp.S("b"), qp.CNOT(["b", "a"]), qp.Hadamard(3), qp.CZ([3, "a"]), qp.SX("a"), qp.ISWAP(["b", 3]),
                   qp.adjoint(qp.S(3)), qp.Hadamard("a"), qp.S("a")]
        else:
            nw, labels = 3, [2, 0, 1]
            ops = [qp.Hadamard(2), qp.CNOT([2, 0]), qp.S(0), qp.Hadamard(1), qp.CZ([1, 2]), qp.SX(0), qp.CY([1, 0]), qp.S(2), qp.SWAP([0, 1]), qp.Hadamard(0)]
    ms, mdesc = [], []
    for _ in range(rng.randint(1, 2)):
        r = rng.random()
        if r < 0.4 and not devname.startswith("default.tensor"):
            k = rng.randint(1, nw); ws = rng.sample(labels, k)
            ms.append(qp.probs(wires=ws)); mdesc.append({"kind": "probs", "wires": ws})
        elif clifford and rng.random() < 0.5:
            # default.clifford converts Sum / LinearCombination observables to Pauli strings itself (letters must stay paired with their wires)
            m_, d_ = rand_lincomb(labels)
            ms.append(m_); mdesc.append(d_)
        else:
            k = rng.randint(1, min(2, nw)); ws = rng.sample(labels, k)
            word = [rng.choice("XYZ") for _ in ws]
            o = qp.prod(*[getattr(qp, "Pauli" + ch)(w) for ch, w in zip(word, ws)]) if k > 1 else getattr(qp, "Pauli" + word[0])(ws[0])
            if rng.random() < 0.7:
                ms.append(qp.expval(o)); mdesc.append({"kind": "expval", "word": word, "wires": ws})
            else:
                ms.append(qp.var(o)); mdesc.append({"kind": "var", "word": word, "wires": ws})
    if ci < 2 * len(DEVICES) and not clifford:
        # corpus circuits are measured on every wire (a random one- or two-wire observable can be blind to a misplaced factor)
        ms, mdesc = [], []
        for word, ws in ((["Z"], ["b"]), (["X"], [3]), (["Y"], ["a"]), (["Y", "Z"], ["a", "b"]), (["X", "X"], [3, "a"])):
            o = qp.prod(*[getattr(qp, "Pauli" + ch)(w) for ch, w in zip(word, ws)]) if len(ws) > 1 else getattr(qp, "Pauli" + word[0])(ws[0])
            ms.append(qp.expval(o)); mdesc.append({"kind": "expval", "word": word, "wires": ws})
    if ci < 2 * len(DEVICES) and clifford:
        # corpus measurements: sums whose terms list their factors in a wire order different from the first-seen wire order of the
        # whole observable (every word below has expectation +-1 in the corpus state, so no term is blind), next to a plain word
        # and probabilities
        if ci < len(DEVICES):
            t1 = [(1.0, "XY", [3, "a"]), (0.5, "ZY", ["a", 3])]
            t2 = [(0.7, "YXY", ["b", 3, "a"]), (-1.2, "XZ", ["a", 3]), (0.4, "ZYY", ["a", "b", 3])]
            t3 = [(0.5, "YX", ["a", 3]), (-1.5, "YZ", [3, "a"]), (0.25, "Y", ["b"]), (2.0, "XYZ", ["a", "b", 3])]
            word, ws, pw = ["X", "Z"], ["a", 3], ["a", "b"]
        else:
            t1 = [(1.0, "YZ", [2, 1]), (0.5, "YZ", [1, 2])]
            t2 = [(0.3, "XZX", [2, 0, 1]), (-0.8, "ZZY", [1, 0, 2]), (1.1, "YZ", [1, 2]), (0.6, "Z", [0])]
            t3 = [(-0.75, "XX", [1, 2]), (2.0, "ZY", [2, 1]), (0.25, "ZYZ", [0, 1, 2])]
            word, ws, pw = ["Y", "Z"], [2, 1], [1, 2]
        ms, mdesc = [], []
        for kind, style, terms in (("expval_sum", "sum", t1), ("expval_sum", "hamiltonian", t2), ("expval_sum", "dot", t3), ("var_sum", "sum", t1),
                                   ("var_sum", "hamiltonian", t3), ("expval_sum", "hamiltonian", t1), ("expval_sum", "sum", t2)):
            m_, d_ = lincomb(kind, style, [(c, list(w), x) for c, w, x in terms])
            ms.append(m_); mdesc.append(d_)
        ms.append(qp.expval(pauli_word(word, ws))); mdesc.append({"kind": "expval", "word": word, "wires": ws})
        ms.append(qp.probs(wires=pw)); mdesc.append({"kind": "probs", "wires": pw})
    run = {"labels": labels, "dev_wires": labels, "device": devname, "ops": [repr(o) for o in ops], "meas": mdesc, "status": "ok", "n": nw}
    runs.append(run)
    pending.append((run, ops, labels))
    try:
        if devname.startswith("default.tensor"):
            dev = qp.device("default.tensor", wires=labels, method=devname.split(":")[1], **({"max_bond_dim": 64} if devname.endswith("mps") else {}))
        else:
            dev = qp.device(devname, wires=labels)
        tape = qp.tape.QuantumScript(ops, ms)
        res = qp.execute([tape], dev)[0]
        res = res if isinstance(res, tuple) else (res,)
        run["results"] = [jsonable(r) for r in res]
        run["shapes"] = [list(np.shape(r)) for r in res]
        # reference shapes from default.qubit for null.qubit comparison
        if devname == "null.qubit":
            ref = qp.execute([tape], qp.device("default.qubit", wires=labels))[0]
            ref = ref if isinstance(ref, tuple) else (ref,)
            run["ref_shapes"] = [list(np.shape(r)) for r in ref]
    except NotExtractable as e:
        run["status"], run["detail"] = "notex", str(e)[:200]
    except Exception as e:
        run["status"], run["detail"] = "error", f"{type(e).__name__}: {str(e)[:300]}"
# second pass: exact reference circuits for Coq (translator patches active from here on)
install_patches()
for run, ops, labels in pending:
    if run["status"] != "ok":
        continue
    try:
        # reference circuit: a TrotterProduct is replaced by its documented factor sequence (each factor is exactly representable,
        # the product is not recognisable as a constant matrix)
        ref = []
        for o in ops:
            ref += list(o.decomposition()) if o.name == "TrotterProduct" else [o]
        run["circuit"] = exact_circuit_gallina(ref, labels)
    except NotExtractable as e:
        run["status"], run["detail"] = "notex", str(e)[:200]
    except Exception as e:
        run["status"], run["detail"] = "notex", f"reference: {type(e).__name__}: {str(e)[:300]}"
print(json.dumps({"runs": runs}))
