"""C21: dynamic circuits (MCM with reset / postselect, conditionals on measurement-value arithmetic, MCM statistics)
executed with mcm_method deferred / tree-traversal (analytic) and one-shot (shots); plus the branch circuits of the
independent reference (one exact circuit per outcome history) for the Coq exact simulator."""
import sys, math, json, random, math, itertools, warnings, operator
sys.path.insert(0, "/verif/harness")
from qrules import *
from qx import pyth_angle, exact_circuit_gallina
import numpy as np
warnings.filterwarnings("ignore")
req = json.load(sys.stdin)
rng = random.Random(req["seed"])
rng2 = random.Random(req["seed"] * 7919 + 21)      # independent stream for the reflected-arithmetic twins
tier = req["tier"]
install_patches()
PREDS = ["m", "not", "and", "or", "xor", "ge2"]
# Arithmetic on measurement values with the CONSTANT ON THE LEFT (reflected operators c - m, c + m, c * m, c - (m + m')):
# an expression is a nested list [op, lhs, rhs] with leaves "m<i>" (i-th mid-circuit measurement) or an integer constant.
# expr_py evaluates it on the integer outcomes of one history (harness reference, never touches PennyLane);
# expr_pl builds the MeasurementValue with the very same python operators, so that `3 - m0` goes through __rsub__ etc.
BINOPS = {"+": operator.add, "-": operator.sub, "*": operator.mul, "==": operator.eq, ">=": operator.ge, "<": operator.lt}


def expr_py(e, b):
    if isinstance(e, int):
        return e
    if isinstance(e, str):
        return b[int(e[1:])]
    x, y = expr_py(e[1], b), expr_py(e[2], b)
    return {"+": lambda: x + y, "-": lambda: x - y, "*": lambda: x * y, "==": lambda: int(x == y), ">=": lambda: int(x >= y), "<": lambda: int(x < y)}[e[0]]()


def expr_pl(e, ms):
    if isinstance(e, int):
        return e
    if isinstance(e, str):
        return ms[int(e[1:])]
    return BINOPS[e[0]](expr_pl(e[1], ms), expr_pl(e[2], ms))


def expr_idx(e):
    return [] if isinstance(e, int) else [int(e[1:])] if isinstance(e, str) else sorted(set(expr_idx(e[1]) + expr_idx(e[2])))


# reflected-operator twins of the plain predicates / statistics (same truth table, constant on the left); rng2 decides
# when a generated plain kind is replaced by its twin, so the main random stream (and hence the circuits) is unchanged
def twin_pred(kind, idx):
    i, j = (idx + idx)[:2]
    return {"m": ["==", ["+", 1, f"m{i}"], 2], "not": ["-", 1, f"m{i}"], "and": ["==", ["-", 2, ["+", f"m{i}", f"m{j}"]], 0],
            "or": ["<", ["-", 2, ["+", f"m{i}", f"m{j}"]], 2], "xor": ["==", ["-", 2, ["+", f"m{i}", f"m{j}"]], 1],
            "ge2": [">=", ["+", ["*", 2, f"m{i}"], f"m{j}"], 2]}[kind]


def pred_py(kind, idx, b):
    v = [b[i] for i in idx]
    return {"m": lambda: v[0] == 1, "not": lambda: v[0] == 0, "and": lambda: v[0] == 1 and v[1] == 1, "or": lambda: v[0] == 1 or v[1] == 1,
            "xor": lambda: v[0] + v[1] == 1, "ge2": lambda: 2 * v[0] + v[1] >= 2}[kind]()


def pred_pl(kind, ms):
    return {"m": lambda: ms[0], "not": lambda: ms[0] == 0, "and": lambda: ms[0] & ms[1], "or": lambda: ms[0] | ms[1],
            "xor": lambda: ms[0] + ms[1] == 1, "ge2": lambda: 2 * ms[0] + ms[1] >= 2}[kind]()


def gate(g):
    cls = getattr(qp, g["name"])
    return cls(*g["params"], wires=g["wires"])


def gen_spec(nw, kmax):
    steps, nm = [], 0
    G1 = ["RX", "RY", "RZ", "Hadamard", "PauliX", "S", "PhaseShift"]
    G2 = ["CNOT", "CZ", "CRX", "IsingXX"]
    for _ in range(rng.randint(3, 9)):
        r = rng.random()
        if r < 0.4 or (nw == 1 and r < 0.6):
            n = rng.choice(G1); cls = getattr(qp, n)
            steps.append({"t": "g", "name": n, "params": [pyth_angle(rng) for _ in range(cls.num_params)], "wires": [rng.randrange(nw)]})
        elif r < 0.55 and nw > 1:
            n = rng.choice(G2); cls = getattr(qp, n)
            steps.append({"t": "g", "name": n, "params": [pyth_angle(rng) for _ in range(cls.num_params)], "wires": rng.sample(range(nw), 2)})
        elif r < 0.8 and nm < kmax:
            steps.append({"t": "mcm", "wire": rng.randrange(nw), "reset": rng.random() < 0.3, "postselect": rng.choice([None, None, None, 0, 1])})
            nm += 1
        elif nm > 0:
            kind = rng.choice(PREDS if nm > 1 else PREDS[:2])
            idx = rng.sample(range(nm), 2) if kind in ("and", "or", "xor", "ge2") else [rng.randrange(nm)]
            n = rng.choice(G1); cls = getattr(qp, n)
            steps.append({"t": "cond", "pred": kind, "idx": idx, "name": n, "params": [pyth_angle(rng) for _ in range(cls.num_params)], "wires": [rng.randrange(nw)]})
            if rng2.random() < 0.3:
                steps[-1].update({"pred": "expr", "expr": twin_pred(kind, idx)})
    if nm == 0:
        steps.append({"t": "mcm", "wire": 0, "reset": False, "postselect": None}); nm = 1
    meas = []
    for _ in range(rng.randint(1, 3)):
        r = rng.random()
        if r < 0.35:
            ws = rng.sample(range(nw), rng.randint(1, min(2, nw)))
            meas.append({"k": "expval", "word": [rng.choice("XYZ") for _ in ws], "wires": ws})
        elif r < 0.55:
            meas.append({"k": "probs", "wires": rng.sample(range(nw), rng.randint(1, nw))})
        elif r < 0.8:
            meas.append({"k": "expval_mcm", "i": rng.randrange(nm)})
            if rng2.random() < 0.4:
                i, c = meas[-1]["i"], rng2.randint(2, 3)
                e = rng2.choice([["-", c, f"m{i}"], ["+", c, f"m{i}"], ["*", c, f"m{i}"], ["-", c, ["+", f"m{i}", f"m{rng2.randrange(nm)}"]]])
                meas[-1] = {"k": "expval_expr", "expr": e, "idx": expr_idx(e)}
        else:
            meas.append({"k": "probs_mcm", "idx": rng.sample(range(nm), rng.randint(1, min(2, nm)))})
    return {"nw": nw, "steps": steps, "meas": meas, "nm": nm}


def qfunc(spec):
    def f():
        ms = []
        for s in spec["steps"]:
            if s["t"] == "g":
                gate(s)
            elif s["t"] == "mcm":
                ms.append(qp.measure(s["wire"], reset=s["reset"], postselect=s["postselect"]))
            else:
                pr = expr_pl(s["expr"], ms) if s["pred"] == "expr" else pred_pl(s["pred"], [ms[i] for i in s["idx"]])
                qp.cond(pr, lambda: gate(s))()
        out = []
        for m in spec["meas"]:
            if m["k"] == "expval":
                o = qp.prod(*[getattr(qp, "Pauli" + c)(w) for c, w in zip(m["word"], m["wires"])]) if len(m["wires"]) > 1 else getattr(qp, "Pauli" + m["word"][0])(m["wires"][0])
                out.append(qp.expval(o))
            elif m["k"] == "probs":
                out.append(qp.probs(wires=m["wires"]))
            elif m["k"] == "expval_mcm":
                out.append(qp.expval(ms[m["i"]]))
            elif m["k"] == "expval_expr":
                out.append(qp.expval(expr_pl(m["expr"], ms)))
            else:
                out.append(qp.probs(op=[ms[i] for i in m["idx"]]))
        return tuple(out)
    return f


P0 = [[Sym.of(1), Sym.of(0)], [Sym.of(0), Sym.of(0)]]
P1 = [[Sym.of(0), Sym.of(0)], [Sym.of(0), Sym.of(1)]]
XS = [[Sym.of(0), Sym.of(1)], [Sym.of(1), Sym.of(0)]]


def branch_circuits(spec):
    set_cfg(8, 8, 0)
    order = list(range(spec["nw"]))
    out = []
    for b in itertools.product([0, 1], repeat=spec["nm"]):
        gates, mi, dead = [], 0, False
        for s in spec["steps"]:
            if s["t"] == "g":
                gates.append(exact_circuit_gallina([gate(s)], order)[1:-1])
            elif s["t"] == "mcm":
                bit = b[mi]; mi += 1
                if s["postselect"] is not None and s["postselect"] != bit:
                    dead = True
                gates.append(g_gate([s["wire"]], P1 if bit else P0))
                if s["reset"] and bit == 1:
                    gates.append(g_gate([s["wire"]], XS))
            else:
                if (expr_py(s["expr"], b) != 0) if s["pred"] == "expr" else pred_py(s["pred"], s["idx"], b):
                    gates.append(exact_circuit_gallina([gate(s)], order)[1:-1])
        out.append({"b": list(b), "dead": dead, "circuit": "[" + ";\n ".join(gates) + "]"})
    return out


def js(x):
    return np.asarray(x, dtype=float).tolist()


cases = []
ncase = 22 if tier == "quick" else 70
A1, A2, A3 = 2 * math.atan2(4, 3), 2 * math.atan2(3, 4), 2 * math.atan2(12, 5)     # Pythagorean angles (exactly representable)
CORPUS = [
    # a condition on a LATER measurement combined with an earlier one (all branches of a two-level tree must be re-entered cleanly)
    {"nw": 3, "nm": 2, "steps": [{"t": "g", "name": "RX", "params": [A1], "wires": [0]}, {"t": "mcm", "wire": 0, "reset": False, "postselect": None},
                                 {"t": "g", "name": "RY", "params": [A2], "wires": [1]}, {"t": "mcm", "wire": 1, "reset": False, "postselect": None},
                                 {"t": "cond", "pred": "m", "idx": [0], "name": "RX", "params": [A3], "wires": [2]},
                                 {"t": "cond", "pred": "and", "idx": [0, 1], "name": "RY", "params": [A1], "wires": [2]}],
     "meas": [{"k": "expval", "word": ["Z"], "wires": [2]}, {"k": "expval_mcm", "i": 0}]},
    {"nw": 2, "nm": 3, "steps": [{"t": "g", "name": "RY", "params": [A2], "wires": [0]}, {"t": "mcm", "wire": 0, "reset": False, "postselect": None},
                                 {"t": "g", "name": "RX", "params": [A1], "wires": [0]}, {"t": "mcm", "wire": 0, "reset": False, "postselect": None},
                                 {"t": "g", "name": "RY", "params": [A3], "wires": [1]}, {"t": "mcm", "wire": 1, "reset": False, "postselect": None},
                                 {"t": "cond", "pred": "xor", "idx": [1, 2], "name": "RX", "params": [A2], "wires": [0]},
                                 {"t": "cond", "pred": "and", "idx": [0, 2], "name": "RZ", "params": [A1], "wires": [0]}],
     "meas": [{"k": "expval", "word": ["X"], "wires": [0]}, {"k": "probs_mcm", "idx": [1, 2]}]},
    # reset together with postselection on 1 (the wire must come back in |0>) and a gate on that wire afterwards
    {"nw": 2, "nm": 1, "steps": [{"t": "g", "name": "RX", "params": [A1], "wires": [0]}, {"t": "mcm", "wire": 0, "reset": True, "postselect": 1},
                                 {"t": "g", "name": "RY", "params": [A2], "wires": [0]}, {"t": "cond", "pred": "m", "idx": [0], "name": "RX", "params": [A3], "wires": [1]}],
     "meas": [{"k": "expval", "word": ["Z"], "wires": [0]}, {"k": "expval", "word": ["Z"], "wires": [1]}, {"k": "expval_mcm", "i": 0}]},
    {"nw": 2, "nm": 2, "steps": [{"t": "g", "name": "RY", "params": [A3], "wires": [1]}, {"t": "mcm", "wire": 1, "reset": True, "postselect": 0},
                                 {"t": "g", "name": "Hadamard", "params": [], "wires": [1]}, {"t": "mcm", "wire": 1, "reset": True, "postselect": 1},
                                 {"t": "g", "name": "RX", "params": [A1], "wires": [1]}],
     "meas": [{"k": "probs", "wires": [1, 0]}]},
    # a postselected outcome that is impossible below one branch of an earlier measurement of the same wire (recorded finding for tree-traversal)
    {"nw": 2, "nm": 2, "steps": [{"t": "g", "name": "RY", "params": [A1], "wires": [1]}, {"t": "mcm", "wire": 1, "reset": False, "postselect": None},
                                 {"t": "mcm", "wire": 1, "reset": False, "postselect": 0}, {"t": "g", "name": "RX", "params": [A2], "wires": [0]}],
     "meas": [{"k": "expval", "word": ["Z"], "wires": [1]}, {"k": "expval", "word": ["Y"], "wires": [0]}]},
    # reflected arithmetic (constant on the LEFT of a measurement value) in predicates and in statistics; all three methods
    # "exactly one zero among (m0, m1)": 2 - (m0 + m1) == 1; statistics 3 - m0 and 2 - (m0 + m1)
    {"nw": 3, "nm": 2, "one_shot": True,
     "steps": [{"t": "g", "name": "RX", "params": [A1], "wires": [0]}, {"t": "g", "name": "RX", "params": [A2], "wires": [1]},
               {"t": "mcm", "wire": 0, "reset": False, "postselect": None}, {"t": "mcm", "wire": 1, "reset": False, "postselect": None},
               {"t": "cond", "pred": "expr", "expr": ["==", ["-", 2, ["+", "m0", "m1"]], 1], "idx": [0, 1], "name": "RX", "params": [A3], "wires": [2]}],
     "meas": [{"k": "expval", "word": ["Z"], "wires": [2]}, {"k": "expval_expr", "expr": ["-", 3, "m0"], "idx": [0]},
              {"k": "expval_expr", "expr": ["-", 2, ["+", "m0", "m1"]], "idx": [0, 1]}]},
    # bare 1 - m0 as a (truthy) predicate, 1 + m1 == 2, 2 * m0 + m1 >= 2 after a reset; statistics 2 * m0, 3 + m1, 3 - 2 * m1
    {"nw": 2, "nm": 2, "one_shot": True,
     "steps": [{"t": "g", "name": "RY", "params": [A2], "wires": [0]}, {"t": "mcm", "wire": 0, "reset": True, "postselect": None},
               {"t": "cond", "pred": "expr", "expr": ["-", 1, "m0"], "idx": [0], "name": "RX", "params": [A1], "wires": [1]},
               {"t": "g", "name": "RY", "params": [A3], "wires": [0]}, {"t": "mcm", "wire": 0, "reset": False, "postselect": None},
               {"t": "cond", "pred": "expr", "expr": ["==", ["+", 1, "m1"], 2], "idx": [1], "name": "RY", "params": [A2], "wires": [1]},
               {"t": "cond", "pred": "expr", "expr": [">=", ["+", ["*", 2, "m0"], "m1"], 2], "idx": [0, 1], "name": "RZ", "params": [A1], "wires": [1]}],
     "meas": [{"k": "expval", "word": ["Y"], "wires": [1]}, {"k": "expval_expr", "expr": ["*", 2, "m0"], "idx": [0]},
              {"k": "expval_expr", "expr": ["+", 3, "m1"], "idx": [1]}, {"k": "expval_expr", "expr": ["-", 3, ["*", 2, "m1"]], "idx": [1]}]},
    # postselection on outcome 0 of the first measurement (every kept history has m0 = 0): 1 - m0 always fires, 2 - (m0 + m1) < 2 iff m1
    {"nw": 2, "nm": 2, "one_shot": True,
     "steps": [{"t": "g", "name": "RX", "params": [A1], "wires": [0]}, {"t": "mcm", "wire": 0, "reset": False, "postselect": 0},
               {"t": "g", "name": "RY", "params": [A2], "wires": [1]}, {"t": "mcm", "wire": 1, "reset": False, "postselect": None},
               {"t": "cond", "pred": "expr", "expr": ["-", 1, "m0"], "idx": [0], "name": "RY", "params": [A3], "wires": [1]},
               {"t": "cond", "pred": "expr", "expr": ["<", ["-", 2, ["+", "m0", "m1"]], 2], "idx": [0, 1], "name": "RX", "params": [A2], "wires": [0]}],
     "meas": [{"k": "expval", "word": ["Z"], "wires": [0]}, {"k": "expval", "word": ["Z"], "wires": [1]}, {"k": "expval_mcm", "i": 0},
              {"k": "expval_expr", "expr": ["-", 2, ["+", "m0", "m1"]], "idx": [0, 1]}]},
]
for ci in range(ncase):
    nw = rng.choice([1, 2, 2, 3])
    spec = gen_spec(nw, 3 if tier == "quick" else 5)
    if ci < len(CORPUS):
        spec = CORPUS[ci]
    case = {"spec": spec, "status": "ok"}
    cases.append(case)
    try:
        case["branches"] = branch_circuits(spec)
        f = qfunc(spec)
        res = {}
        for method in ("deferred", "tree-traversal"):
            try:
                dev = qp.device("default.qubit", wires=spec["nw"] + (spec["nm"] if method == "deferred" else 0))
                out = qp.QNode(f, dev, mcm_method=method)()
                out = out if isinstance(out, (tuple, list)) else (out,)
                res[method] = [js(o) for o in out]
            except Exception as e:
                res[method] = f"raised {type(e).__name__}: {str(e)[:200]}"
        draw = rng.random() < 0.4
        if draw or spec.get("one_shot"):        # corpus cases marked one_shot are sampled for every seed (fixed device seed)
            try:
                shots = 6000 if tier == "quick" else 40000
                dev = qp.device("default.qubit", wires=spec["nw"], seed=rng.randrange(10 ** 6) if draw else 210000 + ci)
                out = qp.set_shots(qp.QNode(f, dev, mcm_method="one-shot"), shots)()
                out = out if isinstance(out, (tuple, list)) else (out,)
                res["one-shot"] = {"shots": shots, "values": [js(o) for o in out]}
            except Exception as e:
                res["one-shot"] = f"raised {type(e).__name__}: {str(e)[:200]}"
        case["results"] = res
    except NotExtractable as e:
        case["status"], case["detail"] = "notex", str(e)[:200]
    except Exception as e:
        case["status"], case["detail"] = "error", f"{type(e).__name__}: {str(e)[:300]}"
print(json.dumps({"cases": cases}))
