"""C33: runs every built-in device's REAL preprocessing program, stage by stage, on generated circuits.

For every case it records
  * the stage names of the program and, per stage, Ok (with the abstractly encoded output batch) or Err,
  * the oracle tables the Coq model needs (stopping condition / validators' predicates evaluated by the predicates the
    program itself carries, one-level decompositions, input->output tables of the contract-only rewriters),
  * the direct checks (a): the device's own module-level predicates evaluated on the final tapes, wires on the device,
  * (b) dev.execute(final tapes) + post-processing against an INDEPENDENT numpy simulation of the original circuit
    (own branching state-vector simulator; templates / symbolic operators expanded by formulas written here, not by
    PennyLane decompositions) and, when the circuit is unitary and representable over Q(zeta_8), the exact circuit text
    for the Coq reference simulation,
  * (c) the classifier's reasons why a circuit is unsupported.
JSON on stdin: {"tier", "seed"}; one JSON line on stdout."""
import sys, json, random, math, time, warnings, copy
sys.path.insert(0, "/verif/harness")
warnings.filterwarnings("ignore")
import numpy as np
import pennylane as qp
from pennylane import numpy as pnp
from pennylane.devices import ExecutionConfig, MCMConfig
from pennylane.operation import Operation, StatePrepBase
from pennylane.ops import Conditional, MidMeasure
from pennylane.measurements import StateMeasurement, SampleMeasurement
import pennylane.devices.default_qubit as DQ
import pennylane.devices.default_mixed as DM
import pennylane.devices.reference_qubit as RQ
import pennylane.devices.default_clifford as DC
import pennylane.devices.default_tensor as DT
import pennylane.devices.null_qubit as NQ
from qx import pyth_angle, mat_to_sym, g_gate, set_cfg
from qsym import NotExtractable

req = json.load(sys.stdin)
tier = req["tier"]
rng = random.Random(req["seed"] * 1000003 + 33)
T0 = time.time()

# ----------------------------------------------------------------------------------------------------------------
# independent matrices (written here from the textbook definitions)
I2 = np.eye(2, dtype=complex)
X = np.array([[0, 1], [1, 0]], dtype=complex)
Y = np.array([[0, -1j], [1j, 0]], dtype=complex)
Z = np.array([[1, 0], [0, -1]], dtype=complex)
H = np.array([[1, 1], [1, -1]], dtype=complex) / math.sqrt(2)
CNOTM = np.array([[1, 0, 0, 0], [0, 1, 0, 0], [0, 0, 0, 1], [0, 0, 1, 0]], dtype=complex)


def rz(t):
    return np.array([[np.exp(-0.5j * t), 0], [0, np.exp(0.5j * t)]])


def ry(t):
    c, s = math.cos(t / 2), math.sin(t / 2)
    return np.array([[c, -s], [s, c]], dtype=complex)


def rot(phi, theta, omega):
    return rz(omega) @ ry(theta) @ rz(phi)


def ctrl_mat(M, cvals):
    d, k = M.shape[0], len(cvals)
    out = np.eye(d * 2 ** k, dtype=complex)
    pat = 0
    for b in cvals:
        pat = (pat << 1) | (1 if b else 0)
    out[pat * d:(pat + 1) * d, pat * d:(pat + 1) * d] = M
    return out


def dft(k):
    N = 2 ** k
    return np.array([[np.exp(2j * math.pi * a * b / N) for b in range(N)] for a in range(N)]) / math.sqrt(N)


# ----------------------------------------------------------------------------------------------------------------
# generator: every item = (pennylane op, reference items, descriptor string, tags)
G1 = ["RX", "RY", "RZ", "PhaseShift", "Hadamard", "PauliX", "PauliY", "PauliZ", "S", "T", "SX"]
G2 = ["CNOT", "CZ", "CY", "SWAP", "CRX", "CRY", "CRZ", "IsingXX", "IsingZZ", "ControlledPhaseShift", "ISWAP"]
C1 = ["Hadamard", "PauliX", "PauliY", "PauliZ", "S", "SX"]
C2 = ["CNOT", "CZ", "CY", "SWAP", "ISWAP"]


class NoDecompGate(Operation):
    """an operation with neither a matrix nor a decomposition: unsupported everywhere (null.qubit keeps it)"""
    num_wires = 1
    num_params = 0


def angle(train=False):
    a = pyth_angle(rng)
    return pnp.array(a, requires_grad=True) if train else a


def prim(labels, clifford=False, train=False, nmax=2):
    if rng.random() < 0.55 or len(labels) == 1 or nmax < 2:
        nm = rng.choice(C1 if clifford else G1); ws = [rng.choice(labels)]
    else:
        nm = rng.choice(C2 if clifford else G2); ws = rng.sample(labels, 2)
    cls = getattr(qp, nm)
    ps = [angle(train and rng.random() < 0.6) for _ in range(cls.num_params)]
    op = cls(*ps, wires=ws)
    M = np.asarray(cls.compute_matrix(*[float(p) for p in ps]), dtype=complex)
    return op, M, ws, f"{nm}({','.join('%.6f' % float(p) for p in ps)})@{ws}"


def symbolic(labels, clifford=False, depth=0):
    """Adjoint / Pow / Controlled (nested up to 2) of a primitive; returns op, matrix on `wires`, wires, descriptor"""
    if depth >= 2 or (depth > 0 and rng.random() < 0.5):
        return prim(labels, clifford, nmax=1 if len(labels) < 3 else 2)
    kind = rng.choice(["adj", "pow", "ctrl"])
    op, M, ws, d = symbolic(labels, clifford, depth + 1)
    free = [l for l in labels if l not in ws]
    if kind == "ctrl" and not free:
        kind = "adj"
    if kind == "adj":
        return qp.adjoint(op), M.conj().T, ws, f"Adjoint({d})"
    if kind == "pow":
        z = rng.choice([2, 3, -1, 2])
        Mz = np.linalg.matrix_power(M, z) if z > 0 else M.conj().T
        return qp.pow(op, z), Mz, ws, f"Pow({d},{z})"
    k = rng.randint(1, min(2, len(free)))
    cw = rng.sample(free, k)
    cv = [rng.random() < 0.7 for _ in cw]
    return qp.ctrl(op, control=cw, control_values=cv), ctrl_mat(M, cv), cw + ws, f"C({d};{cw};{[int(b) for b in cv]})"


def template(labels):
    kind = rng.choice(["QFT", "BasisEmbedding", "SEL", "AdjQFT", "AdjSEL"])
    k = rng.randint(1, min(3, len(labels)))
    ws = rng.sample(labels, k)
    if kind in ("QFT", "AdjQFT"):
        F = dft(k)
        if kind == "QFT":
            return qp.QFT(wires=ws), [("U", F, ws)], f"QFT@{ws}"
        return qp.adjoint(qp.QFT(wires=ws)), [("U", F.conj().T, ws)], f"Adjoint(QFT)@{ws}"
    if kind == "BasisEmbedding":
        bits = [rng.randint(0, 1) for _ in ws]
        return qp.BasisEmbedding(bits, wires=ws), [("U", X, [w]) for b, w in zip(bits, ws) if b], f"BasisEmbedding({bits})@{ws}"
    L = rng.randint(1, 2)
    wts = np.array([[[pyth_angle(rng) for _ in range(3)] for _ in ws] for _ in range(L)])
    items = []
    for l in range(L):
        for i, w in enumerate(ws):
            items.append(("U", rot(*wts[l, i]), [w]))
        if k > 1:
            r = (l % (k - 1)) + 1
            for i in range(k):
                items.append(("U", CNOTM, [ws[i], ws[(i + r) % k]]))
    op = qp.StronglyEntanglingLayers(wts, wires=ws)
    if kind == "SEL":
        return op, items, f"SEL({np.round(wts, 6).tolist()})@{ws}"
    return qp.adjoint(op), [("U", M.conj().T, w) for (_, M, w) in reversed(items)], f"Adjoint(SEL({np.round(wts, 6).tolist()}))@{ws}"


def rat_state(k):
    v = np.array([1.0 + 0j])
    for _ in range(k):
        p, q, r = rng.choice([(3, 4, 5), (4, 3, 5), (5, 12, 13), (0, 1, 1), (1, 0, 1)])
        v = np.kron(v, np.array([p / r, (1j if rng.random() < 0.5 else 1) * q / r]))
    return v


def gen_circuit(labels, flavour, clifford):
    """returns ops, ref items, descriptors, tags (set of reasons the circuit is unsupported / special)"""
    ops, ref, desc, tags = [], [], [], set()
    touched = set()
    n_mcm = 0

    def add_unitary(op, M, ws, d):
        ops.append(op); ref.append(("U", M, list(ws))); desc.append(d); touched.update(ws)

    if rng.random() < 0.2:     # initial state preparation
        k = rng.randint(1, len(labels)); ws = rng.sample(labels, k)
        if rng.random() < 0.5 or clifford:
            bits = [rng.randint(0, 1) for _ in ws]
            v = np.zeros(2 ** k, dtype=complex); v[int("".join(map(str, bits)), 2)] = 1
            ops.append(qp.BasisState(np.array(bits), wires=ws)); desc.append(f"BasisState({bits})@{ws}")
        else:
            v = rat_state(k)
            ops.append(qp.StatePrep(v, wires=ws)); desc.append(f"StatePrep({np.round(v, 6).tolist()})@{ws}")
        ref.append(("prep", v, ws)); touched.update(ws); tags.add("initial_prep")
    nops = rng.randint(2, 4 + len(labels))
    for _ in range(nops):
        r = rng.random()
        if flavour == "mcm" and r < 0.3 and n_mcm < 2:
            w = rng.choice(labels)
            # make sure both outcomes have non-zero probability
            op, M, ws, d = getattr(qp, "Hadamard")(w), H, [w], f"Hadamard()@{[w]}"
            add_unitary(op, M, ws, d)
            reset = rng.random() < 0.3
            post = rng.choice([0, 1]) if rng.random() < 0.15 else None
            mv = qp.measure(w, reset=reset, postselect=post)
            tag = f"m{n_mcm}"; n_mcm += 1
            ops.append(mv.measurements[0]); ref.append(("mcm", w, reset, post, tag)); desc.append(f"MCM({w},reset={reset},post={post})")
            tags.add("mcm")
            if post is not None:
                tags.add("postselect")
            for _c in range(rng.randint(1, 2)):
                val = rng.choice([0, 1])
                others = [l for l in labels if l != w] or labels
                if rng.random() < 0.3 and not clifford:
                    ps = [pyth_angle(rng) for _ in range(3)]; tw = rng.choice(others)
                    base, M, ws, d = qp.Rot(*ps, wires=tw), rot(*ps), [tw], f"Rot({ps})@{[tw]}"
                else:
                    base, M, ws, d = prim(others, clifford, nmax=1)
                ops.append(Conditional(mv == val, base)); ref.append(("cond", tag, val, M, ws)); desc.append(f"Cond({tag}=={val},{d})")
                touched.update(ws)
            touched.add(w)
            ops[-1]._c33_mv = mv  # keep for measurement of the mcm value
            gen_circuit.last_mv = (mv, tag)
        elif r < 0.22 and flavour in ("template", "mix"):
            op, items, d = template(labels)
            ops.append(op); ref.extend(items); desc.append(d); touched.update(op.wires.tolist()); tags.add("template")
        elif r < 0.45 and flavour in ("symbolic", "mix"):
            op, M, ws, d = symbolic(labels, clifford)
            add_unitary(op, M, ws, d); tags.add("symbolic")
        elif r < 0.53 and flavour in ("prep", "mix") and [l for l in labels if l not in touched]:
            fresh = [l for l in labels if l not in touched]
            k = rng.randint(1, min(2, len(fresh))); ws = rng.sample(fresh, k)
            if rng.random() < 0.5 or clifford:
                bits = [rng.randint(0, 1) for _ in ws]
                v = np.zeros(2 ** k, dtype=complex); v[int("".join(map(str, bits)), 2)] = 1
                ops.append(qp.BasisState(np.array(bits), wires=ws)); desc.append(f"BasisState({bits})@{ws}")
            else:
                v = rat_state(k)
                ops.append(qp.StatePrep(v, wires=ws)); desc.append(f"StatePrep({np.round(v, 6).tolist()})@{ws}")
            ref.append(("prep", v, ws)); touched.update(ws)
            if len(ops) > 1:
                tags.add("midprep")
        else:
            add_unitary(*prim(labels, clifford, train=(flavour == "train")))
    if flavour == "badop":
        w = rng.choice(labels)
        pos = rng.randint(0, len(ops))
        if rng.random() < 0.5:
            ops.insert(pos, NoDecompGate(wires=[w])); desc.insert(pos, f"NoDecompGate@{[w]}"); tags.add("unsupported_op:nodecomp")
        else:
            ops.insert(pos, qp.BitFlip(0.25, wires=w)); desc.insert(pos, f"BitFlip(0.25)@{[w]}"); tags.add("unsupported_op:channel")
        ref.insert(0, ("none",))
    return ops, ref, desc, tags


PAULI = {"X": X, "Y": Y, "Z": Z, "H": H, "I": I2}


def embed(M, ws, labels):
    """matrix on `ws` -> matrix on all `labels` (first label most significant)"""
    n, k = len(labels), len(ws)
    T = M.reshape([2] * (2 * k))
    full = np.eye(2 ** n, dtype=complex).reshape([2] * (2 * n))
    idx = [labels.index(w) for w in ws]
    # apply M to the row indices of the identity
    out = np.tensordot(T, full, axes=(list(range(k, 2 * k)), idx))
    out = np.moveaxis(out, list(range(k)), idx)
    return out.reshape(2 ** n, 2 ** n)


def gen_obs(labels, kind=None):
    """returns pennylane observable, matrix, wires, descriptor"""
    kind = kind or rng.choice(["pauli", "pauli", "word", "herm", "sum", "sprod", "hadamard", "proj"])
    if kind == "pauli":
        ch, w = rng.choice("XYZ"), rng.choice(labels)
        return getattr(qp, "Pauli" + ch)(w), PAULI[ch], [w], f"{ch}({w})"
    if kind == "hadamard":
        w = rng.choice(labels)
        return qp.Hadamard(w), H, [w], f"H({w})"
    if kind == "word":
        k = rng.randint(1, min(2, len(labels))); ws = rng.sample(labels, k)
        word = [rng.choice("XYZ") for _ in ws]
        o = qp.prod(*[getattr(qp, "Pauli" + ch)(w) for ch, w in zip(word, ws)]) if k > 1 else getattr(qp, "Pauli" + word[0])(ws[0])
        M = np.array([[1]], dtype=complex)
        for ch in word:
            M = np.kron(M, PAULI[ch])
        return o, M, ws, "@".join(f"{c}({w})" for c, w in zip(word, ws))
    if kind == "herm":
        k = rng.randint(1, min(2, len(labels))); ws = rng.sample(labels, k)
        A = np.array([[rng.randint(-3, 3) + 1j * rng.randint(-2, 2) for _ in range(2 ** k)] for _ in range(2 ** k)]) / 2
        A = A + A.conj().T
        return qp.Hermitian(A, wires=ws), A, ws, f"Hermitian({A.tolist()})@{ws}"
    if kind == "proj":
        w = rng.choice(labels); b = rng.randint(0, 1)
        P = np.zeros((2, 2), dtype=complex); P[b, b] = 1
        return qp.Projector([b], wires=[w]), P, [w], f"Projector({b})({w})"
    if kind == "sprod":
        o, M, ws, d = gen_obs(labels, "pauli")
        c = rng.choice([0.5, -1.5, 2.0])
        return qp.s_prod(c, o), c * M, ws, f"{c}*{d}"
    # sum of two terms (possibly non-commuting, possibly overlapping)
    o1, M1, w1, d1 = gen_obs(labels, rng.choice(["pauli", "word"]))
    o2, M2, w2, d2 = gen_obs(labels, rng.choice(["pauli", "word", "sprod"]))
    ws = list(dict.fromkeys(w1 + w2))
    M = embed(M1, w1, ws) + embed(M2, w2, ws)
    return qp.sum(o1, o2), M, ws, f"({d1})+({d2})"


def gen_measurements(labels, flavour, tags, clifford, mcm_val):
    ms, mref, desc = [], [], []
    for _ in range(rng.randint(1, 3)):
        r = rng.random()
        if "mcm" in tags and mcm_val is not None and r < 0.2:
            mv, tag = mcm_val
            ms.append(qp.expval(mv)); mref.append({"kind": "mcm_expval", "tag": tag}); desc.append(f"expval({tag})")
        elif r < 0.45:
            o, M, ws, d = gen_obs(labels)
            ms.append(qp.expval(o)); mref.append({"kind": "expval", "M": M, "ws": ws}); desc.append(f"expval({d})")
        elif r < 0.55:
            o, M, ws, d = gen_obs(labels, rng.choice(["pauli", "word", "herm", "sum"]))
            ms.append(qp.var(o)); mref.append({"kind": "var", "M": M, "ws": ws}); desc.append(f"var({d})")
        elif r < 0.75:
            k = rng.randint(1, len(labels)); ws = rng.sample(labels, k)
            ms.append(qp.probs(wires=ws)); mref.append({"kind": "probs", "ws": ws}); desc.append(f"probs({ws})")
        elif r < 0.83:
            ms.append(qp.probs()); mref.append({"kind": "probs", "ws": None}); desc.append("probs()"); tags.add("wireless")
        elif r < 0.93 and "mcm" not in tags:
            ms.append(qp.state()); mref.append({"kind": "state"}); desc.append("state()"); tags.add("wireless")
        elif "mcm" not in tags:
            k = rng.randint(1, len(labels)); ws = rng.sample(labels, k)
            ms.append(qp.density_matrix(wires=ws)); mref.append({"kind": "dm", "ws": ws}); desc.append(f"density_matrix({ws})")
        else:
            o, M, ws, d = gen_obs(labels, "pauli")
            ms.append(qp.expval(o)); mref.append({"kind": "expval", "M": M, "ws": ws}); desc.append(f"expval({d})")
    if flavour == "badmeas":
        r = rng.random()
        if r < 0.4:
            ms.append(qp.sample(wires=[labels[0]])); mref.append({"kind": "none"}); desc.append("sample"); tags.add("unsupported_meas:sample_analytic")
        elif r < 0.6:
            ms.append(qp.counts()); mref.append({"kind": "none"}); desc.append("counts"); tags.add("unsupported_meas:counts_analytic")
        else:
            class NoDiagObs(Operation):
                num_wires = 1
                num_params = 0
            ms.append(qp.var(NoDiagObs(wires=[labels[0]]))); mref.append({"kind": "none"}); desc.append("var(NoDiagObs)")
            tags.add("unsupported_obs:nodiag")
    return ms, mref, desc


# ----------------------------------------------------------------------------------------------------------------
# independent reference simulation (branching state vector)
def apply_u(psi, M, idx, n):
    k = len(idx)
    T = np.asarray(M, dtype=complex).reshape([2] * (2 * k))
    out = np.tensordot(T, psi, axes=(list(range(k, 2 * k)), idx))
    return np.moveaxis(out, list(range(k)), idx)


def simulate(ref, labels):
    n = len(labels)
    psi0 = np.zeros([2] * n, dtype=complex); psi0[(0,) * n] = 1
    branches = [(psi0, {})]
    for it in ref:
        if it[0] == "none":
            return None
        if it[0] == "U":
            idx = [labels.index(w) for w in it[2]]
            branches = [(apply_u(p, it[1], idx, n), o) for p, o in branches]
        elif it[0] == "cond":
            _, tag, val, M, ws = it
            idx = [labels.index(w) for w in ws]
            branches = [((apply_u(p, M, idx, n) if o[tag] == val else p), o) for p, o in branches]
        elif it[0] == "prep":
            _, v, ws = it
            idx = [labels.index(w) for w in ws]
            nb = []
            for p, o in branches:
                q = np.moveaxis(p, idx, list(range(len(idx)))).reshape(2 ** len(idx), -1)
                assert np.allclose(q[1:], 0), "state preparation on a wire that is not |0>"
                q = np.outer(np.asarray(v, dtype=complex), q[0]).reshape([2] * n)
                nb.append((np.moveaxis(q, list(range(len(idx))), idx), o))
            branches = nb
        elif it[0] == "mcm":
            _, w, reset, post, tag = it
            i = labels.index(w)
            nb = []
            for p, o in branches:
                for b in (0, 1):
                    if post is not None and b != post:
                        continue
                    q = np.zeros_like(p)
                    sl = [slice(None)] * n; sl[i] = b
                    q[tuple(sl)] = p[tuple(sl)]
                    if np.vdot(q, q).real < 1e-24:
                        continue
                    if reset and b == 1:
                        q = apply_u(q, X, [i], n)
                    o2 = dict(o); o2[tag] = b
                    nb.append((q, o2))
            branches = nb
    return branches


def ref_results(branches, mref, labels):
    n = len(labels)
    N = sum(np.vdot(p, p).real for p, _ in branches)
    out = []
    for m in mref:
        k = m["kind"]
        if k == "none":
            out.append(None)
        elif k == "mcm_expval":
            out.append(sum(np.vdot(p, p).real for p, o in branches if o.get(m["tag"]) == 1) / N)
        elif k in ("expval", "var"):
            idx = [labels.index(w) for w in m["ws"]]
            e1 = sum(np.vdot(p, apply_u(p, m["M"], idx, n)).real for p, _ in branches) / N
            if k == "expval":
                out.append(e1)
            else:
                e2 = sum(np.vdot(p, apply_u(p, m["M"] @ m["M"], idx, n)).real for p, _ in branches) / N
                out.append(e2 - e1 * e1)
        elif k == "probs":
            ws = m["ws"] if m["ws"] is not None else m.get("completed", labels)
            idx = [labels.index(w) for w in ws]
            acc = 0
            for p, _ in branches:
                pr = np.abs(p) ** 2
                other = tuple(i for i in range(n) if i not in idx)
                pr = pr.sum(axis=other) if other else pr
                rem = [i for i in range(n) if i in idx]
                acc = acc + np.transpose(pr, [rem.index(i) for i in idx]).reshape(-1)
            out.append(acc / N)
        elif k == "state":
            assert len(branches) == 1
            out.append(branches[0][0].reshape(-1) / math.sqrt(N))
        elif k == "dm":
            assert len(branches) == 1
            idx = [labels.index(w) for w in m["ws"]]
            q = np.moveaxis(branches[0][0], idx, list(range(len(idx)))).reshape(2 ** len(idx), -1) / math.sqrt(N)
            out.append(q @ q.conj().T)
    return out


# ----------------------------------------------------------------------------------------------------------------
# abstract encoding for the Coq model
class Enc:
    def __init__(self):
        self.wt, self.ot, self.mt, self.bt = [], {}, {}, {}

    def w(self, l):
        key = (type(l).__name__, str(l))
        if key not in self.wt:
            self.wt.append(key)
        return self.wt.index(key)

    def opkey(self, op):
        if isinstance(op, Conditional):
            return ("Cond", str(op.meas_val), self.opkey(op.base))
        try:
            h = op.hash
        except Exception:
            h = repr(op)
        return (type(op).__name__, op.name, h, tuple(self.w(x) for x in op.wires))

    def op(self, op):
        k = self.opkey(op)
        if k not in self.ot:
            self.ot[k] = len(self.ot) + 1
        return self.ot[k]

    def obs(self, o):
        if o is None:
            return None
        try:
            k = (type(o).__name__, o.hash)
        except Exception:
            k = (type(o).__name__, repr(o))
        if k not in self.bt:
            self.bt[k] = len(self.bt) + 1
        return self.bt[k]

    def mp(self, m):
        k = (type(m).__name__, self.obs(m.obs), str(m.mv) if getattr(m, "mv", None) is not None else None,
             str(getattr(m, "hyperparameters", "")) if hasattr(m, "hyperparameters") else "")
        if k not in self.mt:
            self.mt[k] = len(self.mt) + 1
        return self.mt[k]

    def tape(self, t):
        return {"ops": [[self.op(o), [self.w(x) for x in o.wires]] for o in t.operations],
                "mps": [[self.mp(m), self.obs(m.obs), [self.w(x) for x in m.wires]] for m in t.measurements],
                "shots": bool(t.shots)}


VALIDATORS = {"validate_device_wires", "validate_measurements", "validate_observables", "no_sampling", "no_analytic",
              "validate_multiprocessing_workers", "validate_adjoint_trainable_params", "no_counts", "_validate_channels",
              "warn_readout_error_state"}


def decomp_tables(enc, bt, tape):
    """tables of the decompose stage: accepted codes, one-level decompositions (the stage's own decomposer)"""
    kw = bt.kwargs
    sc = kw.get("stopping_condition", bt.args[0] if bt.args else None)
    if kw.get("stopping_condition_shots") is not None and tape.shots:
        sc = kw["stopping_condition_shots"]
    decomposer = kw.get("decomposer") or (lambda o: o.decomposition())
    skip = kw.get("skip_initial_state_prep", True)
    acc, dtab, prep, seen, over = set(), {}, set(), set(), [False]

    def accept(o):
        return bool(sc(o.base)) if isinstance(o, Conditional) else bool(sc(o))

    def walk(o, depth):
        c = enc.op(o)
        if c in seen:
            return
        seen.add(c)
        if len(seen) > 600 or depth > 40:
            over[0] = True
            return
        if isinstance(o, StatePrepBase):
            prep.add(c)
        if accept(o):
            acc.add(c)
            return
        try:
            if isinstance(o, Conditional):
                if not o.base.has_decomposition and kw.get("decomposer") is None:
                    return
                d = [Conditional(o.meas_val, b) for b in decomposer(o.base)]
            else:
                if not o.has_decomposition and kw.get("decomposer") is None:
                    return
                d = list(decomposer(o))
        except qp.exceptions.DecompositionUndefinedError:
            return
        for s in d:
            walk(s, depth + 1)
        dtab[c] = [[enc.op(s), [enc.w(x) for x in s.wires]] for s in d]

    for o in tape.operations:
        walk(o, 0)
    return {"acc": sorted(acc), "dtab": [[c, d] for c, d in sorted(dtab.items())], "prep": sorted(prep),
            "skip": bool(skip), "overflow": over[0]}


def stage_params(enc, bt, name, tapes, dev):
    """what the model needs to know about validator stages: the predicate tables of THIS bound transform"""
    kw, args = bt.kwargs, bt.args
    if name == "validate_device_wires":
        wires = kw.get("wires", args[0] if args else None)
        return {"kind": "vwires", "dw": None if not wires else [enc.w(x) for x in wires]}
    if name == "validate_measurements":
        ana = kw.get("analytic_measurements") or (lambda m: isinstance(m, StateMeasurement))
        samp = kw.get("sample_measurements") or (lambda m: isinstance(m, SampleMeasurement))
        A, S = set(), set()
        for t in tapes:
            for m in t.measurements:
                if ana(m):
                    A.add(enc.mp(m))
                if samp(m):
                    S.add(enc.mp(m))
        return {"kind": "vmeas", "ana": sorted(A), "samp": sorted(S)}
    if name == "validate_observables":
        sc = kw.get("stopping_condition", args[0] if args else None)
        if kw.get("stopping_condition_shots") is not None and any(t.shots for t in tapes):
            sc = kw["stopping_condition_shots"]
        ok = set()
        for t in tapes:
            for m in t.measurements:
                if m.obs is not None and sc(m.obs):
                    ok.add(enc.obs(m.obs))
        return {"kind": "vobs", "ok": sorted(ok)}
    if name == "no_sampling":
        return {"kind": "nosamp"}
    if name == "no_analytic":
        return {"kind": "noana"}
    # remaining validators: the documented condition, evaluated here from the input tapes
    ok = True
    for t in tapes:
        if name == "no_counts":
            ok &= not any(isinstance(m, qp.measurements.CountsMP) for m in t.measurements)
        elif name == "_validate_channels":
            ok &= not ((not t.shots) and any(isinstance(o, qp.operation.Channel) for o in t.operations))
        elif name == "validate_multiprocessing_workers":
            ok &= not any(isinstance(o, qp.Snapshot) for o in t.operations)
        elif name == "validate_adjoint_trainable_params":
            ok &= not any(qp.math.requires_grad(d) for o in t.operations[: t.num_preps] for d in o.data)
    return {"kind": "flag", "ok": bool(ok)}


# ----------------------------------------------------------------------------------------------------------------
# direct predicates (a): the device's OWN module-level predicates
def device_predicates(devname, mcm_final, grad, shots):
    allow = mcm_final != "deferred"
    std_ana = lambda m: isinstance(m, StateMeasurement)
    std_samp = lambda m: isinstance(m, SampleMeasurement)
    if devname in ("default.qubit", "null.qubit"):
        base = lambda o: DQ.stopping_condition(o, allow_mcms=allow)
        if devname == "null.qubit":
            opok = lambda o: (not NQ._op_has_decomp(o)) or base(o)
        elif grad == "adjoint":
            opok = lambda o: base(o) and DQ.adjoint_ops(o)
        else:
            opok = base
        mpok = DQ.accepted_sample_measurement if shots else DQ.accepted_analytic_measurement
        if grad == "adjoint":
            mp0 = mpok
            mpok = lambda m: mp0(m) and (std_samp(m) if shots else std_ana(m)) and (m.obs is None or DQ.adjoint_observables(m.obs))
        return opok, mpok, True
    if devname == "default.mixed":
        mp0 = DQ.accepted_sample_measurement if shots else DQ.accepted_analytic_measurement
        return DM.stopping_condition, (lambda m: mp0(m) and (m.obs is None or DM.observable_stopping_condition(m.obs))), True
    if devname == "reference.qubit":
        return RQ.supports_operation, (std_samp if shots else std_ana), False
    if devname == "default.clifford":
        mp0 = DQ.accepted_sample_measurement if shots else std_ana
        return DC.operation_stopping_condition, (lambda m: mp0(m) and (m.obs is None or DC.observable_stopping_condition(m.obs))), True
    if devname == "default.tensor":
        mp0 = std_samp if shots else std_ana
        return DT.stopping_condition, (lambda m: mp0(m) and (m.obs is None or DT.accepted_observables(m.obs))), True
    raise ValueError(devname)


def jsonable(x):
    a = np.asarray(x)
    if a.dtype == object:
        return None
    if np.iscomplexobj(a):
        return {"re": np.real(a).tolist(), "im": np.imag(a).tolist()}
    return {"re": a.astype(float).tolist()}


def flat_results(res, nmeas):
    if nmeas == 1 or not isinstance(res, (tuple, list)):
        return [res]
    return list(res)


def compare(got, exp, kind):
    g, e = np.asarray(got), np.asarray(exp)
    if kind == "state" and g.ndim == 2 and e.ndim == 1:      # default.mixed returns the density matrix
        e = np.outer(e, e.conj())
    if g.size != e.size:
        return 9.9
    return float(np.abs(g.reshape(-1) - e.reshape(-1)).max())


# ----------------------------------------------------------------------------------------------------------------
DEVICES = ["default.qubit", "default.mixed", "reference.qubit", "default.clifford", "default.tensor", "null.qubit"]
LABELSETS = [[0, 1, 2], ["a", "b", 7], ["q1", "aux", "z", 3], [0, 1], ["x", -1], [2, 0, 1, 3]]


def make_device(devname, wires):
    kw = {}
    if wires is not None:
        kw["wires"] = wires
    if devname == "default.tensor":
        kw.update(method="mps", max_bond_dim=64)
    return qp.device(devname, **kw)


def gen_case(ci):
    devname = DEVICES[ci % len(DEVICES)]
    clifford = devname == "default.clifford" and rng.random() < 0.8
    labels = list(rng.choice(LABELSETS))
    if tier == "quick" and len(labels) > 3 and rng.random() < 0.5:
        labels = labels[:3]
    flavour = rng.choice(["mix", "mix", "template", "symbolic", "prep", "mcm", "mcm", "train", "badop", "badmeas", "plain", "badwire"])
    wmode = rng.choice(["none", "same", "perm", "extra", "extra"]) if flavour != "badwire" else "missing"
    if wmode == "none":
        dw = None
    elif wmode == "same":
        dw = list(labels)
    elif wmode == "perm":
        dw = list(labels); rng.shuffle(dw)
    elif wmode == "extra":
        dw = list(labels) + ["spare", 99]; rng.shuffle(dw)
    else:
        dw = list(labels[:-1]) + ["spare"]
    grad = rng.choice([None, None, None, "adjoint", "backprop"])
    if flavour == "train":
        grad = rng.choice(["adjoint", "adjoint", "backprop", None])
    mcm = rng.choice([None, None, "deferred", "tree-traversal"])
    if devname == "default.tensor" and mcm == "tree-traversal":
        mcm = None
    shots = None
    if rng.random() < 0.12:
        shots = rng.choice([10, 25])
        if rng.random() < 0.5 and devname in ("default.qubit", "null.qubit"):
            mcm = "one-shot"
    return dict(devname=devname, clifford=clifford, labels=labels, flavour=flavour, wmode=wmode, dw=dw, grad=grad, mcm=mcm, shots=shots)


def run_case(ci, c):
    devname, labels, dw = c["devname"], c["labels"], c["dw"]
    if "fixed" in c:          # hand-written case of the fixed corpus: circuit, reference items and classifier tags given
        ops, ref, odesc, tags, ms, mref, mdesc = c["fixed"]()
    else:
        ops, ref, odesc, tags = gen_circuit(labels, c["flavour"], c["clifford"])
        mcm_val = getattr(gen_circuit, "last_mv", None) if "mcm" in tags else None
        ms, mref, mdesc = gen_measurements(labels, c["flavour"], tags, c["clifford"], mcm_val)
        gen_circuit.last_mv = None
    if c["shots"]:
        # finite shots: only (a)/(c) and the model are checked; sampleable measurements stay, state-like ones are dropped
        keep = [j for j, r in enumerate(mref) if r["kind"] in ("expval", "var", "probs", "mcm_expval")]
        ms = [ms[j] for j in keep] or [qp.probs(wires=[labels[0]])]
        mdesc = [mdesc[j] for j in keep] or [f"probs({[labels[0]]})"]
        tags = {t for t in tags if not t.startswith("unsupported_meas") and not t.startswith("unsupported_obs")}
        if c["flavour"] == "badmeas":
            ms.append(qp.state()); mdesc.append("state()"); tags.add("unsupported_meas:state_with_shots")
        else:
            ms.append(qp.sample(wires=[labels[0]])); mdesc.append(f"sample({[labels[0]]})")
        mref = [{"kind": "none"}] * len(ms)
    if devname == "null.qubit":
        tags = {t for t in tags if not t.startswith("unsupported_op")}
    if devname == "default.mixed" or (devname == "default.clifford" and c["shots"]):
        tags.discard("unsupported_op:channel")
    preps = [o for o in ops if isinstance(o, StatePrepBase)]
    allw = set(w for o in ops for w in o.wires) | set(w for m in ms for w in m.wires)
    if preps and isinstance(ops[0], StatePrepBase) and set(ops[0].wires) != allw:
        tags.add("initial_prep_subset")
    for d in mdesc:
        for k in ("Hermitian", "Projector", "H(", "+", "*"):
            if k in d:
                tags.add("obs:" + k.strip("("))
    used = list(dict.fromkeys([w for o in ops for w in o.wires] + [w for m in ms for w in m.wires]))
    if c["wmode"] == "missing" and labels[-1] not in used:
        ops.append(qp.PauliX(labels[-1])); ref.append(("U", X, [labels[-1]])); odesc.append(f"PauliX()@{[labels[-1]]}")
        used.append(labels[-1])
    if c["wmode"] == "missing":
        tags.add("unsupported_wire")
    # trainable=None: QuantumScript's default (every parameter trainable); [] = the forward pass a QNode builds for plain floats
    tape = qp.tape.QuantumScript(ops, ms, shots=c["shots"], trainable_params=c.get("trainable"))
    run = {"i": ci, "fixed": c.get("name"), "trainable_params": c.get("trainable"), "device": devname, "dev_wires": [str(x) for x in dw] if dw is not None else None, "labels": [str(l) for l in labels],
           "flavour": c["flavour"], "wmode": c["wmode"], "grad": c["grad"], "mcm": c["mcm"], "shots": c["shots"],
           "ops": odesc, "meas": mdesc, "tags": sorted(tags)}
    dev = make_device(devname, dw)
    cfg = ExecutionConfig(gradient_method=c["grad"], mcm_config=MCMConfig(mcm_method=c["mcm"]))
    try:
        cfg2 = dev.setup_execution_config(cfg, tape) if devname == "default.qubit" else dev.setup_execution_config(cfg)
        prog = dev.preprocess_transforms(cfg2)
    except Exception as e:
        run["status"] = "config_rejected"; run["detail"] = f"{type(e).__name__}: {str(e)[:160]}"
        return run
    mcm_final = cfg2.mcm_config.mcm_method
    if devname == "null.qubit" and mcm_final is None:
        mcm_final = "deferred"      # NullQubit.preprocess hands the config to DefaultQubit.preprocess without a circuit
    run["cfg"] = {"dev": DEVICES.index(devname), "grad": {None: 0, "adjoint": 1, "backprop": 2, "device": 0}.get(cfg2.gradient_method, 0),
                  "mcm": {"deferred": 0, "one-shot": 1, "tree-traversal": 2, None: 0}.get(mcm_final if devname in ("default.qubit", "null.qubit") else "deferred", 0),
                  "max_workers": bool(getattr(dev, "_max_workers", None)), "readout": getattr(dev, "readout_err", None) is not None,
                  "check_clifford": bool(getattr(dev, "_check_clifford", True)), "jit": False}
    names = [bt.tape_transform.__name__ for bt in prog]
    run["names"] = names
    # ---- staged run
    enc = Enc()
    run["input"] = enc.tape(tape)
    batch, posts, stages, failed = [tape], [], [], None
    for si, bt in enumerate(prog):
        name = names[si]
        st = {"name": name}
        try:
            if name == "decompose":
                tabs = [decomp_tables(enc, bt, t) for t in batch]
                st.update(kind="decomp", acc=sorted(set().union(*[t["acc"] for t in tabs])), prep=sorted(set().union(*[t["prep"] for t in tabs])),
                          skip=tabs[0]["skip"], overflow=any(t["overflow"] for t in tabs))
                dt = {}
                for t in tabs:
                    for cde, d in t["dtab"]:
                        dt[cde] = d
                st["dtab"] = [[k, v] for k, v in sorted(dt.items())]
            elif name in VALIDATORS:
                st.update(stage_params(enc, bt, name, batch, dev))
            else:
                st["kind"] = "oracle"
        except Exception as e:
            st.update(kind="oracle", table_error=f"{type(e).__name__}: {str(e)[:120]}")
        new, fns, sizes, err = [], [], [], None
        tab = []
        for t in batch:
            try:
                kw = {k: v for k, v in bt.kwargs.items() if k not in {"argnums", "hybrid"}}
                outs, fn = bt.tape_transform(t, *bt.args, **kw)
                outs = list(outs)
                if name in VALIDATORS:
                    st.setdefault("same_object", True)
                    st["same_object"] &= (len(outs) == 1)
                new.extend(outs); fns.append(fn); sizes.append(len(outs))
                tab.append([enc.tape(t), [enc.tape(x) for x in outs]])
            except Exception as e:
                err = f"{type(e).__name__}: {str(e)[:160]}"
                tab.append([enc.tape(t), None])
                break
        if st["kind"] == "oracle":
            st["table"] = tab
        if err is not None:
            st["out"] = None; st["err"] = err; stages.append(st); failed = si
            break
        st["out"] = [enc.tape(x) for x in new]
        stages.append(st)
        posts.append((fns, sizes))
        batch = new
    run["stages"] = stages
    run["wt"] = [k[1] for k in enc.wt]
    # ---- whole-program run must agree with the staged run
    try:
        wtapes, wpost = prog((tape,))
        whole = "ok"
    except Exception as e:
        whole = f"{type(e).__name__}: {str(e)[:160]}"
    run["whole"] = whole
    if failed is not None:
        run["status"] = "rejected"; run["failed_stage"] = failed; run["detail"] = stages[-1]["err"]
        if whole == "ok":
            run["whole_mismatch"] = "staged run failed but program(tape) succeeded"
        return run
    if whole != "ok":
        run["whole_mismatch"] = "program(tape) failed but the staged run succeeded: " + whole
    elif [enc.tape(x) for x in wtapes] != stages[-1]["out"] if stages else False:
        run["whole_mismatch"] = "program(tape) output differs from the staged run"
    run["status"] = "accepted"
    # ---- (a) direct: the device's own predicates on the final tapes
    opok, mpok, prep_exempt = device_predicates(devname, mcm_final, c["grad"], bool(c["shots"]))
    direct = []
    fin_ok, fin_prep, fin_mp = set(), set(), set()
    for t in batch:
        for i, o in enumerate(t.operations):
            try:
                ok = bool(opok(o.base)) if isinstance(o, Conditional) else bool(opok(o))
            except Exception as e:
                ok = False
            cde = enc.op(o)
            if ok:
                fin_ok.add(cde)
            if isinstance(o, StatePrepBase):
                fin_prep.add(cde)
            if not ok and not (prep_exempt and i == 0 and isinstance(o, StatePrepBase)):
                direct.append(f"operation {o} (position {i}) not accepted by the device's predicate")
        for m in t.measurements:
            try:
                ok = bool(mpok(m))
            except Exception:
                ok = False
            if ok:
                fin_mp.add(enc.mp(m))
            else:
                direct.append(f"measurement {m} not accepted by the device's predicate")
        if dev.wires is not None:
            extra = set(t.wires) - set(dev.wires)
            if extra:
                direct.append(f"wires {sorted(map(str, extra))} not on the device")
    run["direct"] = direct
    run["final"] = {"ops_ok": sorted(fin_ok), "prep": sorted(fin_prep), "mps_ok": sorted(fin_mp), "prep_exempt": prep_exempt,
                    "dw": None if dev.wires is None else [enc.w(x) for x in dev.wires]}
    run["n_final_tapes"] = len(batch)
    run["n_final_ops"] = sum(len(t.operations) for t in batch)
    # ---- (b) execution vs the independent reference
    try:
        if not (devname == "default.qubit" and c["grad"] == "backprop"):
            batch = [qp.transforms.convert_to_numpy_parameters(t)[0][0] for t in batch]
        res = dev.execute(tuple(batch), cfg2)
        for fns, sizes in reversed(posts):
            out, k = [], 0
            for fn, sz in zip(fns, sizes):
                out.append(fn(tuple(res[k:k + sz]))); k += sz
            res = tuple(out)
        final = res[0]
        run["exec"] = "ok"
    except Exception as e:
        run["exec"] = "error"; run["exec_detail"] = f"{type(e).__name__}: {str(e)[:200]}"
        return run
    if c["shots"]:
        run["exec"] = "ok_shots"
        return run
    vals = flat_results(final, len(ms))
    if len(ms) > 1 and (not isinstance(final, (tuple, list)) or len(final) != len(ms)):
        run["ref"] = "numpy"
        run["mismatch"] = [{"m": "number of results", "err": 9.9, "got": jsonable(np.shape(final)), "ref": jsonable(len(ms))}]
        return run
    run["shapes"] = [list(np.shape(v)) for v in vals]
    wireless = any(m["kind"] in ("state",) or (m["kind"] == "probs" and m["ws"] is None) for m in mref)
    reg = list(dev.wires) if (dev.wires is not None and wireless) else list(tape.wires)
    try:
        branches = simulate(ref, reg)
    except (AssertionError, ValueError):
        branches = None
    if branches is None or not branches:
        run["ref"] = "none"
        return run
    for m in mref:
        if m["kind"] == "probs" and m["ws"] is None:
            m["completed"] = reg
    exp = ref_results(branches, mref, reg)
    run["ref"] = "numpy"
    mism = []
    for j, (v, e, m) in enumerate(zip(vals, exp, mref)):
        if e is None:
            continue
        if devname == "null.qubit":
            if np.asarray(v).size != np.asarray(e).size:
                mism.append({"m": mdesc[j], "shape_got": list(np.shape(v)), "shape_ref": list(np.shape(e))})
            continue
        if devname == "default.clifford" and m["kind"] in ("state", "dm"):
            continue
        phase_free = m["kind"] == "state" and ("midprep" in tags or "initial_prep" in tags)
        g = np.asarray(v)
        if phase_free and g.ndim == 1 and g.size == np.asarray(e).size:
            err = abs(1 - abs(np.vdot(np.asarray(e).reshape(-1), g)))
        else:
            err = compare(v, e, m["kind"])
        if not (err <= 1e-9):
            rec = {"m": mdesc[j], "got": jsonable(v), "ref": jsonable(e), "err": err}
            if dev.wires is None and (m["kind"] == "state" or (m["kind"] == "probs" and m["ws"] is None)) and len(batch) >= 1:
                # without device wires a wire-less measurement is ordered by the wires of the EXECUTED tape
                try:
                    reg2 = list(batch[0].wires)
                    if set(reg2) == set(reg):
                        m2 = dict(m); m2["completed"] = reg2
                        e2 = ref_results(simulate(ref, reg2), [m2], reg2)[0]
                        g = np.asarray(v)
                        err2 = abs(1 - abs(np.vdot(np.asarray(e2).reshape(-1), g.reshape(-1)))) if (phase_free and g.ndim == 1) else compare(v, e2, m["kind"])
                        rec["matches_in_executed_tape_wire_order"] = bool(err2 <= 1e-9)
                        rec["orig_order"] = [str(x) for x in reg]; rec["exec_order"] = [str(x) for x in reg2]
                        if not err2 <= 1e-9 and len(reg) <= 5:
                            import itertools
                            for perm in itertools.permutations(reg):
                                m2["completed"] = list(perm)
                                e3 = ref_results(simulate(ref, list(perm)), [m2], list(perm))[0]
                                err3 = abs(1 - abs(np.vdot(np.asarray(e3).reshape(-1), g.reshape(-1)))) if (phase_free and g.ndim == 1) else compare(v, e3, m["kind"])
                                if err3 <= 1e-9:
                                    rec["matches_in_wire_order"] = [str(x) for x in perm]
                                    break
                except Exception:
                    pass
            mism.append(rec)
    run["mismatch"] = mism
    # exact circuit for the Coq reference (unitary, representable, small register)
    if devname != "null.qubit" and all(it[0] == "U" for it in ref) and len(reg) <= 4:
        try:
            set_cfg(8, 8, 0)
            gates = [g_gate([reg.index(w) for w in it[2]], mat_to_sym(it[1])) for it in ref]
            run["exact"] = {"n": len(reg), "circuit": "[" + ";\n ".join(gates) + "]",
                            "meas": [{"kind": m["kind"], "idx": [reg.index(w) for w in (m.get("ws") or m.get("completed") or [])],
                                      "M": jsonable(m["M"]) if "M" in m else None} for m in mref],
                            "vals": [jsonable(v) for v in vals],
                            "skip": [bool(devname == "default.clifford" and m["kind"] in ("state", "dm")) or m["kind"] in ("none", "mcm_expval") for m in mref]}
        except NotExtractable:
            run["exact_skip"] = "not representable"
        except Exception as e:
            run["exact_skip"] = f"{type(e).__name__}: {str(e)[:80]}"
    return run


# ----------------------------------------------------------------------------------------------------------------
# FIXED CORPUS (runs first, independent of the random seed). Every case goes through run_case like a generated one: same staged
# run, model tables, direct predicates and comparison with the independent numpy simulation of the ORIGINAL circuit. Circuits the
# device documents as unsupported carry an `unsupported_*` tag: they must be rejected (or, if accepted, still give the reference).
FIXED_BASE = 10 ** 6


def _fx_ops(a, b):
    """RY(0.7) a; CNOT a,b; RX(0.3) b  (reference matrices from compute_matrix / the textbook CNOT)"""
    ops = [qp.RY(0.7, wires=a), qp.CNOT(wires=[a, b]), qp.RX(0.3, wires=b)]
    ref = [("U", ry(0.7), [a]), ("U", CNOTM, [a, b]), ("U", np.asarray(qp.RX.compute_matrix(0.3), dtype=complex), [b])]
    return ops, ref, [f"RY(0.700000)@{[a]}", f"CNOT()@{[a, b]}", f"RX(0.300000)@{[b]}"]


def _fx_meas(spec):
    """spec: list of ("expval", obs, M, ws, desc) | ("probs", ws) | ("state",)"""
    ms, mref, desc = [], [], []
    for m in spec:
        if m[0] == "expval":
            _, o, M, ws, d = m
            ms.append(qp.expval(o)); mref.append({"kind": "expval", "M": np.asarray(M, dtype=complex), "ws": list(ws)}); desc.append(f"expval({d})")
        elif m[0] == "probs":
            ms.append(qp.probs(wires=list(m[1]))); mref.append({"kind": "probs", "ws": list(m[1])}); desc.append(f"probs({list(m[1])})")
        else:
            ms.append(qp.state()); mref.append({"kind": "state"}); desc.append("state()")
    return ms, mref, desc


def _fixed_cases():
    cases = []

    def add(name, devname, dw, labels, grad, trainable, spec_fn, tags=()):
        a, b = labels

        def build():
            ops, ref, od = _fx_ops(a, b)
            ms, mref, md = _fx_meas(spec_fn(a, b))
            return ops, ref, od, set(tags), ms, mref, md
        cases.append(dict(name=name, devname=devname, clifford=False, labels=list(labels), flavour="fixed", wmode="fixed", dw=dw,
                          grad=grad, mcm=None, shots=None, trainable=trainable, fixed=build))

    # --- default.qubit, gradient_method='adjoint', forward pass without trainable parameters (what a QNode with
    # diff_method='adjoint' builds for float arguments). Documented (adjoint_state_measurements): all expectation values pass
    # unchanged; otherwise any measurement with diagonalizing gates is an error; measurements without observables / with
    # diagonal observables are served from one state measurement.
    ADJ_MIX = "unsupported_meas:adjoint_nondiagonal_observable_mixed_with_state_measurement"
    for wn, dw, (a, b) in (("nowires", None, (0, 1)), ("wires2", [0, 1], (0, 1)), ("perm+aux", [1, 0, "aux"], (0, 1)), ("labels", ["q1", "aux"], ("aux", "q1"))):
        for tn, tr in (("notrain", []), ("train", None)):
            if tr is None and wn in ("wires2", "labels"):
                continue
            D = f"adjoint/{wn}/{tn}/"
            add(D + "X+probs", "default.qubit", dw, (a, b), "adjoint", tr, lambda a, b: [("expval", qp.X(a), X, [a], f"X({a})"), ("probs", [b])], [ADJ_MIX])
            add(D + "probs+Y", "default.qubit", dw, (a, b), "adjoint", tr, lambda a, b: [("probs", [a]), ("expval", qp.Y(b), Y, [b], f"Y({b})")], [ADJ_MIX])
            add(D + "state+H", "default.qubit", dw, (a, b), "adjoint", tr, lambda a, b: [("state",), ("expval", qp.Hadamard(a), H, [a], f"H({a})")], [ADJ_MIX])
            add(D + "XY+probs", "default.qubit", dw, (a, b), "adjoint", tr,
                lambda a, b: [("expval", qp.X(a) @ qp.Y(b), np.kron(X, Y), [a, b], f"X({a})@Y({b})"), ("probs", [a, b])], [ADJ_MIX])
            add(D + "Z+probs", "default.qubit", dw, (a, b), "adjoint", tr, lambda a, b: [("expval", qp.Z(a), Z, [a], f"Z({a})"), ("probs", [b])])
            add(D + "ZZ+probs+state", "default.qubit", dw, (a, b), "adjoint", tr,
                lambda a, b: [("expval", qp.Z(a) @ qp.Z(b), np.kron(Z, Z), [a, b], f"Z({a})@Z({b})"), ("probs", [b, a]), ("state",)])
            add(D + "X,Y", "default.qubit", dw, (a, b), "adjoint", tr,
                lambda a, b: [("expval", qp.X(a), X, [a], f"X({a})"), ("expval", qp.Y(b), Y, [b], f"Y({b})")])
    # --- observables: scalar multiples / sums of observables a device does not support must be rejected like the bare observable;
    # arithmetic of supported observables must be accepted and give the reference. default.mixed documents Pow / Adjoint (and any
    # non-observable operator) as unsupported observables; default.qubit accepts every observable with a matrix.
    UO = "unsupported_obs:"
    obs_specs = [
        ("Z**2", lambda a, b: [("expval", qp.Z(a) ** 2, I2, [a], f"Z({a})**2")], UO + "pow"),
        ("2*Z**2", lambda a, b: [("expval", 2 * qp.Z(a) ** 2, 2 * I2, [a], f"2*Z({a})**2")], UO + "sprod_of_pow"),
        ("0.5*X**3", lambda a, b: [("expval", 0.5 * qp.pow(qp.X(a), 3), 0.5 * X, [a], f"0.5*X({a})**3")], UO + "sprod_of_pow"),
        ("-1*Adjoint(Y)", lambda a, b: [("expval", -1.0 * qp.adjoint(qp.Y(b)), -Y, [b], f"-1.0*Adjoint(Y({b}))")], UO + "sprod_of_adjoint"),
        ("2*(0.5*Y**3)", lambda a, b: [("expval", qp.s_prod(2.0, qp.s_prod(0.5, qp.pow(qp.Y(b), 3), lazy=True), lazy=True), Y, [b], f"2.0*(0.5*Y({b})**3)")], UO + "sprod_of_sprod_of_pow"),
        ("Z+2*X**3", lambda a, b: [("expval", qp.sum(qp.Z(a), 2 * qp.pow(qp.X(b), 3)), np.kron(Z, I2) + 2 * np.kron(I2, X), [a, b], f"(Z({a}))+(2*X({b})**3)")], UO + "sum_with_sprod_of_pow"),
        ("X@(3*Z**3)", lambda a, b: [("expval", qp.prod(qp.X(a), 3 * qp.pow(qp.Z(b), 3)), 3 * np.kron(X, Z), [a, b], f"X({a})@(3*Z({b})**3)")], UO + "prod_with_sprod_of_pow"),
        ("2*Z", lambda a, b: [("expval", 2 * qp.Z(a), 2 * Z, [a], f"2*Z({a})")], None),
        ("0.5*(X@Z)+0.2*Y", lambda a, b: [("expval", 0.5 * (qp.X(a) @ qp.Z(b)) + 0.2 * qp.Y(b), 0.5 * np.kron(X, Z) + 0.2 * np.kron(I2, Y), [a, b],
                                           f"(0.5*(X({a})@Z({b})))+(0.2*Y({b}))")], None),
        ("-1.5*Hermitian", lambda a, b: [("expval", qp.s_prod(-1.5, qp.Hermitian(np.array([[1, 1 - 1j], [1 + 1j, -2]]), wires=[b])),
                                          -1.5 * np.array([[1, 1 - 1j], [1 + 1j, -2]]), [b], f"-1.5*Hermitian([[1,1-1j],[1+1j,-2]])@{[b]}")], None),
        ("2*H+probs", lambda a, b: [("expval", 2 * qp.Hadamard(a), 2 * H, [a], f"2*H({a})"), ("probs", [b, a])], None),
    ]
    for wn, dw, (a, b) in (("nowires", None, (0, 1)), ("wires2", [0, 1], (0, 1)), ("labels", ["q1", "aux"], ("aux", "q1"))):
        for on, fn, tag in obs_specs:
            add(f"obs/default.mixed/{wn}/{on}", "default.mixed", dw, (a, b), None, None, fn, [tag] if tag else [])
        for on, fn, tag in obs_specs:
            # (scalar multiples of Pow are accepted by default.qubit in the pinned tree but crash in execution: recorded separately)
            if tag is None or tag in (UO + "pow", UO + "sprod_of_adjoint"):
                add(f"obs/default.qubit/{wn}/{on}", "default.qubit", dw, (a, b), None, None, fn)
            elif wn == "nowires" and on in ("2*Z**2", "Z+2*X**3"):
                # recorded finding: accepted by default.qubit's preprocessing, crashes in execution (classified in props/c33.py)
                add(f"obs/default.qubit/{wn}/{on}", "default.qubit", dw, (a, b), None, None, fn, ["dq_sprod_of_pow"])
    return cases


FIXED = _fixed_cases()

import signal


class CaseTimeout(BaseException):
    pass


def _alarm(sig, frm):
    raise CaseTimeout()


signal.signal(signal.SIGALRM, _alarm)
ncase = 200 if tier == "quick" else 1500
budget = 45 if tier == "quick" else 420
runs = []
for ci in (req.get("only") or list(range(FIXED_BASE, FIXED_BASE + len(FIXED))) + list(range(ncase))):
    if ci < FIXED_BASE and time.time() - T0 > budget:
        break
    rng.seed(req["seed"] * 1000003 + 33 + ci * 7919)
    c = FIXED[ci - FIXED_BASE] if ci >= FIXED_BASE else gen_case(ci)
    if req.get("debug"):
        print(ci, c, file=sys.stderr, flush=True)
    try:
        signal.alarm(15)
        try:
            runs.append(run_case(ci, c))
        finally:
            signal.alarm(0)
    except CaseTimeout:
        runs.append({"i": ci, "device": c["devname"], "status": "timeout", "detail": json.dumps({k: (v if k != "labels" else [str(x) for x in v]) for k, v in c.items() if k not in ("dw", "fixed")})})
    except Exception as e:
        import traceback
        runs.append({"i": ci, "device": c["devname"], "status": "driver_error", "detail": f"{type(e).__name__}: {str(e)[:200]}",
                     "trace": traceback.format_exc()[-600:]})

# ---- dynamic wire allocation through the device pre-processing (device_resolve_dynamic_wires): the allocated work wire must be a
# wire the circuit does not use, whatever the labels; reference = the same circuit with an explicit fresh wire "W"
def _dyn_cases():
    def c1(w):
        qp.X(2); qp.RY(0.4, 0); qp.CNOT([0, w]); qp.X(w)
    def m1():
        return qp.expval(qp.Z(0)), qp.expval(qp.Z(2))
    def c2(w):
        qp.Hadamard(0); qp.X(w); qp.CNOT([w, 0])
    def m2():
        return qp.expval(qp.Z(0)), qp.expval(qp.Z(1))
    def c3(w):
        qp.RX(0.7, 5); qp.CNOT([5, 1]); qp.CNOT([1, w]); qp.S(w); qp.CNOT([1, w])
    def m3():
        return qp.probs(wires=[1, 5])
    return [("gap-labels/no-device-wires", c1, m1, None), ("measured-only-wire/device-wires", c2, m2, [0, 1, 2]), ("gap-labels-2/no-device-wires", c3, m3, None),
            ("measured-only-wire-2/device-wires", c2, m2, [1, 0, 3, 2])]


dynamic = []
for name, body, meas, dwires in _dyn_cases():
    try:
        def alloc():
            with qp.allocate(1, state="zero", restored=False) as w:
                body(w[0])
            return meas()
        def fresh():
            body("W")
            return meas()
        got = qp.QNode(alloc, qp.device("default.qubit", wires=dwires))()
        exp = qp.QNode(fresh, qp.device("default.qubit"))()
        got = got if isinstance(got, tuple) else (got,)
        exp = exp if isinstance(exp, tuple) else (exp,)
        dynamic.append({"name": name, "err": float(max(np.max(np.abs(np.asarray(g) - np.asarray(e))) for g, e in zip(got, exp)))})
    except Exception as e:
        dynamic.append({"name": name, "err": None, "detail": f"{type(e).__name__}: {str(e)[:200]}"})
print(json.dumps({"runs": runs, "dynamic": dynamic, "wall": time.time() - T0}))
