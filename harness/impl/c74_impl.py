"""C74 driver (runs the real PennyLane ftqc code).  JSON on stdin -> one JSON line on stdout.
modes:
  "convert" : run convert_to_mbqc_formalism (both diagonalize_mcms settings) and ftqc.diagonalize_mcms on circuit
              specifications and serialise the resulting dynamic programs (gates, graph-state preparations, parametric
              mid-circuit measurements, conditionals with the full truth table of their measurement-value expression);
              decompose GraphStatePrep on given graphs; build parametric measurements and list their diagonalizing gates.
  "tracker" : run pauli_to_xz / xz_to_pauli / pauli_prod / commute_clifford_op / get_byproduct_corrections on cases;
              translate abstract exact branch circuits to Gallina text (gate matrices over Q(zeta_8)).
"""
import sys, json, math, warnings
warnings.filterwarnings("ignore")
import numpy as np
import networkx as nx
import pennylane as qp
from pennylane import ftqc
from pennylane.ftqc import pauli_tracker as pt
from pennylane.ftqc.decomposition import convert_to_mbqc_formalism, convert_to_mbqc_gateset
from pennylane.ftqc.parametric_midmeasure import ParametricMidMeasure, diagonalize_mcms
from pennylane.ops.mid_measure import MidMeasure
from pennylane.ops.op_math import Conditional

req = json.load(sys.stdin)
ERRS = (ValueError, NotImplementedError, TypeError, IndexError, KeyError, RuntimeError)
GATES = {"H": qp.H, "S": qp.S, "RZ": qp.RZ, "RotXZX": ftqc.RotXZX, "CNOT": qp.CNOT, "X": qp.X, "Y": qp.Y, "Z": qp.Z,
         "I": qp.I, "T": qp.T, "CZ": qp.CZ, "SWAP": qp.SWAP, "RX": qp.RX, "SX": qp.SX, "Rot": qp.Rot, "RY": qp.RY,
         "PhaseShift": qp.PhaseShift, "Hadamard": qp.H, "PauliX": qp.X, "PauliY": qp.Y, "PauliZ": qp.Z, "Identity": qp.I}


def mk_op(g):
    if g["name"] == "GlobalPhase":
        return qp.GlobalPhase(*g["params"])
    if g["name"] == "Adjoint(S)":
        return qp.adjoint(qp.S(g["wires"]))
    return GATES[g["name"]](*g.get("params", []), wires=g["wires"])


def fl(x):
    return float(np.asarray(x).item())


# ------------------------------------------------------------------ serialisation of dynamic programs
def ser_mcm(op):
    d = {"t": "mcm", "id": op.meas_uid, "wire": int(op.wires[0]), "reset": bool(op.reset),
         "postselect": op.postselect, "cls": type(op).__name__}
    if isinstance(op, ParametricMidMeasure):
        d["plane"], d["angle"] = op.plane, fl(op.angle)
    else:
        d["plane"], d["angle"] = None, None
    return d


def ser_op(op):
    if isinstance(op, Conditional):
        mv = op.meas_val
        ids = [m.meas_uid for m in mv.measurements]
        table = [[list(k), int(bool(v))] for k, v in mv.branches.items()]
        return {"t": "cond", "mids": ids, "table": table, "then": ser_op(op.base)}
    if isinstance(op, MidMeasure):
        return ser_mcm(op)
    if type(op).__name__ == "GraphStatePrep":
        g = op.hyperparameters["graph"]
        nodes = sorted(g.nodes)
        idx = {n: i for i, n in enumerate(nodes)}
        dec = op.decomposition()
        return {"t": "graph", "wires": [int(w) for w in op.wires], "n_nodes": len(nodes),
                "edges": sorted(sorted([idx[a], idx[b]]) for a, b in g.edges),
                "one": op.hyperparameters["one_qubit_ops"].__name__, "two": op.hyperparameters["two_qubit_ops"].__name__,
                "dec": [{"name": o.name, "wires": [int(w) for w in o.wires]} for o in dec]}
    return {"t": "gate", "name": op.name, "wires": [int(w) for w in op.wires], "params": [fl(p) for p in op.data]}


def ser_tape(tape):
    mp = tape.measurements[0]
    return {"ops": [ser_op(o) for o in tape.operations], "out_wires": [int(w) for w in mp.wires]}


def do_convert(req):
    out = {"circuits": [], "graphs": [], "mcms": [], "gateset": []}
    for spec in req.get("circuits", []):
        ops = [mk_op(g) for g in spec["ops"]]
        tape = qp.tape.QuantumScript(ops, [qp.sample(wires=spec["meas_wires"])] if spec.get("meas_wires") is not None else [qp.sample()], shots=10)
        res = {"logical_wires": [int(w) for w in tape.wires]}
        try:
            (t0,), _ = convert_to_mbqc_formalism(tape)
            res["mbqc"] = ser_tape(t0)
            (t1,), _ = convert_to_mbqc_formalism(tape, diagonalize_mcms=True)
            res["mbqc_diag"] = ser_tape(t1)
            (t2,), _ = diagonalize_mcms(t0)
            res["mbqc_then_diag"] = ser_tape(t2)
        except Exception as e:  # a valid circuit of the supported gate set must convert
            res["error"] = f"{type(e).__name__}: {str(e)[:300]}"
        out["circuits"].append(res)
    for g in req.get("graphs", []):
        G = nx.Graph()
        G.add_nodes_from(g["nodes"])
        G.add_edges_from([tuple(e) for e in g["edges"]])
        try:
            op = ftqc.GraphStatePrep(graph=G, wires=g["wires"])
            dec = op.decomposition()
            out["graphs"].append([{"name": o.name, "wires": [int(w) for w in o.wires]} for o in dec])
        except ERRS as e:
            out["graphs"].append("ERR")
    for m in req.get("mcms", []):
        with qp.queuing.AnnotatedQueue() as q:
            if m["kind"] == "x":
                mv = ftqc.measure_x(0, reset=m["reset"])
            elif m["kind"] == "y":
                mv = ftqc.measure_y(0, reset=m["reset"])
            else:
                mv = ftqc.measure_arbitrary_basis(0, angle=m["angle"], plane=m["plane"], reset=m["reset"])
        op = mv.measurements[0]
        queued = [o for o in q.queue]
        out["mcms"].append({"mcm": ser_mcm(op), "queued": len(queued) == 1 and queued[0] is op,
                            "diag": [{"name": o.name, "wires": [int(w) for w in o.wires], "params": [fl(p) for p in o.data]}
                                     for o in op.diagonalizing_gates()]})
    for spec in req.get("gateset", []):
        # convert_to_mbqc_gateset on arbitrary single/two-qubit gates -> ops over the MBQC gate set
        qp.decomposition.enable_graph()
        try:
            tape = qp.tape.QuantumScript([mk_op(g) for g in spec["ops"]], [qp.sample(wires=spec["meas_wires"])], shots=10)
            (t,), _ = convert_to_mbqc_gateset(tape)
            out["gateset"].append([{"name": o.name, "wires": [int(w) for w in o.wires], "params": [fl(p) for p in o.data]} for o in t.operations])
        except Exception as e:
            out["gateset"].append(f"ERR {type(e).__name__}: {str(e)[:200]}")
        finally:
            qp.decomposition.disable_graph()
    return out


# ------------------------------------------------------------------ tracker cases
PCLS = {"I": qp.I, "X": qp.X, "Y": qp.Y, "Z": qp.Z}


def tracker_case(c):
    k = c["k"]
    try:
        if k == "commute":
            op = GATES[c["op"]](*c.get("params", []), wires=c["wires"])
            r = pt.commute_clifford_op(op, [tuple(t) for t in c["xz"]])
            return [[int(x), int(z)] for x, z in r]
        if k == "prod":
            ops = []
            for n in c["ops"]:
                if n in PCLS:
                    ops.append(PCLS[n] if c.get("as_class") else PCLS[n](0))
                else:
                    ops.append(GATES[n](0))
            r = pt.pauli_prod(ops)
            return [int(r[0]), int(r[1])]
        if k == "toxz":
            r = pt.pauli_to_xz(PCLS[c["p"]] if c.get("as_class") else PCLS[c["p"]](0))
            return [int(r[0]), int(r[1])]
        if k == "topauli":
            cls = pt.xz_to_pauli(c["x"], c["z"])
            return {qp.I: "I", qp.X: "X", qp.Y: "Y", qp.Z: "Z"}[cls]
        if k == "track":
            # iterate the real commute_clifford_op over a Clifford circuit, updating the frame on the gate's wires
            F = [tuple(t) for t in c["frame"]]
            for g in c["gates"]:
                op = GATES[g[0]](wires=g[1:])
                new = pt.commute_clifford_op(op, [F[w] for w in g[1:]])
                for w, t in zip(g[1:], new):
                    F[w] = (int(t[0]), int(t[1]))
            return [[int(x), int(z)] for x, z in F]
        if k == "byprod":
            ops = [mk_op(g) for g in c["ops"]]
            tape = qp.tape.QuantumScript(ops, [qp.sample(wires=c["mw"])], shots=10)
            corr = pt.get_byproduct_corrections(tape, list(c["mid"]), list(c["vals"]))
            res = {"corr": [int(v) for v in np.asarray(corr).reshape(-1)], "x": None, "z": None}
            try:
                by = pt._parse_mid_measurements(tape, list(c["mid"]))
                xr, zr = pt._get_xz_record(tape, by)
                res["x"], res["z"] = [int(v) for v in xr], [int(v) for v in zr]
            except AttributeError:
                pass
            return res
    except ERRS:
        return "ERR"
    raise SystemExit(f"unknown case kind {k}")


def do_tracker(req):
    out = {"cases": [tracker_case(c) for c in req.get("cases", [])], "exact": []}
    if req.get("exact"):
        sys.path.insert(0, "/verif/harness")
        from qx import exact_circuit_gallina, g_gate, install_patches
        from qsym import Sym, set_cfg, NotExtractable
        install_patches()
        for circ in req["exact"]:
            set_cfg(8, 8, 0)
            order = list(range(circ["n"]))
            gates = []
            try:
                for g in circ["gates"]:
                    if g["name"] == "MeasReset":
                        # <b_phi| followed by reset to |0>:  |0><b_phi| ,  |b_phi> = (|0> + (-1)^b e^{i phi}|1>)/sqrt2
                        # (documented XY-plane basis, written here independently of PennyLane)
                        r = Sym.of(1 / math.sqrt(2))
                        ph = Sym.of(math.cos(g["angle"])) - Sym.of(1j) * Sym.of(math.sin(g["angle"]))
                        e = r * ph * Sym.of(-1 if g["b"] else 1)
                        gates.append(g_gate([g["wires"][0]], [[r, e], [Sym.of(0), Sym.of(0)]]))
                    else:
                        gates.append(exact_circuit_gallina([mk_op(g)], order)[1:-1])
                out["exact"].append("[" + ";\n ".join(gates) + "]")
            except NotExtractable as e:
                out["exact"].append(None)
    return out


print(json.dumps(do_convert(req) if req["mode"] == "convert" else do_tracker(req)))
