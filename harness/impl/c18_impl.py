"""C18 driver: applies every public tape transform of the PennyLane tree on PYTHONPATH to generated tapes and
reports whether the INPUT tape changed (deep structural fingerprint before/after, re-execution before/after);
also runs the small aliasing idiom programs of coq/Disc/AliasModel.v on real QuantumScript objects.

stdin : {"mode": "list"}                         -> {"transforms": [...registry names...]}
        {"mode": "diff", "cases": [{"t": name, "variant": k, "cseed": n}, ...]}
        {"mode": "idioms", "programs": [...]}
stdout: one JSON line.
"""
import copy
import json
import random
import sys
import warnings

warnings.filterwarnings("ignore")

import numpy as np
import pennylane as qp
from pennylane import numpy as pnp
import pennylane.ftqc  # noqa
import pennylane.fourier  # noqa
import pennylane.shadows  # noqa
from pennylane.tape import QuantumScript
from pennylane.transforms.core import Transform, CompilePipeline

# ------------------------------------------------------------------------------------------ fingerprint


def _val(p):
    try:
        a = np.asarray(qp.math.unwrap([p])[0] if hasattr(p, "requires_grad") or hasattr(p, "_value") else p)
    except Exception:  # noqa
        a = None
    if a is None or a.dtype == object:
        return ["repr", repr(p)]
    return [str(a.dtype), list(a.shape), a.tobytes().hex()]


def _op_fp(op):
    try:
        hyp = repr(sorted(((k, repr(v)) for k, v in op.hyperparameters.items()))) if hasattr(op, "hyperparameters") else ""
    except Exception:  # noqa
        hyp = "?"
    try:
        h = op.hash
    except Exception:  # noqa
        h = None
    data = getattr(op, "data", ())
    return {"id": id(op), "name": getattr(op, "name", type(op).__name__), "cls": type(op).__name__,
            "wires": repr(tuple(op.wires.labels)), "repr": repr(op), "hash": h,
            "data_ids": [id(p) for p in data], "data_vals": [_val(p) for p in data],
            "data_types": [type(p).__name__ + ":" + str(getattr(p, "requires_grad", None)) for p in data],
            "hyper": hyp, "opid": repr(getattr(op, "id", None))}


def _mp_fp(mp):
    d = {"id": id(mp), "repr": repr(mp), "cls": type(mp).__name__, "wires": repr(tuple(mp.wires.labels))}
    try:
        d["hash"] = mp.hash
    except Exception:  # noqa
        d["hash"] = None
    ob = getattr(mp, "obs", None)
    d["obs"] = _op_fp(ob) if ob is not None else None
    return d


def fresh_hash(tape):
    """the value `QuantumScript.hash` would have if it were not cached"""
    try:
        f = type(tape).__dict__.get("hash") or QuantumScript.__dict__["hash"]
        return f.func(tape)
    except Exception as ex:  # noqa
        return "ERR:" + type(ex).__name__


def fingerprint(tape):
    fp = {}
    fp["ops_list_id"] = id(tape.operations)
    fp["ops_attr_id"] = id(tape._ops)
    fp["n_ops"] = len(tape.operations)
    fp["ops"] = [_op_fp(o) for o in tape.operations]
    fp["meas_list_id"] = id(tape.measurements)
    fp["n_meas"] = len(tape.measurements)
    fp["meas"] = [_mp_fp(m) for m in tape.measurements]
    fp["trainable_params"] = [int(i) for i in tape.trainable_params]
    fp["shots"] = repr(tape.shots)
    fp["shots_id"] = id(tape.shots)
    try:
        fp["hash_cached"] = tape.hash
    except Exception as ex:  # noqa
        fp["hash_cached"] = "ERR:" + type(ex).__name__
    fp["hash_fresh"] = fresh_hash(tape)
    try:
        fp["batch_size"] = tape.batch_size
    except Exception as ex:  # noqa
        fp["batch_size"] = "ERR:" + type(ex).__name__
    try:
        fp["params"] = [_val(p) for p in tape.get_parameters(trainable_only=False)]
    except Exception as ex:  # noqa
        fp["params"] = "ERR:" + type(ex).__name__
    fp["wires"] = repr(tuple(tape.wires.labels))
    fp["num_params"] = tape.num_params
    fp["cls"] = type(tape).__name__
    return fp


def fp_diff(a, b):
    """names of the fingerprint components that differ (ops/meas are refined per entry)"""
    out = []
    for k in a:
        if a[k] == b.get(k):
            continue
        if k in ("ops", "meas") and len(a[k]) == len(b[k]):
            sub = set()
            for x, y in zip(a[k], b[k]):
                for kk in x:
                    if x[kk] != y.get(kk):
                        sub.add(kk)
            out.extend(f"{k}.{s}" for s in sorted(sub))
        else:
            out.append(k)
    return sorted(out)


def describe(tape):
    return {"ops": [repr(o) for o in tape.operations], "measurements": [repr(m) for m in tape.measurements],
            "shots": repr(tape.shots), "trainable_params": list(tape.trainable_params)}


# ------------------------------------------------------------------------------------------ execution


def _flat(res):
    out = []

    def rec(x):
        if isinstance(x, (tuple, list)):
            for y in x:
                rec(y)
        elif isinstance(x, dict):
            for k in sorted(x, key=str):
                out.append(("k", str(k)))
                rec(x[k])
        else:
            try:
                out.append(np.asarray(qp.math.unwrap([x])[0] if hasattr(x, "requires_grad") else x))
            except Exception:  # noqa
                out.append(repr(x))
    rec(res)
    return out


def same_results(a, b):
    fa, fb = _flat(a), _flat(b)
    if len(fa) != len(fb):
        return False
    for x, y in zip(fa, fb):
        if isinstance(x, np.ndarray) and isinstance(y, np.ndarray):
            if x.shape != y.shape:
                return False
            if x.dtype.kind in "fc" or y.dtype.kind in "fc":
                if not np.allclose(x, y, atol=1e-10, rtol=0, equal_nan=True):
                    return False
            elif not np.array_equal(x, y):
                return False
        elif isinstance(x, np.ndarray) or isinstance(y, np.ndarray):
            return False
        elif x != y:
            return False
    return True


def execute(tapes, mixed_first=False):
    """execute on a FRESH seeded device (deterministic for finite shots); default.qubit, falling back to
    default.mixed for channels"""
    errs = []
    for name in (["default.mixed", "default.qubit"] if mixed_first else ["default.qubit", "default.mixed"]):
        try:
            dev = qp.device(name, seed=4242)
            return qp.execute(list(tapes), dev, diff_method=None), name
        except Exception as ex:  # noqa
            errs.append(type(ex).__name__)
    raise RuntimeError("not executable: " + ",".join(errs))


def fake_results(tapes):
    dev = qp.device("default.qubit")
    out = []
    for t in tapes:
        shp = t.shape(dev)
        mk = lambda s: np.zeros(s) if not isinstance(s, tuple) or all(isinstance(i, int) for i in s) else tuple(mk(i) for i in s)
        if len(t.measurements) == 1 and not t.shots.has_partitioned_shots:
            out.append(np.zeros(shp))
        else:
            out.append(mk(shp))
    return tuple(out)


# ------------------------------------------------------------------------------------------ generators

W3 = [0, 1, 2]


def ang(rng):
    return round(rng.uniform(-3.0, 3.0), 3)


def par(rng, trainable=True):
    r = rng.random()
    if r < 0.7:
        return pnp.array(ang(rng), requires_grad=trainable)
    if r < 0.85:
        return np.float64(ang(rng))
    return ang(rng)


def rand_ops(rng, wires, n, pool="all", trainable=True):
    ops = []
    w = list(wires)
    while len(ops) < n:
        r = rng.random()
        a = rng.choice(w)
        b = rng.choice([x for x in w if x != a]) if len(w) > 1 else a
        c = rng.choice([x for x in w if x not in (a, b)]) if len(w) > 2 else None
        if pool == "grad":
            k = rng.choice(["RX", "RY", "RZ", "PS", "CNOT", "H", "Rot", "CRX", "XX"])
        elif pool == "clifford":
            k = rng.choice(["H", "S", "X", "Z", "CNOT", "CZ", "Sadj", "SWAP"])
        else:
            k = rng.choice(["RX", "RY", "RZ", "PS", "CNOT", "H", "Rot", "CRX", "XX", "S", "T", "X", "Y", "Z", "CZ", "CRY",
                            "SWAP", "Tof", "Sadj", "RXadj", "pairH", "pairCNOT", "pairRot", "mergeRX", "commute", "commuteL"])
        if k == "RX": ops.append(qp.RX(par(rng, trainable), a))
        elif k == "RY": ops.append(qp.RY(par(rng, trainable), a))
        elif k == "RZ": ops.append(qp.RZ(par(rng, trainable), a))
        elif k == "PS": ops.append(qp.PhaseShift(par(rng, trainable), a))
        elif k == "Rot": ops.append(qp.Rot(par(rng, trainable), par(rng, trainable), par(rng, trainable), a))
        elif k == "CRX" and b != a: ops.append(qp.CRX(par(rng, trainable), [a, b]))
        elif k == "CRY" and b != a: ops.append(qp.CRY(par(rng, trainable), [a, b]))
        elif k == "XX" and b != a: ops.append(qp.IsingXX(par(rng, trainable), [a, b]))
        elif k == "CNOT" and b != a: ops.append(qp.CNOT([a, b]))
        elif k == "CZ" and b != a: ops.append(qp.CZ([a, b]))
        elif k == "SWAP" and b != a: ops.append(qp.SWAP([a, b]))
        elif k == "Tof" and c is not None: ops.append(qp.Toffoli([a, b, c]))
        elif k == "H": ops.append(qp.Hadamard(a))
        elif k == "S": ops.append(qp.S(a))
        elif k == "T": ops.append(qp.T(a))
        elif k == "X": ops.append(qp.X(a))
        elif k == "Y": ops.append(qp.Y(a))
        elif k == "Z": ops.append(qp.Z(a))
        elif k == "Sadj": ops.append(qp.adjoint(qp.S(a)))
        elif k == "RXadj": ops.append(qp.adjoint(qp.RX(par(rng, trainable), a)))
        elif k == "pairH": ops += [qp.Hadamard(a), qp.Hadamard(a)]
        elif k == "pairCNOT" and b != a: ops += [qp.CNOT([a, b]), qp.CNOT([a, b])]
        elif k == "pairRot": ops += [qp.RZ(par(rng, trainable), a), qp.RY(par(rng, trainable), a), qp.RX(par(rng, trainable), a)]
        elif k == "mergeRX": ops += [qp.RX(par(rng, trainable), a), qp.RX(par(rng, trainable), a)]
        elif k == "commute" and b != a: ops += [qp.X(b), qp.CNOT([a, b]), qp.S(a), qp.CRY(par(rng, trainable), [a, b])]
        elif k == "commuteL" and b != a: ops += [qp.CNOT([a, b]), qp.X(b), qp.CRZ(par(rng, trainable), [a, b]), qp.PhaseShift(par(rng, trainable), a)]
    return ops


def rand_meas(rng, wires, kind="any"):
    w = list(wires)
    a = w[0]
    b = w[1] if len(w) > 1 else w[0]
    c = w[-1]
    choices = {
        "expval": [[qp.expval(qp.Z(a))], [qp.expval(qp.Z(a) @ qp.Z(b))], [qp.expval(qp.X(c))]],
        "grad": [[qp.expval(qp.Z(a))], [qp.expval(qp.Z(a)), qp.probs(wires=[c])], [qp.expval(qp.Z(a) @ qp.X(b)), qp.var(qp.Z(c))],
                 [qp.probs(wires=[a, b])]],
        "any": [[qp.expval(qp.Z(a))], [qp.expval(qp.X(a) @ qp.Z(b)), qp.probs(wires=[c])],
                [qp.expval(qp.Y(a)), qp.var(qp.Z(b))], [qp.expval(0.5 * qp.X(a) + 0.3 * (qp.Z(a) @ qp.Z(b)))],
                [qp.probs(wires=w)], [qp.expval(qp.Hamiltonian([0.4, -1.2], [qp.Z(a), qp.X(b)]))], [qp.state()]],
        "noncommuting": [[qp.expval(qp.X(a)), qp.expval(qp.Z(a)), qp.expval(qp.Y(b) @ qp.Z(a))],
                         [qp.expval(0.5 * qp.X(a) + 0.3 * (qp.Z(a) @ qp.Z(b)) - 0.7 * qp.Y(b)), qp.probs(wires=[c])],
                         [qp.expval(qp.Hamiltonian([0.4, -1.2, 0.3], [qp.Z(a), qp.X(a), qp.Z(a) @ qp.Y(b)])), qp.var(qp.Z(b))],
                         [qp.expval(qp.X(a)), qp.expval(qp.Y(a)), qp.expval(qp.Z(a)), qp.expval(2.0 * qp.I(a))]],
        "sum": [[qp.expval(0.5 * qp.X(a) + 0.3 * (qp.Z(a) @ qp.Z(b)))], [qp.expval(qp.Z(a) + qp.Z(b)), qp.expval(qp.Z(c))],
                [qp.expval(qp.Hamiltonian([0.4, -1.2], [qp.Z(a), qp.Z(b)])), qp.expval(0.1 * qp.Z(a) @ qp.Z(b) + 1.5 * qp.I(a))]],
        "diag": [[qp.expval(qp.X(a)), qp.var(qp.Y(b))], [qp.expval(qp.X(a) @ qp.Y(b)), qp.expval(qp.X(a))],
                 [qp.expval(qp.Hadamard(a)), qp.probs(wires=[c])] if c != a else [qp.expval(qp.Hadamard(a))],
                 [qp.expval(0.5 * qp.Y(a) + 0.2 * qp.Y(a) @ qp.X(b))], [qp.sample(qp.X(a)), qp.counts(qp.Y(b))]],
        "samples": [[qp.sample(wires=w)], [qp.counts(wires=[a])], [qp.expval(qp.Z(a)), qp.sample(wires=[b])],
                    [qp.probs(wires=[a, b]), qp.var(qp.Z(c))]],
    }
    return rng.choice(choices[kind])


def rand_shots(rng, need=False):
    if need:
        return rng.choice([50, 100, (20, 30)])
    return rng.choice([None, None, None, 100, (20, 30)])


def maybe_trainable(rng, tape):
    """explicit trainable-parameter subsets in a third of the cases"""
    n = tape.num_params
    if n and rng.random() < 0.35:
        k = rng.randint(1, n)
        tape.trainable_params = sorted(rng.sample(range(n), k))
    return tape


def g_generic(rng, nw=3, n=7, meas="any", shots="rand", pool="all", extra=()):
    ops = rand_ops(rng, list(range(nw)), rng.randint(3, n), pool=pool)
    for e in extra:
        ops.insert(rng.randint(0, len(ops)), e)
    sh = rand_shots(rng) if shots == "rand" else shots
    ms = rand_meas(rng, list(range(nw)), meas)
    if sh is not None and any(isinstance(m, qp.measurements.StateMP) for m in ms):
        ms = [qp.expval(qp.Z(0))]
    if sh is None and any(isinstance(m, (qp.measurements.SampleMP, qp.measurements.CountsMP)) for m in ms):
        sh = 40
    return maybe_trainable(rng, QuantumScript(ops, ms, shots=sh))


def G(**kw):
    return lambda rng: (g_generic(rng, **kw), (), {})


def g_grad(rng, shots="rand", meas="grad", pool="grad"):
    ops = rand_ops(rng, W3, rng.randint(3, 6), pool=pool, trainable=True)
    if not any(o.num_params for o in ops):
        ops.append(qp.RX(pnp.array(0.3, requires_grad=True), 0))
    sh = rng.choice([None, None, 200]) if shots == "rand" else shots
    return maybe_trainable(rng, QuantumScript(ops, rand_meas(rng, W3, meas), shots=sh))


def g_batched(rng, all_trainable=True):
    B = 3
    ops = []
    for _ in range(rng.randint(2, 5)):
        a = rng.choice(W3)
        x = pnp.array([ang(rng) for _ in range(B)], requires_grad=True)
        ops.append(rng.choice([qp.RX, qp.RY, qp.RZ])(x, a))
        if rng.random() < 0.5:
            ops.append(qp.CNOT([a, (a + 1) % 3]))
    return QuantumScript(ops, rand_meas(rng, W3, "grad"), shots=rng.choice([None, None, 50]))


def g_batch_input(rng):
    t = g_batched(rng)
    ops = list(t.operations) + [qp.RY(pnp.array(ang(rng), requires_grad=True), 1)]
    o0 = ops[0]
    ops[0] = type(o0)(pnp.array(qp.math.unwrap(o0.data)[0], requires_grad=False), o0.wires)
    t = QuantumScript(ops, t.measurements, shots=t.shots)
    t.trainable_params = list(range(1, len(t.get_parameters(trainable_only=False))))
    return t, (), {"argnum": [0] if rng.random() < 0.5 else 0}


def g_broadcast(rng):
    ops = rand_ops(rng, W3, rng.randint(2, 5), pool="grad")
    x = pnp.array([ang(rng) for _ in range(3)], requires_grad=True)
    ops.insert(rng.randint(0, len(ops)), qp.RX(x, rng.choice(W3)))
    if rng.random() < 0.4:
        ops.append(qp.RZ(np.array([0.1, 0.2, 0.3]), 1))
    return QuantumScript(ops, rand_meas(rng, W3, "grad"), shots=rng.choice([None, None, 50]))


def g_mcm(rng, shots=None):
    def f():
        for o in rand_ops(rng, [0, 1], 2, pool="grad"):
            qp.apply(o)
        m0 = qp.measure(0, reset=rng.random() < 0.3)
        qp.cond(m0, qp.RX)(ang(rng), 1)
        if rng.random() < 0.5:
            m1 = qp.measure(1, postselect=rng.choice([None, None, 1]))
            qp.cond(m0 & m1 if rng.random() < 0.5 else m1, qp.X)(2)
        else:
            m1 = m0
        r = rng.random()
        if r < 0.4:
            return qp.expval(qp.Z(1)), qp.probs(wires=[2])
        if r < 0.7:
            return qp.expval(m1), qp.expval(qp.Z(2))
        return qp.probs(op=[m0, m1]) if m1 is not m0 else qp.probs(op=m0)
    t = qp.tape.make_qscript(f)()
    sh = shots if shots is not None else rng.choice([None, 30])
    return QuantumScript(t.operations, t.measurements, shots=sh)


def g_decomp(rng):
    extra = [rng.choice([qp.QFT(wires=[0, 1]), qp.BasicEntanglerLayers(pnp.array([[0.1, 0.2, 0.3]], requires_grad=True), wires=W3),
                         qp.Toffoli([0, 1, 2]), qp.MultiRZ(pnp.array(0.4, requires_grad=True), wires=W3),
                         qp.ctrl(qp.RY(0.3, 2), control=[0, 1]), qp.adjoint(qp.Rot(0.1, 0.2, 0.3, 1))])]
    return g_generic(rng, extra=extra)


def g_decompose_kw(rng):
    gs = rng.choice([{"CNOT", "RX", "RY", "RZ", "GlobalPhase"}, {"CNOT", "Hadamard", "RZ", "RX", "PhaseShift", "GlobalPhase"},
                     {qp.CNOT, qp.Rot, qp.GlobalPhase}])
    return g_decomp(rng), (), {"gate_set": gs}


def rand_unitary(rng, n):
    m = np.array([[complex(rng.gauss(0, 1), rng.gauss(0, 1)) for _ in range(2 ** n)] for _ in range(2 ** n)])
    q, _ = np.linalg.qr(m)
    return q


def g_unitary(rng):
    extra = [qp.QubitUnitary(rand_unitary(rng, 1), wires=[rng.choice(W3)])]
    if rng.random() < 0.5:
        extra.append(qp.QubitUnitary(rand_unitary(rng, 2), wires=[0, 1]))
    return g_generic(rng, extra=extra)


def g_ampemb(rng):
    v1 = np.array([rng.uniform(0.1, 1) for _ in range(2)])
    v2 = np.array([rng.uniform(0.1, 1) for _ in range(2)])
    ops = [qp.AmplitudeEmbedding(v1 / np.linalg.norm(v1), wires=[0]), qp.AmplitudeEmbedding(v2 / np.linalg.norm(v2), wires=[1])]
    ops += [o for o in rand_ops(rng, W3, 3, pool="grad")]
    return QuantumScript(ops, rand_meas(rng, W3, "grad"), shots=rand_shots(rng))


def g_pattern(rng):
    t = g_generic(rng, extra=[qp.S(0), qp.S(0), qp.Z(0)], pool="clifford", meas="expval")
    pats = [QuantumScript([qp.S(0), qp.S(0), qp.Z(0)]), QuantumScript([qp.CNOT([0, 1]), qp.CNOT([0, 1])])]
    return t, (), {"pattern_tapes": pats[: rng.randint(1, 2)]}


def g_qmc_tape(rng):
    ops = [qp.RY(par(rng), 0), qp.CNOT([0, 1]), qp.RY(par(rng), 1)]
    return QuantumScript(ops, [qp.probs(wires=[2, 3])], shots=rand_shots(rng))


def g_transpile(rng):
    t = g_generic(rng, nw=4, meas="expval")
    ops = [o for o in t.operations if len(o.wires) <= 2]
    ms = rng.choice([[qp.expval(qp.Z(0))], [qp.probs(wires=[0, 3])], [qp.expval(qp.X(2)), qp.var(qp.Z(1))]])
    return QuantumScript(ops, ms, shots=t.shots), (), {"coupling_map": [(0, 1), (1, 2), (2, 3)]}


def g_sign(rng):
    H = qp.Hamiltonian([0.5, -0.3, 0.2], [qp.Z(0) @ qp.Z(1), qp.Z(0), qp.Z(2)])
    ops = rand_ops(rng, W3, 3, pool="grad")
    return QuantumScript(ops, [qp.expval(H)], shots=rand_shots(rng)), (), {"circuit": rng.random() < 0.5, "J": 2}


def g_dynwires(rng):
    from pennylane.allocation import Allocate, Deallocate, DynamicWire
    d1, d2 = DynamicWire(), DynamicWire()
    ops = [qp.H(0), Allocate(d1, state="zero", restored=rng.random() < 0.5), qp.CNOT([0, d1]), qp.X(d1), Deallocate(d1),
           Allocate(d2, state=rng.choice(["zero", "any"]), restored=False), qp.CZ([d2, 1]), Deallocate(d2), qp.RX(par(rng), 1)]
    t = QuantumScript(ops, [qp.expval(qp.Z(1))], shots=rand_shots(rng))
    kw = rng.choice([{"zeroed": ("a", "b")}, {"zeroed": ("a",)}, {"min_int": 2}, {"any_state": ("a", "b")}])
    return t, (), kw


def g_rzpg(rng):
    ops = [qp.H(0), qp.RZ(par(rng), 0), qp.CNOT([0, 1]), qp.RZ(par(rng), 1)]
    t = QuantumScript(ops, [qp.expval(qp.X(0))], shots=None)
    return t, (), {"angle_wires": qp.wires.Wires([2, 3]), "phase_grad_wires": qp.wires.Wires([4, 5]), "work_wires": qp.wires.Wires([6])}


def g_cnots(rng, rz=False):
    ops = []
    for _ in range(rng.randint(3, 7)):
        a = rng.choice(W3)
        b = rng.choice([x for x in W3 if x != a])
        ops.append(qp.CNOT([a, b]))
        if rz and rng.random() < 0.5:
            ops.append(qp.RZ(par(rng), rng.choice(W3)))
    return QuantumScript(ops, [] if rng.random() < 0.5 else [qp.expval(qp.Z(0))])


def g_rowcol(rng):
    import networkx as nx
    return g_cnots(rng), (), ({"connectivity": nx.path_graph(3)} if rng.random() < 0.7 else {})


def g_noise_model(rng):
    nm = qp.NoiseModel({qp.noise.op_eq("RX") | qp.noise.op_eq("RY"): qp.noise.partial_wires(qp.AmplitudeDamping, 0.1),
                        qp.noise.op_in(["CNOT"]): qp.noise.partial_wires(qp.DepolarizingChannel, 0.05)})
    return g_grad(rng, meas="grad"), (), {"noise_model": nm}


def g_insert(rng):
    kw = rng.choice([{"position": "all"}, {"position": "end"}, {"position": "start"}, {"position": qp.RX, "before": True}])
    return g_grad(rng), (qp.AmplitudeDamping, 0.1), kw


def g_zne(rng):
    return g_grad(rng, meas="expval", shots=None), ([1, 2, 3], qp.noise.fold_global, qp.noise.richardson_extrapolate), {}


def g_cut(rng):
    ops = [qp.RX(par(rng), 0), qp.RY(par(rng), 1), qp.CNOT([0, 1]), qp.RZ(par(rng), 1), qp.WireCut(wires=1), qp.CNOT([1, 2]),
           qp.RX(par(rng), 2)]
    if rng.random() < 0.5:
        ops.insert(0, qp.Hadamard(2))
    return QuantumScript(ops, [qp.expval(qp.Z(0) @ qp.Z(2))], shots=rng.choice([None, None, 100]))


def g_cut_mc(rng):
    t = g_cut(rng)
    t = QuantumScript(t.operations, [qp.sample(wires=[0, 2])], shots=20)
    if rng.random() < 0.5:
        return t, (), {"classical_processing_fn": lambda x: float(np.sum(x)), "device_wires": qp.wires.Wires([0, 1, 2])}
    return t, (), {"device_wires": qp.wires.Wires([0, 1, 2])}


def g_mapwires(rng):
    return g_generic(rng), (), {"wire_map": {0: "a", 1: 5, 2: rng.choice([2, "c"])}}


def g_spectrum(rng):
    mk = qp.fourier.mark
    ops = [mk(qp.RX(par(rng), 0), "x"), mk(qp.RY(par(rng), 1), "y"), qp.CNOT([0, 1]), mk(qp.RX(par(rng), 1), "x"), qp.RZ(par(rng), 0)]
    return QuantumScript(ops, [qp.expval(qp.Z(0))])


def g_shadow(rng):
    ops = rand_ops(rng, [0, 1], 3, pool="grad")
    return QuantumScript(ops, [qp.classical_shadow(wires=[0, 1], seed=7)], shots=25), (), {"wires": [[0], [0, 1]]}


def g_snap(rng):
    return g_generic(rng, extra=[qp.Snapshot("a"), qp.Snapshot(measurement=qp.expval(qp.Z(0)))], shots=None)


def g_fisher(rng):
    t = g_grad(rng, meas="grad", shots=None)
    t = QuantumScript(t.operations, [qp.probs(wires=W3)])
    return t, (qp.device("default.qubit"),), {}


def g_hessian(rng):
    ops = [o for o in rand_ops(rng, W3, 4, pool="grad") if o.name not in ("Rot", "CRX")] + [qp.RX(pnp.array(0.2, requires_grad=True), 0)]
    return QuantumScript(ops, rand_meas(rng, W3, "grad"))


def g_metric(rng):
    ops = [o for o in rand_ops(rng, W3, 4, pool="grad") if o.name not in ("Rot", "CRX", "IsingXX")] + [qp.RY(pnp.array(0.2, requires_grad=True), 1)]
    t = QuantumScript(ops, [qp.expval(qp.Z(0))])
    return t, (), rng.choice([{"approx": "block-diag"}, {"approx": "diag"}, {"aux_wire": 3}])


def g_adjmetric(rng):
    return g_metric(rng)[0]


def g_pulse(rng):
    import jax
    import jax.numpy as jnp
    jax.config.update("jax_enable_x64", True)
    H = qp.pulse.constant * qp.Y(0) + qp.pulse.constant * (qp.X(0) @ qp.X(1))
    ops = [qp.H(0), qp.evolve(H)([jnp.array(ang(rng)), jnp.array(ang(rng))], 0.3)]
    return QuantumScript(ops, [qp.expval(qp.Z(0))])


def g_mbqc_gateset(rng):
    return g_generic(rng, pool="all", meas="expval", shots=None)


def g_diag_mcms(rng):
    from pennylane.ftqc import measure_x, measure_arbitrary_basis
    def f():
        qp.H(0); qp.CNOT([0, 1])
        m = measure_x(0)
        m2 = measure_arbitrary_basis(1, angle=ang(rng), plane="XY")
        qp.cond(m, qp.X)(2)
        return qp.expval(qp.Z(2))
    t = qp.tape.make_qscript(f)()
    return QuantumScript(t.operations, t.measurements, shots=rng.choice([None, 20]))


def g_preproc_decompose(rng):
    names = {"RX", "RY", "RZ", "CNOT", "Hadamard", "PhaseShift", "GlobalPhase"}
    return g_decomp(rng), (), {"stopping_condition": lambda op: op.name in names, "name": "c18"}


def g_gs(rng):
    return g_generic(rng, extra=[qp.GlobalPhase(par(rng)), qp.GlobalPhase(par(rng), wires=0)], meas="expval")


def g_inspect(rng):
    return g_decomp(rng), (), {"gate_set": {"CNOT", "RX", "RY", "RZ", "GlobalPhase"}}


def g_ciX(rng):
    ops = rand_ops(rng, W3, 2, pool="clifford") + [qp.ctrl(qp.S(1), control=[0]), qp.Toffoli([0, 1, 2]), qp.ctrl(qp.S(1), control=[0])]
    return QuantumScript(ops, [qp.expval(qp.Z(2))]), (), {}


def with_graph(fn):
    def w(tape, *a, **k):
        qp.decomposition.enable_graph()
        try:
            return fn(tape, *a, **k)
        finally:
            qp.decomposition.disable_graph()
    w._c18_inner = fn
    return w


def T_(x):  # plain helper: (tape) -> (tape, args, kwargs)
    return lambda rng: (x(rng), (), {})


def kw_(gen, *args, **kw):
    return lambda rng: (gen(rng), args, kw)


tr = qp.transforms
gr = qp.gradients
pp = qp.devices.preprocess


def _pipeline(*ts):
    return CompilePipeline(*ts)


def _compile_custom(tape, **kw):
    return qp.compile(tape, pipeline=[tr.cancel_inverses, tr.single_qubit_fusion, tr.undo_swaps], **kw)


# name -> (callable(tape,*a,**k) -> (batch, fn), [variant generators], constituents for attribution)
REG = {}


def reg(name, fn, gens, parts=()):
    REG[name] = (fn, gens, tuple(parts))


def build_registry():
    # optimisation
    reg("cancel_inverses", tr.cancel_inverses, [G(), kw_(g_generic, recursive=False)])
    reg("commute_controlled", tr.commute_controlled, [G(), kw_(g_generic, direction="left")])
    reg("merge_rotations", tr.merge_rotations, [G(), kw_(g_generic, include_gates=["RX", "CRX"])])
    reg("single_qubit_fusion", tr.single_qubit_fusion, [G(), kw_(g_generic, exclude_gates=["RX"])])
    reg("merge_amplitude_embedding", tr.merge_amplitude_embedding, [T_(g_ampemb)])
    reg("remove_barrier", tr.remove_barrier, [lambda rng: (g_generic(rng, extra=[qp.Barrier(W3), qp.Barrier([0])]), (), {})])
    reg("undo_swaps", tr.undo_swaps, [lambda rng: (g_generic(rng, extra=[qp.SWAP([0, 1]), qp.SWAP([1, 2])]), (), {})])
    reg("pattern_matching_optimization", tr.pattern_matching_optimization, [g_pattern])
    reg("match_controlled_iX_gate", tr.match_controlled_iX_gate, [g_ciX, kw_(lambda r: g_generic(r, pool="clifford", meas="expval"), num_controls=1)])
    reg("match_relative_phase_toffoli", tr.match_relative_phase_toffoli, [G(nw=4, meas="expval")])
    reg("combine_global_phases", tr.combine_global_phases, [T_(g_gs)])
    reg("unitary_to_rot", tr.unitary_to_rot, [T_(g_unitary)])
    reg("compile", qp.compile, [G(), kw_(g_decomp, num_passes=2), kw_(g_decomp, basis_set=["CNOT", "RX", "RY", "RZ"])],
        parts=("commute_controlled", "cancel_inverses", "merge_rotations"))
    reg("compile[cancel_inverses,single_qubit_fusion,undo_swaps]", _compile_custom, [G(), T_(g_decomp)],
        parts=("cancel_inverses", "single_qubit_fusion", "undo_swaps"))
    # decomposition
    reg("decompose[graph]", with_graph(tr.decompose), [g_decompose_kw])
    reg("decompose", tr.decompose, [g_decompose_kw, kw_(g_decomp, max_expansion=1), T_(g_mcm)])
    reg("clifford_t_decomposition", tr.clifford_t_decomposition, [kw_(lambda r: g_generic(r, nw=2, n=4, meas="expval"), epsilon=0.05)])
    reg("gridsynth", tr.gridsynth, [G(nw=2, n=4)])
    reg("rz_phase_gradient", tr.rz_phase_gradient, [g_rzpg])
    reg("transpile", tr.transpile, [g_transpile])
    reg("to_zx", tr.to_zx, [G(pool="clifford", meas="expval", shots=None), kw_(lambda r: g_generic(r, pool="clifford", meas="diag", shots=None), expand_measurements=True)])
    reg("parity_matrix", tr.parity_matrix, [T_(g_cnots), kw_(g_cnots, wire_order=[2, 0, 1])])
    reg("phase_polynomial", tr.phase_polynomial, [T_(lambda r: g_cnots(r, rz=True))])
    reg("rowcol", tr.rowcol, [g_rowcol])
    reg("commutation_dag", tr.commutation_dag, [G()])
    reg("convert_to_numpy_parameters", tr.convert_to_numpy_parameters, [G(), T_(g_grad)])
    reg("decomp_inspector", with_graph(tr.decomp_inspector), [g_inspect])
    reg("resolve_dynamic_wires", tr.resolve_dynamic_wires, [g_dynwires])
    reg("map_wires", qp.map_wires, [g_mapwires])
    reg("simplify", qp.simplify, [G()])
    reg("snapshots", qp.snapshots, [T_(g_snap)])
    reg("apply_controlled_Q", tr.apply_controlled_Q, [kw_(g_qmc_tape, wires=[0, 1], target_wire=1, control_wire=2, work_wires=[3])])
    reg("quantum_monte_carlo", tr.quantum_monte_carlo, [kw_(g_qmc_tape, wires=[0, 1], target_wire=1, estimation_wires=[2, 3])])
    # measurement splitting / mcm
    reg("split_non_commuting", tr.split_non_commuting, [G(meas="noncommuting"), kw_(lambda r: g_generic(r, meas="noncommuting"), grouping_strategy="wires"),
                                                        kw_(lambda r: g_generic(r, meas="noncommuting"), grouping_strategy=None)])
    reg("split_to_single_terms", tr.split_to_single_terms, [G(meas="sum")])
    reg("diagonalize_measurements", tr.diagonalize_measurements, [G(meas="diag"), kw_(lambda r: g_generic(r, meas="diag"), supported_base_obs={qp.Z, qp.X}),
                                                                  kw_(lambda r: g_generic(r, meas="diag"), to_eigvals=True),
                                                                  # partial diagonalisation of symbolic observables (SProd / Pow / Sum of a rotated base)
                                                                  kw_(lambda r: qp.tape.QuantumScript([qp.RX(0.9, 0), qp.RY(0.4, 1), qp.CNOT([0, 1])],
                                                                                                      [qp.expval(0.5 * qp.Y(0)), qp.expval(qp.X(1))]), supported_base_obs=[qp.X]),
                                                                  kw_(lambda r: qp.tape.QuantumScript([qp.RX(0.9, 0), qp.RY(0.4, 1), qp.CNOT([0, 1])],
                                                                                                      [qp.expval(qp.s_prod(2.0, qp.Y(0) @ qp.X(1))), qp.var(qp.s_prod(-1.0, qp.Hadamard(2)))]), supported_base_obs=[qp.X, qp.Z]),
                                                                  kw_(lambda r: qp.tape.QuantumScript([qp.RX(0.9, 0), qp.RY(0.4, 1)],
                                                                                                      [qp.expval(qp.Y(0) + 0.5 * qp.X(1)), qp.expval(qp.pow(qp.Y(2), 3))]), supported_base_obs=[qp.Z, qp.Hadamard])])
    reg("sign_expand", tr.sign_expand, [g_sign])
    reg("defer_measurements", tr.defer_measurements, [T_(g_mcm), kw_(g_mcm, reduce_postselected=False)])
    reg("dynamic_one_shot", tr.dynamic_one_shot, [T_(lambda r: g_mcm(r, shots=r.choice([12, (5, 6)])))])
    # batching
    reg("batch_params", tr.batch_params, [T_(g_batched), kw_(g_batched, all_operations=True)])
    reg("batch_input", tr.batch_input, [g_batch_input])
    reg("broadcast_expand", tr.broadcast_expand, [T_(g_broadcast)])
    # gradients
    reg("param_shift", gr.param_shift, [T_(g_grad), kw_(g_grad, broadcast=True), kw_(g_grad, argnum=[0])])
    reg("finite_diff", gr.finite_diff, [T_(g_grad), kw_(g_grad, strategy="center", approx_order=2)])
    reg("spsa_grad", gr.spsa_grad, [kw_(g_grad, sampler_rng=np.random.default_rng(5)), kw_(g_grad, num_directions=2, sampler_rng=np.random.default_rng(6))])
    reg("hadamard_grad", gr.hadamard_grad, [kw_(lambda r: g_grad(r, meas="expval"), aux_wire=3), kw_(lambda r: g_grad(r, meas="expval"), mode="reversed", aux_wire=3),
                                            kw_(lambda r: g_grad(r, meas="expval"), mode="direct")])
    reg("param_shift_hessian", gr.param_shift_hessian, [T_(g_hessian)])
    reg("metric_tensor", gr.metric_tensor, [g_metric])
    reg("adjoint_metric_tensor", gr.adjoint_metric_tensor, [T_(g_adjmetric)])
    reg("quantum_fisher", gr.quantum_fisher, [g_fisher])
    reg("pulse_odegen", gr.pulse_odegen, [T_(g_pulse)])
    reg("stoch_pulse_grad", gr.stoch_pulse_grad, [kw_(g_pulse, sampler_seed=3)])
    # noise
    reg("add_noise", qp.noise.add_noise, [g_noise_model])
    reg("fold_global", qp.noise.fold_global, [kw_(g_grad, scale_factor=3), kw_(g_grad, scale_factor=2.5)])
    reg("insert", qp.noise.insert, [g_insert])
    reg("mitigate_with_zne", qp.noise.mitigate_with_zne, [g_zne])
    # cutting
    reg("cut_circuit", qp.cut_circuit, [kw_(g_cut, device_wires=qp.wires.Wires([0, 1, 2])), kw_(g_cut, use_opt_einsum=True, device_wires=qp.wires.Wires([0, 1, 2]))])
    reg("cut_circuit_mc", qp.cut_circuit_mc, [g_cut_mc])
    # misc public
    reg("circuit_spectrum", qp.fourier.circuit_spectrum, [T_(g_spectrum), kw_(g_spectrum, encoding_gates=["x"])])
    reg("shadow_state", qp.shadows.shadow_state, [g_shadow])
    reg("ftqc.convert_to_mbqc_gateset", with_graph(qp.ftqc.convert_to_mbqc_gateset), [T_(g_mbqc_gateset)])
    reg("ftqc.convert_to_mbqc_formalism", qp.ftqc.convert_to_mbqc_formalism,
        [lambda r: (QuantumScript([qp.H(0), qp.S(0), qp.CNOT([0, 1]), qp.ftqc.RotXZX(0.1, 0.2, 0.3, 1)], [qp.sample(wires=[0, 1])], shots=5), (), {})])
    reg("ftqc.diagonalize_mcms", qp.ftqc.diagonalize_mcms, [T_(g_diag_mcms)])
    # device preprocessing transforms (public in qp.devices.preprocess)
    reg("preprocess.decompose", pp.decompose, [g_preproc_decompose])
    reg("preprocess.validate_device_wires", pp.validate_device_wires, [kw_(g_generic, wires=qp.wires.Wires([0, 1, 2, 3])), T_(g_generic)])
    reg("preprocess.validate_measurements", pp.validate_measurements, [G()])
    reg("preprocess.validate_observables", pp.validate_observables, [kw_(g_generic, stopping_condition=lambda o: True)])
    reg("preprocess.no_sampling", pp.no_sampling, [G(shots=None)])
    reg("preprocess.no_analytic", pp.no_analytic, [lambda r: (g_generic(r, shots=50, meas="grad"), (), {})])
    reg("preprocess.measurements_from_samples", pp.measurements_from_samples, [lambda r: (g_generic(r, shots=50, meas="grad"), (), {})])
    reg("preprocess.measurements_from_counts", pp.measurements_from_counts, [lambda r: (g_generic(r, shots=50, meas="grad"), (), {})])
    reg("preprocess.validate_adjoint_trainable_params", pp.validate_adjoint_trainable_params, [T_(g_grad)])
    reg("preprocess.device_resolve_dynamic_wires", pp.device_resolve_dynamic_wires,
        [lambda r: (g_dynwires(r)[0], (), {"wires": qp.wires.Wires([0, 1, "a", "b"])})])
    # pipelines
    reg("pipeline[cancel_inverses+undo_swaps]", _pipeline(tr.cancel_inverses, tr.undo_swaps),
        [lambda rng: (g_generic(rng, extra=[qp.SWAP([0, 1])]), (), {})], parts=("cancel_inverses", "undo_swaps"))
    reg("pipeline[remove_barrier+single_qubit_fusion+cancel_inverses]", _pipeline(tr.remove_barrier, tr.single_qubit_fusion, tr.cancel_inverses),
        [lambda rng: (g_generic(rng, extra=[qp.Barrier(W3)]), (), {})], parts=("remove_barrier", "single_qubit_fusion", "cancel_inverses"))
    reg("pipeline[split_non_commuting+param_shift]", _pipeline(tr.split_non_commuting, gr.param_shift),
        [lambda rng: (g_grad(rng, meas="noncommuting"), (), {})], parts=("split_non_commuting", "param_shift"))
    reg("pipeline[decompose+merge_rotations+commute_controlled]", _pipeline(pp.decompose, tr.merge_rotations, tr.commute_controlled) if False else
        _pipeline(tr.cancel_inverses, tr.merge_rotations, tr.commute_controlled),
        [G()], parts=("cancel_inverses", "merge_rotations", "commute_controlled"))
    reg("pipeline[defer_measurements+diagonalize_measurements]", _pipeline(tr.defer_measurements, tr.diagonalize_measurements),
        [T_(g_mcm)], parts=("defer_measurements", "diagonalize_measurements"))


def enumerate_public():
    """every Transform object reachable from the public namespaces (so that a NEW transform is noticed)"""
    import importlib
    found = {}
    for modname in ["pennylane.transforms", "pennylane.gradients", "pennylane.noise", "pennylane.qcut", "pennylane",
                    "pennylane.fourier", "pennylane.shadows", "pennylane.ftqc", "pennylane.devices.preprocess", "pennylane.debugging"]:
        try:
            mod = importlib.import_module(modname)
        except Exception:  # noqa
            continue
        for n in dir(mod):
            if n.startswith("_"):
                continue
            o = getattr(mod, n)
            if isinstance(o, Transform):
                found.setdefault(id(o), (modname + "." + n, o))
    return found


# ------------------------------------------------------------------------------------------ differential


def apply(fn, tape, args, kwargs):
    """returns (batch, post); informative/final transforms return their result directly -> ([], None)"""
    out = fn(tape, *args, **kwargs)
    if isinstance(out, tuple) and len(out) == 2 and callable(out[1]) and isinstance(out[0], (list, tuple)) \
            and all(isinstance(t, QuantumScript) for t in out[0]):
        return list(out[0]), out[1]
    return [], None


def run_case(case):
    name, variant, cseed = case["t"], case["variant"], case["cseed"]
    fn, gens, parts = REG[name]
    gen = gens[variant % len(gens)]
    res = {"t": name, "variant": variant, "cseed": cseed, "status": "ok", "diffs": [], "stage": None}
    import time as _time
    _t0 = _time.time()
    try:
        return _run_case(res, name, variant, cseed, fn, gen, parts)
    finally:
        res["dt"] = round(_time.time() - _t0, 3)


def _run_case(res, name, variant, cseed, fn, gen, parts):
    try:
        tape, args, kwargs = gen(random.Random(cseed))
        ref, _, _ = gen(random.Random(cseed))      # structurally identical, independent objects
    except Exception as ex:  # noqa
        res["status"] = "gen_error:" + type(ex).__name__ + ":" + str(ex)[:80]
        return res
    res["tape"] = describe(tape)
    res["n_ops"] = len(tape.operations)
    res["kwargs"] = sorted(kwargs)
    fp0 = fingerprint(tape)
    if fingerprint(tape) != fp0:
        res["status"] = "fingerprint_unstable"
        return res
    try:
        ref_ok = bool(qp.equal(ref, tape))
    except Exception:  # noqa
        ref_ok = False
    res["ref_equal_before"] = ref_ok
    # reference execution on the independent twin (so that the tape under test is untouched before the transform)
    r0 = None
    try:
        r0, dev0 = execute([ref])
        res["exec"] = dev0
    except Exception as ex:  # noqa
        res["exec"] = "not_executable"
    try:
        ref2, _, _ = gen(random.Random(cseed))     # execution may itself touch `ref`; take a fresh twin for qp.equal
    except Exception:  # noqa
        ref2, ref_ok = None, False
    # the transform
    try:
        batch, post = apply(fn, tape, args, kwargs)
    except Exception as ex:  # noqa
        res["status"] = "skipped:" + type(ex).__name__
        res["error"] = str(ex)[:160]
        # a transform that raises must not have modified its input either
        d = fp_diff(fp0, fingerprint(tape))
        if d:
            res["diffs"], res["stage"] = d, "transform(raised)"
        return res
    res["n_out"] = len(batch)
    res["informative"] = post is None
    res["same_object_returned"] = any(t is tape for t in batch)
    d = fp_diff(fp0, fingerprint(tape))
    if d:
        res["diffs"], res["stage"] = d, "transform"
    # post-processing on real (or fake) results
    if not d and post is not None:
        try:
            try:
                rs, _ = execute([copy.copy(t) for t in batch], mixed_first=name in ("add_noise", "insert", "mitigate_with_zne"))
                res["post"] = "executed"
            except Exception:  # noqa
                rs = fake_results(batch)
                res["post"] = "fake"
            post(rs)
        except Exception as ex:  # noqa
            res["post"] = "post_skipped:" + type(ex).__name__
        d = fp_diff(fp0, fingerprint(tape))
        if d:
            res["diffs"], res["stage"] = d, "postprocessing"
    # an output tape (other than the input object itself) must not share the input's list objects
    if not d:
        for t in batch:
            if t is tape:
                continue
            if t.operations is tape.operations or t.measurements is tape.measurements:
                res["diffs"], res["stage"] = ["output_shares_list_object"], "output-alias"
                d = res["diffs"]
                break
    # structural equality with an identically generated twin (independent of my fingerprint)
    if not d and ref_ok:
        try:
            if not qp.equal(ref2, tape):
                res["diffs"], res["stage"] = ["qp.equal(twin, tape)"], "transform"
                d = res["diffs"]
        except Exception:  # noqa
            pass
    # re-execution of the original
    if r0 is not None:
        fpx = fingerprint(tape)
        try:
            r1, _ = execute([tape])
            if not same_results(r0, r1):
                res["diffs"] = sorted(set(res["diffs"]) | {"execution_result"})
                res["stage"] = res["stage"] or "re-execution"
        except Exception as ex:  # noqa
            res["diffs"] = sorted(set(res["diffs"]) | {"execution_raises:" + type(ex).__name__})
            res["stage"] = res["stage"] or "re-execution"
        # observation only (device execution is not a transform in the sense of the property)
        dx = fp_diff(fpx, fingerprint(tape))
        if dx:
            res["exec_changed_input"] = dx
    # attribution for composites: does a constituent alone modify an identically generated tape?
    if res["diffs"] and parts:
        blame = []
        for p in parts:
            try:
                t2, _, _ = gen(random.Random(cseed))
                f2 = fingerprint(t2)
                try:
                    REG[p][0](t2)
                except Exception:  # noqa
                    pass
                if fp_diff(f2, fingerprint(t2)):
                    blame.append(p)
            except Exception:  # noqa
                pass
        res["blame"] = blame
    return res


# ------------------------------------------------------------------------------------------ idiom programs (tie for the model)

def mk_op(code):
    return qp.PhaseShift(float(code), wires=0)


def mk_mp(code):
    return qp.expval(qp.Z(int(code)))


def op_code(o):
    return int(round(float(o.data[0])))


def mp_code(m):
    return int(m.wires[0])


def py_list_mut(lst, m, mk):
    k = m[0]
    if k == "pop": lst.pop(m[1])
    elif k == "insert": lst.insert(m[1], mk(m[2]))
    elif k == "append": lst.append(mk(m[1]))
    elif k == "setitem": lst[m[1]] = mk(m[2])
    elif k == "reverse": lst.reverse()
    elif k == "clear": lst.clear()
    elif k == "delitem": del lst[m[1]]
    else: raise KeyError(k)


def run_idiom(prog):
    """prog = {"tapes": [{"ops":[..], "meas":[..], "shots": n|None, "tp": [..]|None}], "cmds": [...]}
    variables: lists live in env (name -> (python list, kind)); tapes are numbered."""
    tapes = []
    for t in prog["tapes"]:
        tapes.append(QuantumScript([mk_op(c) for c in t["ops"]], [mk_mp(c) for c in t["meas"]], shots=t["shots"],
                                   trainable_params=None if t["tp"] is None else list(t["tp"])))
    env = {}
    status = "ok"
    try:
        for c in prog["cmds"]:
            k = c[0]
            if k == "getops": env[c[1]] = (tapes[c[2]].operations, "op")
            elif k == "getmeas": env[c[1]] = (tapes[c[2]].measurements, "mp")
            elif k == "gettp": env[c[1]] = (tapes[c[2]].trainable_params, "int")
            elif k == "copylist":
                src, kind = env[c[2]]
                env[c[1]] = ({"copy": src.copy, "list": lambda: list(src), "slice": lambda: src[:]}[c[3]](), kind)
            elif k == "newlist": env[c[1]] = ([mk_op(x) for x in c[2]], "op")
            elif k == "mut":
                lst, kind = env[c[1]]
                py_list_mut(lst, c[2], {"op": mk_op, "mp": mk_mp, "int": int}[kind])
            elif k == "tapecopy":
                upd = {}
                if c[2] is not None: upd["operations"] = env[c[2]][0]
                if c[3] is not None: upd["measurements"] = env[c[3]][0]
                if c[4] is not None: upd["shots"] = c[4]
                if c[5] is not None: upd["trainable_params"] = list(c[5])
                tapes.append(tapes[c[1]].copy(copy_operations=bool(c[6]), **upd))
            elif k == "settp": tapes[c[1]].trainable_params = list(c[2])
            elif k == "newtape":
                tapes.append(QuantumScript(env[c[1]][0], env[c[2]][0], shots=c[3]))
            else: raise KeyError(k)
    except (IndexError, KeyError, ValueError, TypeError) as ex:
        status = "err"
    obs = []
    for t in tapes:
        tp = t._trainable_params
        obs.append({"ops": [op_code(o) for o in t._ops], "meas": [mp_code(m) for m in t._measurements],
                    "shots": t.shots.total_shots, "tp": None if tp is None else [int(i) for i in tp]})
    # aliasing relations between the tapes' list objects
    alias = []
    for i in range(len(tapes)):
        for j in range(i + 1, len(tapes)):
            alias.append([i, j, tapes[i]._ops is tapes[j]._ops, tapes[i]._measurements is tapes[j]._measurements,
                          tapes[i]._trainable_params is not None and tapes[i]._trainable_params is tapes[j]._trainable_params])
    return {"status": status, "tapes": obs, "alias": alias}


def listing():
    pub = enumerate_public()
    covered = {}
    for name, (fn, gens, parts) in REG.items():
        covered[name] = {"variants": len(gens), "parts": list(parts),
                         "public_id": next((q for i, (q, o) in pub.items() if o is getattr(fn, "_c18_inner", fn)), None)}
    regd = {id(getattr(fn, "_c18_inner", fn)) for fn, _, _ in REG.values()}
    unregistered = sorted(q for i, (q, o) in pub.items() if i not in regd)
    return {"registry": covered, "public": sorted(q for q, _ in pub.values()), "unregistered": unregistered,
            "transforms_all": [n for n in qp.transforms.__all__]}


def auto_cases(master, k, skip, thorough_single):
    """deterministic case list: registry x variants x k seeds; the first seed of every variant is fixed (regression corpus)"""
    cases = []
    for name, (fn, gens, parts) in REG.items():
        if name in skip:
            continue
        for v in range(len(gens)):
            n = 1 if name in thorough_single else k
            for j in range(n):
                cseed = 1000 + v if j == 0 else random.Random(f"{master}:{name}:{v}:{j}").randrange(10 ** 9)
                cases.append({"t": name, "variant": v, "cseed": cseed})
    return cases


def run_cases(cases):
    out = []
    for c in cases:
        if c["t"] not in REG:
            out.append({"t": c["t"], "variant": c["variant"], "cseed": c["cseed"], "status": "unknown_transform", "diffs": []})
            continue
        try:
            out.append(run_case(c))
        except Exception as ex:  # noqa
            out.append({"t": c["t"], "variant": c["variant"], "cseed": c["cseed"], "status": "driver_error:" + type(ex).__name__ + ":" + str(ex)[:120],
                        "diffs": []})
    return out


def main():
    payload = json.load(sys.stdin)
    mode = payload.get("mode", "diff")
    if mode == "idioms":
        print(json.dumps([run_idiom(p) for p in payload["programs"]]))
        return
    build_registry()
    if mode == "list":
        print(json.dumps(listing()))
        return
    if mode == "auto":
        # one process does a shard of the differential (+ extra cases) and, if given, the idiom programs
        cases = auto_cases(payload["master"], payload["k"], set(payload.get("skip", [])), set(payload.get("single", [])))
        mine = list(payload.get("extra", [])) + cases[payload["shard"]::payload["nshard"]]
        res = {"obs": run_cases(mine), "n_total": len(cases)}
        if payload["shard"] == 0:
            res["listing"] = listing()
        if payload.get("programs") is not None:
            res["idioms"] = [run_idiom(p) for p in payload["programs"]]
        print(json.dumps(res, default=str))
        return
    print(json.dumps(run_cases(payload["cases"]), default=str))


main()
