"""C07: attribute sets of pennylane.ops.qubit.attributes -> symbolic obligations + numeric checks."""
import sys, json, random, itertools, time, math
sys.path.insert(0, "/verif/harness")
from qrules import *
from pennylane.ops.qubit import attributes as A
import numpy as np

req = json.load(sys.stdin)
rng = random.Random(req["seed"])
tier = req["tier"]
install_patches()
t0 = time.time()
items, oblig = [], []
HZ = 4


def instances(name, nvars_wanted=None):
    """list of (tag, nparams, factory(params)->op)"""
    cls = find_cls(name)
    out = []
    if name == "MultiRZ":
        for n in ((2, 3) if tier == "quick" else (1, 2, 3, 4)):
            out.append((f"MultiRZ[{n}]", 1, lambda p, n=n: qp.MultiRZ(p[0], wires=list(range(n)))))
    elif name == "PauliRot":
        for w in (("X", "ZY") if tier == "quick" else ("X", "Y", "Z", "XX", "ZY", "XYZ", "IZ")):
            out.append((f"PauliRot[{w}]", 1, lambda p, w=w: qp.PauliRot(p[0], w, wires=list(range(len(w))))))
    elif name == "PCPhase":
        for (dim, n) in (((1, 1), (2, 2), (3, 2)) if tier == "quick" else ((1, 1), (2, 2), (3, 2), (1, 2), (5, 3), (7, 3))):
            out.append((f"PCPhase[{dim},{n}]", 1, lambda p, dim=dim, n=n: qp.PCPhase(p[0], dim=dim, wires=list(range(n)))))
    elif name == "Identity":
        for n in (1, 2, 3):
            out.append((f"Identity[{n}]", 0, lambda p, n=n: qp.Identity(wires=list(range(n)))))
    elif name == "GlobalPhase":
        out.append(("GlobalPhase", 1, lambda p: qp.GlobalPhase(p[0], wires=[0])))
    elif cls is not None and isinstance(getattr(cls, "num_params", None), int) and isinstance(getattr(cls, "num_wires", None), int) \
            and name not in ("QubitUnitary", "DiagonalQubitUnitary", "StatePrep", "ControlledQubitUnitary", "SpecialUnitary"):
        npar, nw = cls.num_params, cls.num_wires
        out.append((name, npar, lambda p, cls=cls, nw=nw, npar=npar: cls(*p[:npar], wires=list(range(nw)))))
    return out


def sym_of(op):
    S = op_matrix_sym(op)
    ok, w = spot_check(op, S, rng)
    if not ok:
        raise NotExtractable(f"spot-check failed ({w})")
    return S


def add(claim, tag, stmt, extra=None):
    name = f"ob_{len(oblig)}"
    oblig.append({"name": name, "stmt": stmt, "claim": claim, "tag": tag})
    return name


def numeric(op_f, npar, fn, n=3):
    """fn(matrix-producing closure) evaluated at random + boundary points; returns failure description or None"""
    pts = [[rng.uniform(-7, 7) for _ in range(max(npar, 1))] for _ in range(n)] + [[0.0] * max(npar, 1), [math.pi] * max(npar, 1), [2 * math.pi] * max(npar, 1)]
    for th in pts:
        r = fn(th)
        if r is not None:
            return {"thetas": th, "detail": r}
    return None


def mat(op):
    return np.asarray(qp.matrix(op, wire_order=list(op.wires)))


def perm_obligations(claim, tag, S, k, perms):
    for sg in perms:
        add(claim, f"{tag}:{sg}", f"cols_ok {HZ}%Z {k}%nat [({g_nats(sg)}, {g_mat(S)})] {g_nats(range(k))} {g_mat(S)} (all_cols {k}%nat) = true")


for claim in ("self_inverses", "symmetric_over_all_wires", "symmetric_over_control_wires", "diagonal_in_z_basis",
              "composable_rotations", "has_unitary_generator", "supports_broadcasting"):
    for name in sorted(getattr(A, claim)):
        insts = instances(name)
        if not insts:
            items.append({"claim": claim, "name": name, "status": "not-modelled", "detail": "no generic instance builder (matrix/array-valued parameters or template): numeric check only"})
        for tag, npar, f in insts:
            it = {"claim": claim, "name": tag, "status": "ok", "detail": "", "n_obl": 0}
            items.append(it)
            nv = {"composable_rotations": 2 * max(npar, 1), "supports_broadcasting": 3 * max(npar, 1)}.get(claim, max(npar, 1))
            set_cfg(8, 8, nv)
            n0 = len(oblig)
            try:
                if claim == "self_inverses":
                    op = f([var_array(j) for j in range(npar)])
                    S = sym_of(op)
                    add(claim, tag, f"meqb {HZ}%Z (p_mmul {HZ}%Z {g_mat(S)} {g_mat(S)}) (p_mident {len(S)}%nat) = true")
                    it["numeric_fail"] = numeric(f, npar, lambda th: None if np.allclose(mat(f(th)) @ mat(f(th)), np.eye(len(S)), atol=1e-9) else "M@M != I")
                elif claim in ("symmetric_over_all_wires", "symmetric_over_control_wires"):
                    op = f([var_array(j) for j in range(npar)])
                    S = sym_of(op)
                    k = len(op.wires)
                    if claim == "symmetric_over_all_wires":
                        perms = [list(p) for p in itertools.permutations(range(k)) if list(p) != list(range(k))]
                    else:
                        perms = [list(p) + [k - 1] for p in itertools.permutations(range(k - 1)) if list(p) != list(range(k - 1))]
                    perm_obligations(claim, tag, S, k, perms)
                    def chk(th, perms=perms, k=k):
                        o = f(th)
                        M0 = np.asarray(qp.matrix(o, wire_order=list(range(k))))
                        for sg in perms:
                            o2 = o.map_wires({i: sg[i] for i in range(k)})
                            if not np.allclose(np.asarray(qp.matrix(o2, wire_order=list(range(k)))), M0, atol=1e-9):
                                return f"permutation {sg} changes the matrix"
                        return None
                    it["numeric_fail"] = numeric(f, npar, chk)
                elif claim == "diagonal_in_z_basis":
                    op = f([var_array(j) for j in range(npar)])
                    S = sym_of(op)
                    add(claim, tag, f"is_diag {HZ}%Z {g_mat(S)} = true")
                    it["numeric_fail"] = numeric(f, npar, lambda th: None if np.allclose(mat(f(th)), np.diag(np.diag(mat(f(th)))), atol=1e-12) else "off-diagonal entry")
                elif claim == "composable_rotations":
                    if name == "Rot":
                        it["status"], it["detail"] = "documented-exception", "attribute docstring: Rot angles do not add (fuse_rot_angles); not checked here"
                        continue
                    a = [var_array(j) for j in range(npar)]
                    b = [var_array(npar + j) for j in range(npar)]
                    ab = [lin_array(Lin.var(j) + Lin.var(npar + j)) for j in range(npar)]
                    Sa, Sb, Sab = sym_of(f(a)), sym_of(f(b)), sym_of(f(ab))
                    add(claim, tag, f"meqb {HZ}%Z (p_mmul {HZ}%Z {g_mat(Sa)} {g_mat(Sb)}) {g_mat(Sab)} = true")
                    def chk(th):
                        x, y = th[:npar], [t * 0.7 - 1 for t in th[:npar]]
                        return None if np.allclose(mat(f(x)) @ mat(f(y)), mat(f([p + q for p, q in zip(x, y)])), atol=1e-9) else "U(a)U(b) != U(a+b)"
                    it["numeric_fail"] = numeric(f, npar, chk)
                elif claim == "has_unitary_generator":
                    op = f([0.3] * max(npar, 1))
                    G = qp.generator(op, format="observable")
                    Gm = np.asarray(qp.matrix(G, wire_order=list(op.wires))).astype(complex)
                    SG = mat_to_sym(Gm)
                    lam = s_mul(SG, SG)[0][0]
                    if not lam.t:
                        raise NotExtractable("generator squares to zero entry")
                    lamI = [[lam if i == j else Sym.of(0) for j in range(len(SG))] for i in range(len(SG))]
                    add(claim, tag, f"meqb {HZ}%Z (p_mmul {HZ}%Z {g_mat(SG)} {g_mat(SG)}) {g_mat(lamI)} = true")
                    add(claim, tag + ":nonzero", f"pis_zero {HZ}%Z {lam.gallina()} = false")
                    G2 = Gm @ Gm
                    it["numeric_fail"] = None if (abs(G2[0, 0]) > 1e-9 and np.allclose(G2, G2[0, 0] * np.eye(len(Gm)), atol=1e-9)) else {"detail": "G@G not proportional to identity"}
                    # the generator must generate the gate: U(theta) = exp(i theta G)
                    import scipy.linalg as sla
                    th = 0.731
                    U = mat(f([th] * max(npar, 1)))
                    if not np.allclose(U, sla.expm(1j * th * Gm), atol=1e-9):
                        it["numeric_fail"] = {"detail": "exp(i theta G) != U(theta)", "thetas": [th]}
                elif claim == "supports_broadcasting":
                    if npar == 0:
                        continue
                    B = 3
                    batch = []
                    for j in range(npar):
                        arr = np.empty((B,), dtype=object)
                        for b in range(B):
                            arr[b] = Lin.var(b * npar + j)
                        batch.append(arr)
                    opb = f(batch)
                    Mb = opb.matrix()
                    Mb = np.asarray(Mb)
                    if Mb.ndim != 3 or Mb.shape[0] != B:
                        raise NotExtractable(f"batched matrix has shape {Mb.shape}")
                    for b in range(B):
                        single = f([lin_array(Lin.var(b * npar + j)) for j in range(npar)])
                        Ss = sym_of(single)
                        Sb = [[Sym.of(x) for x in row] for row in Mb[b]]
                        add(claim, f"{tag}:b{b}", f"meqb {HZ}%Z {g_mat(Sb)} {g_mat(Ss)} = true")
                    def chk(th):
                        vals = [np.array([th[0] + 0.3 * b + j for b in range(4)]) for j in range(npar)]
                        Mbn = np.asarray(qp.matrix(f(vals), wire_order=list(f(vals).wires)))
                        for b in range(4):
                            if not np.allclose(Mbn[b], mat(f([v[b] for v in vals])), atol=1e-9):
                                return f"batch element {b} differs"
                        return None
                    it["numeric_fail"] = numeric(f, npar, chk, n=2)
            except NotExtractable as e:
                it["status"], it["detail"] = "notex", str(e)[:300]
                del oblig[n0:]
            except Exception as e:
                it["status"], it["detail"] = "error", f"{type(e).__name__}: {str(e)[:300]}"
                del oblig[n0:]
            it["n_obl"] = len(oblig) - n0
            it["oblig"] = [o["name"] for o in oblig[n0:]]
# numeric-only checks for the members with array-valued parameters
from scipy.stats import unitary_group
nprng = np.random.default_rng(req["seed"])


def _bc(name, build, B=3):
    it = {"claim": "supports_broadcasting", "name": name + "[numeric]", "status": "numeric-only", "detail": "", "n_obl": 0}
    items.append(it)
    try:
        batch_args, singles = build(B)
        opb = batch_args()
        Mb = np.asarray(qp.matrix(opb, wire_order=list(opb.wires)))
        for b in range(B):
            o = singles(b)
            if Mb.ndim != 3 or not np.allclose(Mb[b], np.asarray(qp.matrix(o, wire_order=list(o.wires))), atol=1e-9):
                it["numeric_fail"] = {"detail": f"batch element {b} of {name} differs from the unbatched matrix (batched shape {Mb.shape})"}
                break
    except Exception as e:
        it["status"], it["detail"] = "error", f"{type(e).__name__}: {str(e)[:200]}"


Us = np.stack([unitary_group.rvs(2, random_state=nprng) for _ in range(3)])
_bc("QubitUnitary", lambda B: (lambda: qp.QubitUnitary(Us, wires=[0]), lambda b: qp.QubitUnitary(Us[b], wires=[0])))
Ds = np.exp(1j * nprng.uniform(0, 6, (3, 4)))
_bc("DiagonalQubitUnitary", lambda B: (lambda: qp.DiagonalQubitUnitary(Ds, wires=[0, 1]), lambda b: qp.DiagonalQubitUnitary(Ds[b], wires=[0, 1])))
_bc("ControlledQubitUnitary", lambda B: (lambda: qp.ControlledQubitUnitary(Us, wires=[1, 0]), lambda b: qp.ControlledQubitUnitary(Us[b], wires=[1, 0])))
Ts = nprng.uniform(-2, 2, (3, 3))
_bc("SpecialUnitary", lambda B: (lambda: qp.SpecialUnitary(Ts, wires=[0]), lambda b: qp.SpecialUnitary(Ts[b], wires=[0])))
Fs = nprng.uniform(-2, 2, (3, 2))
_bc("AngleEmbedding", lambda B: (lambda: qp.AngleEmbedding(Fs, wires=[0, 1], rotation="Y"), lambda b: qp.AngleEmbedding(Fs[b], wires=[0, 1], rotation="Y")))
_bc("IQPEmbedding", lambda B: (lambda: qp.IQPEmbedding(Fs, wires=[0, 1]), lambda b: qp.IQPEmbedding(Fs[b], wires=[0, 1])))
Ws = nprng.uniform(-2, 2, (1, 3))
_bc("QAOAEmbedding", lambda B: (lambda: qp.QAOAEmbedding(Fs, Ws, wires=[0, 1]), lambda b: qp.QAOAEmbedding(Fs[b], Ws, wires=[0, 1])))
dq = np.diag(Ds[0])
it = {"claim": "diagonal_in_z_basis", "name": "DiagonalQubitUnitary[numeric]", "status": "numeric-only", "detail": "", "n_obl": 0}
items.append(it)
Md = np.asarray(qp.matrix(qp.DiagonalQubitUnitary(Ds[0], wires=[0, 1])))
if not np.allclose(Md, np.diag(np.diag(Md))):
    it["numeric_fail"] = {"detail": "off-diagonal entry"}
json.dump(oblig, open(req["outdir"] + "/obligations.json", "w"))
print(json.dumps({"items": items, "wall": time.time() - t0}))
