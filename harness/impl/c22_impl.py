"""Runs pennylane's resolve_dynamic_wires / device_resolve_dynamic_wires on the JSON cases from stdin;
prints one JSON line of observations (emitted op codes + wires, measurement wires, or "ERR")."""
import json, sys
import numpy as np
import pennylane as qp
from pennylane.allocation import Allocate, AllocateState
from pennylane.wires import DynamicWire, Wires
from pennylane.tape import QuantumScript
from pennylane.transforms import resolve_dynamic_wires
from pennylane.devices.preprocess import device_resolve_dynamic_wires

STATES = {0: AllocateState.ZERO, 1: AllocateState.ANY, 2: AllocateState.MAGIC_T, 3: AllocateState.MAGIC_T_ADJ}
NAME_CODE = {"Hadamard": 0, "PauliX": 1, "T": 2, "CNOT": 3, "CZ": 4, "Toffoli": 5, "MultiRZ": 6,
             "Allocate": -2, "Deallocate": -3}


def make_gate(code, ws):
    if code == 0:
        return qp.Hadamard(wires=ws)
    if code == 1:
        return qp.PauliX(wires=ws)
    if code == 2:
        return qp.T(wires=ws)
    if code == 3:
        return qp.CNOT(wires=ws)
    if code == 4:
        return qp.CZ(wires=ws)
    if code == 5:
        return qp.Toffoli(wires=ws)
    return qp.MultiRZ(0.37, wires=ws)


def build(case):
    dyn = {}          # id -> DynamicWire

    def dw(i):
        if i not in dyn:
            dyn[i] = DynamicWire()
        return dyn[i]

    def wire(w):
        return w[1] if w[0] == "s" else dw(w[1])

    with qp.queuing.AnnotatedQueue() as q:
        for o in case["prog"]:
            if o["k"] == "a":
                state = STATES[o["s"]]
                if case.get("strstate"):        # the documented string spelling of the state ("zero", "any", ...)
                    state = state.value
                fresh = all(i not in dyn for i in o["ds"]) and len(set(o["ds"])) == len(o["ds"])
                if fresh and not (o["s"] >= 2 and o["r"]) and not case.get("strstate"):
                    reg = qp.allocate(len(o["ds"]), state=state, restored=o["r"])   # the user-facing constructor
                    for i, w in zip(o["ds"], reg):
                        dyn[i] = w
                else:
                    Allocate([dw(i) for i in o["ds"]], state=state, restored=o["r"])
            elif o["k"] == "d":
                qp.deallocate([dw(i) for i in o["ds"]])
            else:
                make_gate(o["c"], [wire(w) for w in o["ws"]])
        for m in case["meas"]:
            qp.probs(wires=[wire(w) for w in m])
    return QuantumScript.from_queue(q), dyn


def enc_wires(ws, rev):
    out = []
    for w in ws:
        if isinstance(w, DynamicWire):
            out.append(["d", rev[w]])
        else:
            out.append(["s", int(w)])
    return out


def enc_op(op, rev):
    if type(op).__name__ == "MidMeasure" or op.name in ("MidMeasure", "MidMeasureMP"):
        ok = getattr(op, "reset", None) is True and getattr(op, "postselect", 0) is None
        return [-1 if ok else -99, enc_wires(op.wires, rev)]
    return [NAME_CODE.get(op.name, -98), enc_wires(op.wires, rev)]


def fresh_version(tape, start):
    """every dynamic wire gets its own never-used label; Allocate/Deallocate dropped"""
    m, ops, nxt = {}, [], start
    for o in tape.operations:
        if o.name in ("Allocate", "Deallocate"):
            continue
        for w in o.wires:
            if isinstance(w, DynamicWire) and w not in m:
                m[w] = nxt
                nxt += 1
        ops.append(o.map_wires(m) if m else o)
    return QuantumScript(ops, tape.measurements)


dev = qp.device("default.qubit")
out = []
for case in json.load(sys.stdin)["cases"]:
    tape, dyn = build(case)
    rev = {w: i for i, w in dyn.items()}
    cfg = case["cfg"]
    try:
        if cfg["kind"] == "direct":
            (new,), _ = resolve_dynamic_wires(tape, zeroed=tuple(cfg["z"]), any_state=tuple(cfg["a"]),
                                              min_int=cfg["mi"], allow_resets=cfg["ar"])
        else:
            (new,), _ = device_resolve_dynamic_wires(tape, wires=None if cfg["dw"] is None else Wires(cfg["dw"]),
                                                     allow_resets=cfg["ar"])
        r = {"ops": [enc_op(o, rev) for o in new.operations],
             "meas": [enc_wires(m.wires, rev) for m in new.measurements], "diff": None}
    except Exception as e:  # AllocationError, KeyError, WireError ...
        new, r = None, "ERR"
    if new is not None and case.get("sem"):
        # semantic comparison: the fresh-wire reference must run (else harness problem); a resolved circuit
        # that cannot be executed is an observation of its own
        b = qp.execute([fresh_version(tape, 1000)], dev)[0]
        try:
            a = qp.execute([new], dev)[0]
            r["diff"] = float(np.max(np.abs(np.asarray(a) - np.asarray(b))))
        except Exception as e:
            r["diff"], r["exec_error"] = -1.0, type(e).__name__
    out.append(r)
print(json.dumps(out))
