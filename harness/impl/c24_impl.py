"""C24 implementation driver: runs the real pennylane.qcut code.
modes (JSON on stdin -> one JSON line on stdout):
  build : generate circuits, run cut_circuit (raw tape transform, QNode pipeline, auto cutter), record fragment
          configurations, communication-graph structure, default.qubit values, random-dyadic post-processing cases
  post  : rebuild the recorded circuits, feed the supplied (exact) fragment results to the implementation's
          qcut_processing_fn
  mc    : cut_circuit_mc with a classical processing function (fixed seeds)"""
import sys, json, random, math, itertools, warnings, time
from fractions import Fraction as Fr
sys.path.insert(0, "/verif/harness")
from qrules import *
from qx import pyth_angle, exact_circuit_gallina
import numpy as np
import pennylane as qp
from pennylane import qcut
warnings.filterwarnings("ignore")
install_patches()
req = {}
SESS = {}
RECORDED = []
from pennylane.qcut import cutcircuit as _cc
_real_expand = _cc.expand_fragment_tape


def _recording_expand(tape):
    """observe the intermediate objects of cut_circuit: the fragment tape and its expansion"""
    r = _real_expand(tape)
    RECORDED.append((tape, r[0], r[1], r[2]))
    return r


_cc.expand_fragment_tape = _recording_expand

G1 = ["RX", "RY", "RZ", "Hadamard", "S", "T", "PauliX", "PhaseShift", "SX"]
G2 = ["CNOT", "CZ", "CY", "SWAP", "CRX", "CRY", "IsingZZ", "IsingXX", "ControlledPhaseShift"]


def mk_op(d):
    if d[0] == "WireCut":
        return qp.WireCut(wires=d[2])
    return getattr(qp, d[0])(*d[1], wires=d[2])


def rand_gate(rng, wires):
    if len(wires) == 1 or rng.random() < 0.45:
        nm = rng.choice(G1); ws = [rng.choice(wires)]
    else:
        nm = rng.choice(G2); ws = rng.sample(wires, 2)
    cls = getattr(qp, nm)
    return [nm, [pyth_angle(rng) for _ in range(cls.num_params)], ws]


def gen_circuit(rng, kcuts, nmax):
    """returns (n, [op descriptions incl. WireCut])"""
    n = rng.randint(3, nmax)
    ops = [[rng.choice(["RX", "RY"]), [pyth_angle(rng)], [w]] for w in range(n) if rng.random() < 0.8]
    style = rng.random()
    if style < 0.3 and n >= 4:
        # two fragments joined by two (or three) parallel cuts: several measure / prepare axes per tensor
        a = rng.randint(2, n - 2)
        npar = 2 if (kcuts < 3 or a < 3) else 3
        wa, wb = list(range(0, a + 1)), list(range(a + 1 - npar, n))
        for _ in range(rng.randint(3, 5)):
            ops.append(rand_gate(rng, wa))
        shared = list(range(a + 1 - npar, a + 1))
        rng.shuffle(shared)
        if npar == 2 and rng.random() < 0.3:
            ops.append(["WireCut", [], shared])
        else:
            for w in shared:
                ops.append(["WireCut", [], [w]])
                if rng.random() < 0.3:
                    ops.append(rand_gate(rng, wb))
        for _ in range(rng.randint(3, 5)):
            ops.append(rand_gate(rng, wb))
        if kcuts == 1 and rng.random() < 0.5:
            # back to the first fragment: a tensor with both measure and prepare axes
            ops.append(["WireCut", [], [shared[0]]])
            ops.append(rand_gate(rng, [w for w in wa if w not in shared[1:]] or wa))
    elif style < 0.75:
        # chain of stages sharing one wire, cut on the shared wire between stages
        nst = kcuts + 1
        bounds = sorted(rng.sample(range(1, n), min(nst - 1, n - 1))) if n > 1 else []
        while len(bounds) < nst - 1:
            bounds.append(rng.choice(range(1, n))); bounds.sort()
        lo = 0
        for st in range(nst):
            hi = bounds[st] if st < nst - 1 else n - 1
            ws = list(range(min(lo, hi), max(lo, hi) + 1))
            for _ in range(rng.randint(2, 4)):
                ops.append(rand_gate(rng, ws))
            if len(ws) > 1:
                ops.append([rng.choice(["CNOT", "CZ"]), [], [ws[-2], ws[-1]] if rng.random() < 0.5 else [ws[-1], ws[-2]]])
            if st < nst - 1:
                ops.append(["WireCut", [], [hi]])
                lo = hi
    else:
        for _ in range(rng.randint(5, 9)):
            ops.append(rand_gate(rng, list(range(n))))
        for _ in range(kcuts):
            ops.insert(rng.randint(0, len(ops)), ["WireCut", [], [rng.randrange(n)]])
    if rng.random() < 0.15:     # a WireCut on two wires at once
        ops.insert(rng.randint(1, len(ops)), ["WireCut", [], rng.sample(range(n), 2)])
    return n, ops


def rand_word(rng, n):
    k = rng.choice([1, 2, 2, 3, n])
    ws = sorted(rng.sample(range(n), min(k, n))) if rng.random() < 0.7 else rng.sample(range(n), min(k, n))
    return [[w, rng.choice("XYZZZ")] for w in ws]


def word_op(word):
    fs = [getattr(qp, "Pauli" + ch)(w) for w, ch in word]
    return fs[0] if len(fs) == 1 else qp.prod(*fs)


def obs_op(terms):
    if len(terms) == 1 and terms[0][0] == 1.0:
        return word_op(terms[0][1])
    return qp.sum(*[qp.s_prod(c, word_op(w)) for c, w in terms])


def letters_of(obs, wires):
    """Pauli letters of a Pauli-word observable on the given wires, and the remaining word"""
    ps = qp.pauli.pauli_sentence(obs)
    ps.simplify()
    items = list(ps.items())
    assert len(items) == 1 and abs(items[0][1] - 1) < 1e-12, items
    pw = dict(items[0][0])
    return "".join(pw.get(w, "I") for w in wires), {str(w): ch for w, ch in pw.items() if w not in wires}


def full_word(obs):
    ps = qp.pauli.pauli_sentence(obs); ps.simplify()
    items = list(ps.items())
    assert len(items) == 1 and abs(items[0][1] - 1) < 1e-12, items
    return {int(w): ch for w, ch in dict(items[0][0]).items()}


PREP_DOC = {0: np.array([1, 0], complex), 1: np.array([0, 1], complex),
            2: np.array([1, 1], complex) / math.sqrt(2), 3: np.array([1, 1j], complex) / math.sqrt(2)}


def classify_prep(oplist):
    v = np.array([1, 0], complex)
    for o in oplist:
        v = qp.matrix(o) @ v
    for s, ref in PREP_DOC.items():
        if abs(abs(np.vdot(ref, v)) - 1) < 1e-9:
            return s
    return -1


def align(cops, fops):
    """all ways to read the configuration's operations as the fragment's operations with each PrepareNode
    replaced by 1..3 operations on its wire; returns the decoded prepare settings of each way"""
    sols = []

    def rec(ci, fi, got):
        if len(sols) > 8:
            return
        if fi == len(fops):
            if ci == len(cops):
                sols.append(list(got))
            return
        o = fops[fi]
        if isinstance(o, qcut.PrepareNode):
            for ln in (1, 2, 3):
                seg = cops[ci:ci + ln]
                if len(seg) < ln or any(x.wires != o.wires for x in seg):
                    break
                rec(ci + ln, fi + 1, got + [classify_prep(seg)])
        elif ci < len(cops) and qp.equal(cops[ci], o):
            rec(ci + 1, fi + 1, got)
    rec(0, 0, [])
    return sols


def expected_groups(m):
    if m == 0:
        return [[""]]
    out = []
    for base in itertools.product("ZXY", repeat=m):
        out.append(["".join(w) for w in itertools.product(*[("IZ" if b == "Z" else b) for b in base])])
    return out


def analyse(tapes, fn, recorded):
    """structure of one raw cut_circuit result; `recorded` = the (fragment tape, configurations, prepare nodes,
    measure nodes) of every expand_fragment_tape call made by cut_circuit, in fragment order"""
    kw = fn.keywords
    cg, pns, mns = kw["communication_graph"], kw["prepare_nodes"], kw["measure_nodes"]
    edges = list(cg.edges(data="pair"))
    m_edge = {pr[0].obj.node_uid: i for i, (_, _, pr) in enumerate(edges)}
    p_edge = {pr[1].obj.node_uid: i for i, (_, _, pr) in enumerate(edges)}
    problems = []
    frags = []
    pos = 0
    if len(recorded) != len(pns) or len(cg.nodes) != len(pns):
        problems.append("number of expanded fragments / communication-graph nodes differs from prepare_nodes")
    for fi, (pn, mn) in enumerate(zip(pns, mns)):
        p, m = len(pn), len(mn)
        ntap = 4 ** p * (3 ** m if m else 1)
        cfg = tapes[pos:pos + ntap]; pos += ntap
        groups = expected_groups(m)
        ft = recorded[fi][0] if fi < len(recorded) else None
        if ft is not None and ([id(x) for x in pn] != [id(o) for o in ft.operations if isinstance(o, qcut.PrepareNode)]
                               or [id(x) for x in mn] != [id(o) for o in ft.operations if isinstance(o, qcut.MeasureNode)]):
            problems.append(f"fragment {fi}: prepare_nodes/measure_nodes are not the fragment tape's nodes in tape order")
        mwires = [x.wires[0] for x in mn]
        gf_seen = None
        for j, t in enumerate(cfg):
            sp, gi = divmod(j, len(groups))
            digits = [(sp // 4 ** (p - 1 - i)) % 4 for i in range(p)]
            if ft is not None:
                # prepare settings actually used: the operations sitting where each PrepareNode is
                fops = [o for o in ft.operations if not isinstance(o, qcut.MeasureNode)]
                cops, ci, got, ok = list(t.operations), 0, [], True
                fids = {id(o) for o in fops}
                for o in fops:
                    if isinstance(o, qcut.PrepareNode):
                        seg = []
                        while ci < len(cops) and id(cops[ci]) not in fids:
                            seg.append(cops[ci]); ci += 1
                        if any(x.wires != o.wires for x in seg):
                            ok = False
                        # consecutive PrepareNodes: split the run of new operations by wire
                        got.append(seg)
                    else:
                        if ci >= len(cops) or cops[ci] is not o:
                            ok = False; break
                        ci += 1
                if not ok or ci != len(cops):
                    # consecutive PrepareNodes produce one run of new operations: split it by wire instead
                    got2, ok2 = decode_by_wire(t, ft)
                    got, ok = (got2, ok2)
                else:
                    got = [classify_prep(seg) for seg in got]
                if not ok:
                    problems.append(f"fragment {fi} configuration {j}: operations are not the fragment's with PrepareNodes replaced")
                elif got != digits:
                    problems.append(f"fragment {fi} configuration {j}: prepares states {got}, the position in the results assumes {digits}")
            words = []
            for ms in t.measurements:
                if m:
                    w, _rest = letters_of(ms.obs, mwires)
                else:
                    w = ""
                words.append(w)
            if m and words != groups[gi]:
                problems.append(f"fragment {fi} configuration {j}: measures {words}, the position in the results assumes {groups[gi]}")
            if sp == 0:
                gf_seen = (gf_seen or []) + words
        if len(cfg) != ntap:
            problems.append(f"fragment {fi}: {len(cfg)} configurations, expected {ntap}")
        frags.append({"np": p, "nm": m, "ntapes": ntap, "gf": gf_seen or [""],
                      "pe": [p_edge.get(x.node_uid, -1) for x in pn], "me": [m_edge.get(x.node_uid, -1) for x in mn]})
    if pos != len(tapes):
        problems.append(f"{len(tapes)} tapes returned, structure accounts for {pos}")
    return {"k": len(edges), "frags": frags, "edges": [[a, b] for a, b, _ in edges], "problems": problems}


def decode_by_wire(t, ft):
    """new operations (not objects of the fragment tape) grouped by the PrepareNode wire, in tape order; the
    remaining operations must be the fragment's, in order"""
    fops = [o for o in ft.operations if not isinstance(o, (qcut.MeasureNode, qcut.PrepareNode))]
    fids = {id(o) for o in fops}
    rest = [o for o in t.operations if id(o) in fids]
    if [id(o) for o in rest] != [id(o) for o in fops]:
        return [], False
    new = [o for o in t.operations if id(o) not in fids]
    got = []
    for pnode in [o for o in ft.operations if isinstance(o, qcut.PrepareNode)]:
        seg = [o for o in new if o.wires == pnode.wires]
        new = [o for o in new if o.wires != pnode.wires]
        got.append(classify_prep(seg))
    return got, not new


def tape_desc(t, circ_cache):
    nw = max([int(w) for w in t.wires], default=0) + 1
    txt = exact_circuit_gallina(t.operations, list(range(nw)))
    key = circ_cache.setdefault((nw, txt), len(circ_cache))
    return {"c": key, "n": nw, "meas": [full_word(ms.obs) for ms in t.measurements]}


def build_tape(case, term=None):
    ops = [mk_op(d) for d in case["ops"]]
    terms = case["terms"] if term is None else [[1.0, case["terms"][term][1]]]
    return qp.tape.QuantumScript(ops, [qp.expval(obs_op(terms))])


def nest(flat, tapes):
    out, i = [], 0
    for t in tapes:
        k = len(t.measurements)
        out.append(tuple(np.float64(x) for x in flat[i:i + k]) if k > 1 else np.float64(flat[i]))
        i += k
    return out


def dyadic(rng):
    return Fr(rng.randint(-64, 64), 64)


def mode_build():
    rng = random.Random(req["seed"])
    tier = req["tier"]
    ncase = req["ncase"]
    nmax = req.get("nmax", 6)
    cases, circ_cache = [], {}
    dev_all = {}
    for ci in range(ncase):
        kc = req["kcuts"][ci % len(req["kcuts"])]
        n, ops = gen_circuit(rng, kc, nmax)
        nterms = 1 if rng.random() < 0.6 else rng.randint(2, 3)
        terms = [[1.0 if nterms == 1 else float(Fr(rng.randint(-8, 8) or 3, 4)), rand_word(rng, n)] for _ in range(nterms)]
        if ci == 0:
            # fixed corpus: one wire cut twice, re-entering the fragment it left (the fragment tape has to chain its wire
            # bookkeeping: original wire -> fresh wire after the first measurement -> ... )
            import math as _m
            A1, A2 = 2 * _m.atan2(4, 3), 2 * _m.atan2(3, 4)
            n = 5      # two spare device wires: the re-entering fragment needs a fresh wire per cut
            ops = [["RX", [A1], [0]], ["RY", [A2], [1]], ["RX", [A2], [2]], ["CNOT", [], [0, 1]], ["WireCut", [], [1]],
                   ["CRY", [A1], [1, 2]], ["WireCut", [], [1]], ["RY", [A2], [0]], ["CNOT", [], [0, 1]], ["WireCut", [], [1]],
                   ["CRX", [-A2], [1, 2]], ["WireCut", [], [1]], ["RX", [A1], [1]], ["CNOT", [], [1, 0]]]
            terms = [[1.0, [[0, "Z"], [1, "Z"], [2, "X"]]]]
        case = {"n": n, "ops": ops, "terms": terms, "exact": ci < req["nexact"], "status": "ok"}
        cases.append(case)
        for extra in (0, 2, 4, None):
          try:
            if extra is None:
                raise RuntimeError("cut_circuit needs more than n+4 device wires")
            nd = n + extra      # the fragments may need fresh device wires (one per re-entering cut): retry with spare wires
            case["device_wires"] = nd
            nocut = [mk_op(d) for d in ops if d[0] != "WireCut"]
            case["uncut"] = tape_desc(qp.tape.QuantumScript(nocut, []), circ_cache)
            dev = dev_all.setdefault(nd, qp.device("default.qubit", wires=nd))
            full = build_tape(case)
            # (1) the transform applied to a QNode (expand transform, Sum splitting, execution, post-processing)
            qn = qp.QNode(lambda: [qp.apply(o) for o in full.operations] and qp.apply(full.measurements[0]), dev)
            case["pipeline"] = float(qp.cut_circuit(qn)())
            if ci % 3 == 0:
                try:
                    import opt_einsum  # noqa
                    case["pipeline_opt"] = float(qp.cut_circuit(qn, use_opt_einsum=True)())
                except ImportError:
                    pass
            case["dq_uncut"] = float(qp.execute([qp.tape.QuantumScript(nocut, full.measurements)], dev)[0])
            # (2) per Pauli word: raw transform, structure, default.qubit + implementation post-processing, dyadic case
            case["t"] = []
            for ti in range(len(terms)):
                tp = build_tape(case, ti)
                del RECORDED[:]
                tapes, fn = qp.cut_circuit.tape_transform(tp, device_wires=qp.wires.Wires(range(nd)))
                st = analyse(tapes, fn, list(RECORDED))
                SESS[(ci, ti)] = (tapes, fn)
                res = qp.execute(tapes, dev)
                st["dq"] = float(fn(res))
                nres = sum(len(t.measurements) for t in tapes)
                vals = [dyadic(rng) for _ in range(nres)]
                r = fn(nest([float(v) for v in vals], tapes))
                st["dy_in"] = [[v.numerator, v.denominator] for v in vals]
                fr = Fr(float(r)); st["dy_out"] = [fr.numerator, fr.denominator]
                st["nres"] = nres
                if case["exact"] and len(tapes) <= req.get("maxtapes", 10 ** 9) and len(circ_cache) < req.get("maxcirc", 10 ** 9):
                    st["tapes"] = [tape_desc(t, circ_cache) for t in tapes]
                case["t"].append(st)
            break
          except qp.exceptions.WireError:
            continue            # not enough device wires for the fragments' fresh wires: documented precondition, retry
          except NotExtractable as e:
            case["status"], case["detail"] = "notex", str(e)[:200]
            break
          except Exception as e:
            import traceback
            case["status"], case["detail"] = "error", f"{type(e).__name__}: {str(e)[:300]} | " + traceback.format_exc()[-600:]
            break
    # automatic cutter
    auto = []
    try:
        import kahypar  # noqa
        have_kahypar = True
    except Exception:
        have_kahypar = False
    # fixed corpus (independent of the seed and of KaHyPar): the documented `auto_cutter=<callable>` interface with a
    # partitioner that returns given graph edges, placed by find_and_place_cuts / place_wire_cuts.  The cut edges join
    # gates that are ADJACENT in the tape (no operation in between: the inserted WireCut needs a position strictly
    # between two consecutive positions), gates separated by operations on other wires, the first operations of the
    # tape, and both wires of two consecutive two-qubit gates.
    frng = random.Random(2424)
    for fc in fixed_auto_corpus():
        a = {"n": fc["n"], "ops": fc["ops"], "terms": fc["terms"], "status": "ok", "devw": fc["devw"],
             "cutter": "callable returning the edges (op index before, op index after) %s" % fc["cut"], "cut_edges": fc["cut"]}
        auto.append(a)
        try:
            a["uncut"] = tape_desc(qp.tape.QuantumScript([mk_op(d) for d in fc["ops"]], []), circ_cache)
            tp = build_tape(a)
            tapes, fn = qp.cut_circuit.tape_transform(tp, auto_cutter=edge_cutter(tp.operations, fc["cut"], a),
                                                      device_wires=qp.wires.Wires(range(a["devw"])))
            a["maxw"] = max(len(t.wires) for t in tapes)
            kw = fn.keywords
            a["k"] = kw["communication_graph"].number_of_edges()
            a["nfrag"] = len(kw["prepare_nodes"])
            if a.get("edges_found") != len(fc["cut"]) or a["k"] != len(fc["cut"]):
                raise RuntimeError(f"harness: requested {len(fc['cut'])} cut edges, cutter found {a.get('edges_found')}, communication graph has {a['k']}")
            a["dq"] = float(fn(qp.execute(tapes, qp.device("default.qubit", wires=fc["n"]))))
            st = analyse_auto(tapes, fn)
            nres = sum(len(t.measurements) for t in tapes)
            vals = [dyadic(frng) for _ in range(nres)]
            r = fn(nest([float(v) for v in vals], tapes))
            st["dy_in"] = [[v.numerator, v.denominator] for v in vals]
            fr = Fr(float(r)); st["dy_out"] = [fr.numerator, fr.denominator]
            a["st"] = st
        except NotExtractable as e:
            a["status"], a["detail"] = "notex", str(e)[:200]
        except Exception as e:
            import traceback
            a["status"], a["detail"] = "error", f"{type(e).__name__}: {str(e)[:300]} | " + traceback.format_exc()[-600:]
    for ai in range(req.get("nauto", 0) if have_kahypar else 0):
        n, ops = gen_circuit(rng, rng.choice([1, 2]), min(nmax, 5))
        ops = [d for d in ops if d[0] != "WireCut"] if rng.random() < 0.7 else ops
        terms = [[1.0, rand_word(rng, n)]]
        a = {"n": n, "ops": ops, "terms": terms, "status": "ok", "devw": rng.randint(2, n - 1)}
        auto.append(a)
        try:
            nocut = [mk_op(d) for d in ops if d[0] != "WireCut"]
            a["uncut"] = tape_desc(qp.tape.QuantumScript(nocut, []), circ_cache)
            tp = build_tape(a)
            try:
                tapes, fn = qp.cut_circuit.tape_transform(tp, auto_cutter=True, device_wires=qp.wires.Wires(range(a["devw"])), seed=1234 + ai)
            except ValueError as e:
                if "Unable to find a circuit cutting" in str(e):
                    a["status"] = "nocut"; continue
                raise
            a["maxw"] = max(len(t.wires) for t in tapes)
            kw = fn.keywords
            a["k"] = kw["communication_graph"].number_of_edges()
            a["nfrag"] = len(kw["prepare_nodes"])
            dev = qp.device("default.qubit", wires=n)
            a["dq"] = float(fn(qp.execute(tapes, dev)))
            nres = sum(len(t.measurements) for t in tapes)
            if nres <= 5000:
                # dyadic structure case for the Coq contraction model (the cut was chosen by KaHyPar)
                st = analyse_auto(tapes, fn)
                vals = [dyadic(rng) for _ in range(nres)]
                r = fn(nest([float(v) for v in vals], tapes))
                st["dy_in"] = [[v.numerator, v.denominator] for v in vals]
                fr = Fr(float(r)); st["dy_out"] = [fr.numerator, fr.denominator]
                a["st"] = st
        except NotExtractable as e:
            a["status"], a["detail"] = "notex", str(e)[:200]
        except Exception as e:
            import traceback
            a["status"], a["detail"] = "error", f"{type(e).__name__}: {str(e)[:300]} | " + traceback.format_exc()[-600:]
    mcs = []
    if req.get("nmc", 0):
        # designed case: GHZ state cut on the middle wire, <Z0 Z2> = +1 exactly; needs the terminal sample of wire 0
        # and the mid-circuit sample of wire 1 (same single-shot tape) to come from ONE joint shot
        gops = [["Hadamard", [], [0]], ["CNOT", [], [0, 1]], ["WireCut", [], [1]], ["CNOT", [], [1, 2]]]
        g = {"n": 3, "ops": gops, "swires": [0, 2], "zwires": [0, 2], "cuts": 1, "shots": 2500 if tier == "quick" else 8000,
             "seed": 3999, "designed": True}
        g["uncut"] = tape_desc(qp.tape.QuantumScript([mk_op(d) for d in gops if d[0] != "WireCut"], []), circ_cache)
        mcs.append(g)
    for mi in range(req.get("nmc", 0)):
        n = 3
        while True:
            ops = [[rng.choice(["RX", "RY"]), [pyth_angle(rng)], [w]] for w in range(n)]
            ops += [["CNOT", [], [0, 1]], ["WireCut", [], [1]], ["CNOT", [], [1, 2]], ["RY", [pyth_angle(rng)], [rng.randrange(n)]]]
            sw = sorted(rng.sample(range(n), rng.choice([2, 3])))
            zw = sorted(rng.sample(sw, rng.randint(1, len(sw))))
            if 2 in zw:
                break
        m = {"n": n, "ops": ops, "swires": sw, "zwires": zw, "cuts": 1, "shots": 1500 if tier == "quick" else 6000, "seed": 4000 + mi}
        m["uncut"] = tape_desc(qp.tape.QuantumScript([mk_op(d) for d in ops if d[0] != "WireCut"], []), circ_cache)
        mcs.append(m)
    circs = [None] * len(circ_cache)
    for (nw, txt), i in circ_cache.items():
        circs[i] = [nw, txt]
    print(json.dumps({"cases": cases, "auto": auto, "circuits": circs, "tables": tables(), "kahypar": have_kahypar, "mc": mcs}), flush=True)


def edge_cutter(tape_ops, cut, info):
    """a user-supplied partitioner (auto_cutter=<callable>): returns the graph edges joining operation i to operation
    j of the tape (on wire w if given); called by find_and_place_cuts once per probed partitioning"""
    def cutter(graph, **kwargs):
        found = []
        for spec in cut:
            i, j = spec[0], spec[1]
            for e in graph.edges(keys=True, data="wire"):
                a, b, k, w = e
                if a.obj is tape_ops[i] and b.obj is tape_ops[j] and (len(spec) < 3 or w == spec[2]):
                    found.append((a, b, k))
        info["edges_found"] = len(found)
        return found
    return cutter


def fixed_auto_corpus():
    A1, A2, A3 = 2 * math.atan2(4, 3), 2 * math.atan2(3, 4), 2 * math.atan2(5, 12)
    pre = [["RX", [A1], [0]], ["RY", [A2], [1]], ["RX", [A3], [2]]]
    out = []
    # cut edge between two gates adjacent in the tape (CNOT(0,1) directly followed by CNOT(1,2))
    out.append({"n": 3, "devw": 2, "ops": pre + [["CNOT", [], [0, 1]], ["CNOT", [], [1, 2]], ["RY", [A2], [2]]],
                "terms": [[1.0, [[0, "Z"], [1, "Z"], [2, "X"]]]], "cut": [[3, 4]]})
    # control: an operation on another wire between the two gates
    out.append({"n": 3, "devw": 2, "ops": pre + [["CNOT", [], [0, 1]], ["RY", [-A2], [0]], ["CNOT", [], [1, 2]], ["RY", [A2], [2]]],
                "terms": [[1.0, [[0, "Z"], [1, "Z"], [2, "X"]]]], "cut": [[3, 5]]})
    # two cuts, both between adjacent gates, three fragments in a chain; downstream gate acts non-trivially on the cut wire
    out.append({"n": 4, "devw": 2, "ops": pre + [["RY", [A1], [3]], ["CRY", [A2], [0, 1]], ["CRX", [A1], [1, 2]], ["CRY", [-A3], [2, 3]],
                                                 ["RX", [A2], [3]]],
                "terms": [[1.0, [[0, "Y"], [1, "Z"], [2, "Z"], [3, "X"]]]], "cut": [[4, 5], [5, 6]]})
    # the cut's source gate is the first operation of the tape and its target the second
    out.append({"n": 3, "devw": 2, "ops": [["IsingXX", [A2], [0, 1]], ["CRX", [A1], [1, 2]], ["RX", [A3], [0]], ["RY", [A1], [2]]],
                "terms": [[1.0, [[0, "Z"], [1, "X"], [2, "Z"]]]], "cut": [[0, 1]]})
    # two consecutive two-qubit gates on the same wire pair, both joining wires cut
    out.append({"n": 4, "devw": 3, "ops": pre + [["RY", [A3], [3]], ["CNOT", [], [0, 1]], ["CRY", [A1], [1, 2]], ["IsingXX", [A2], [1, 2]],
                                                 ["CNOT", [], [2, 3]], ["RX", [A1], [1]]],
                "terms": [[1.0, [[0, "Z"], [1, "Y"], [2, "Z"], [3, "X"]]]], "cut": [[5, 6, 1], [5, 6, 2]]})
    return out


def analyse_auto(tapes, fn):
    """structure without the manual re-derivation (labels of measured words are still read from the tapes)"""
    kw = fn.keywords
    cg, pns, mns = kw["communication_graph"], kw["prepare_nodes"], kw["measure_nodes"]
    edges = list(cg.edges(data="pair"))
    m_edge = {pr[0].obj.node_uid: i for i, (_, _, pr) in enumerate(edges)}
    p_edge = {pr[1].obj.node_uid: i for i, (_, _, pr) in enumerate(edges)}
    frags, pos = [], 0
    for pn, mn in zip(pns, mns):
        p, m = len(pn), len(mn)
        ng = 3 ** m if m else 1
        cfg = tapes[pos:pos + ng]; pos += 4 ** p * ng
        mw = [x.wires[0] for x in mn]
        gf = [letters_of(ms.obs, mw)[0] if m else "" for t in cfg for ms in t.measurements]
        frags.append({"np": p, "nm": m, "gf": gf, "pe": [p_edge.get(x.node_uid, -1) for x in pn],
                      "me": [m_edge.get(x.node_uid, -1) for x in mn]})
    return {"k": len(edges), "frags": frags, "problems": []}


def gint(z, scale):
    z = complex(z) * scale
    a, b = round(z.real), round(z.imag)
    assert abs(z - complex(a, b)) < 1e-9, z
    return [a, b]


def density4(oplist):
    v = np.array([1, 0], complex)
    for o in oplist:
        v = qp.matrix(o) @ v
    rho = np.outer(v, v.conj())
    return [[gint(rho[i, j], 4) for j in range(2)] for i in range(2)]


def tables():
    from pennylane.qcut import processing, tapes as qtapes, cutcircuit_mc as mc
    cobm = [[int(round(float(x))) for x in row] for row in np.asarray(processing.CHANGE_OF_BASIS)]
    assert np.allclose(np.asarray(processing.CHANGE_OF_BASIS), np.array(cobm))
    prs = [density4(f(0)) for f in qtapes.PREPARE_SETTINGS]
    letter = {"Identity": 0, "PauliX": 1, "PauliY": 2, "PauliZ": 3}
    import networkx as nx
    mcs = []
    for i in range(8):
        obsname = mc.MC_MEASUREMENTS[i](0).obs.name
        dm = density4(mc.MC_STATES[i](0))
        # weight evals[i] of qcut_processing_fn_mc, observed through the function itself: one cut, one shot,
        # terminal sample 0 -> f = 1, mid-circuit eigenvalue +1: returns 8 * evals[i]
        cg = nx.MultiDiGraph(); cg.add_nodes_from([0, 1]); cg.add_edge(0, 1, pair=None)
        r = processing.qcut_processing_fn_mc([np.array([0.0, 1.0]), np.array([0.0])], cg, np.array([[i]]), 1, lambda b: 1.0)
        mcs.append([letter[obsname], dm, int(round(float(r) / 4))])     # r = 8 * evals[i]; exported: 2 * evals[i]
        assert abs(float(r) / 4 - round(float(r) / 4)) < 1e-12
    return {"cob": cobm, "preps": prs, "mc": mcs}


def mode_post():
    out = []
    for item in req["items"]:
        tapes, fn = SESS[(item["ci"], item["ti"])]
        r = fn(nest(item["results"], tapes))
        out.append({"status": "ok", "value": float(r)})
    print(json.dumps({"out": out, "mc": mode_mc(), "joint_probe": joint_probe() if req.get("mc") else None,
                      "settings_probe": settings_probe() if req.get("mc") else None}), flush=True)


def settings_probe():
    """the random measure/prepare settings drawn by expand_fragment_tapes_mc for one cut: the estimator assumes the 8 settings
    are equally likely; histogram over 5 seeds x 800 shots (independent of any device)"""
    from pennylane import qcut
    ops = [qp.Hadamard(0), qp.CNOT([0, 1]), qp.WireCut(wires=1), qp.CNOT([1, 2])]
    tape = qp.tape.QuantumScript(ops, [qp.sample(wires=[0, 1, 2])], shots=10)
    g = qcut.tape_to_graph(tape)
    qcut.replace_wire_cut_nodes(g)
    frags, cg = qcut.fragment_graph(g)
    ft = [qcut.graph_to_tape(f) for f in frags]
    cnt = np.zeros(8)
    other = 0
    for seed in range(5):
        _, settings = qcut.expand_fragment_tapes_mc(ft, cg, shots=800, seed=seed)
        sarr = np.asarray(settings).ravel()
        other += int(np.sum((sarr < 0) | (sarr > 7)))
        cnt += np.bincount(np.clip(sarr, 0, 7), minlength=8)
    return {"counts": [int(x) for x in cnt], "outside_0_7": other, "draws": int(cnt.sum())}


def joint_probe():
    """cut_circuit_mc executes single-shot tapes measuring sample(Projector([1])) on terminal wires together with
    sample(Pauli) on cut wires and needs ONE joint shot per tape.  Bell state: (bit0, Z1) in {(0,+1), (1,-1)} only."""
    dev = qp.device("default.qubit", wires=2, seed=11)
    t = qp.tape.QuantumScript([qp.Hadamard(0), qp.CNOT([0, 1])],
                              [qp.sample(qp.Projector([1], wires=0)), qp.sample(qp.Z(1))], shots=1)
    res = qp.execute([t] * 300, dev)
    bad = sum((int(np.ravel(r[0])[0]), int(np.ravel(r[1])[0])) in ((0, -1), (1, 1)) for r in res)
    t2 = qp.tape.QuantumScript([qp.Hadamard(0), qp.CNOT([0, 1])],
                               [qp.sample(qp.Projector([1], wires=0)), qp.sample(qp.Projector([1], wires=1))], shots=1)
    res2 = qp.execute([t2] * 300, dev)
    bad2 = sum(int(np.ravel(r[0])[0]) != int(np.ravel(r[1])[0]) for r in res2)
    return {"tapes": 300, "impossible_projector_pauli": bad, "impossible_projector_projector": bad2}


def mode_mc():
    out = []
    for item in req.get("mc", []):
        case = item
        n = case["n"]
        ops = [mk_op(d) for d in case["ops"]]
        zw = case["zwires"]
        dev = qp.device("default.qubit", wires=n, seed=case["seed"])

        def fnc(bits, idx=[sorted(case["swires"]).index(w) for w in zw]):
            return float((-1) ** int(sum(int(bits[i]) for i in idx)))

        def circ():
            for o in ops:
                qp.apply(o)
            return qp.sample(wires=sorted(case["swires"]))
        try:
            qn = qp.set_shots(qp.QNode(circ, dev), shots=case["shots"])
            val = float(qp.cut_circuit_mc(qn, classical_processing_fn=fnc, seed=case["seed"])())
            out.append({"status": "ok", "value": val})
        except Exception as e:
            import traceback
            out.append({"status": "error", "detail": f"{type(e).__name__}: {str(e)[:300]} | " + traceback.format_exc()[-500:]})
    return out


for line in sys.stdin:
    line = line.strip()
    if not line:
        continue
    req = json.loads(line)
    if req["mode"] == "quit":
        break
    {"build": mode_build, "post": mode_post}[req["mode"]]()
    sys.stdout.flush()
