"""Runs the real pennylane.fermi mappings on the JSON cases from stdin; prints one JSON line of observations.

case kinds
  map   : {"m","n","w" | "s", "wm"?}            -> canonical sparse term list (exact fractions) or "ERR"
  hom   : {"m","n","u","v"}                      -> map(u*v) == map(u) @ map(v); returns items of u*v
  shom  : {"m","n","s","t"}                      -> map(s*t) == map(s) @ map(t), map(s**2) == map(s)^2, map(s*word)
  adj   : {"m","n","w" | "s"}                    -> map(x.adjoint()) == map(x)^dagger; returns items of adjoint
  shift : {"m","n","w","i","j"}                  -> map(w.shift_operator(i,j)) == map(w)   (normal ordering step)
  lin   : {"m","n","s","t","c"}                  -> map(s+t) == map(s)+map(t), map(c*s) == c*map(s)
  car   : {"m","n"}                              -> canonical anticommutation relations, exact and (n<=4) by matrices
  spec  : {"n","s"}                              -> equal spectra of H=S+S^dagger under the three mappings
"""
import json, sys
from fractions import Fraction
import numpy as np
import pennylane as qp
from pennylane.fermi import FermiWord, FermiSentence, jordan_wigner, parity_transform, bravyi_kitaev
from pennylane.pauli import PauliSentence, PauliWord


def fw(items):
    return FermiWord({(i, int(o)): ("+" if c else "-") for i, (o, c) in enumerate(items)})


def coef(c):
    re, im = Fraction(c[0], c[1]), Fraction(c[2], c[3])
    return float(re) if im == 0 else complex(float(re), float(im))


def fs(terms):
    return FermiSentence({fw(w): coef(c) for w, c in terms})


def fitems(w):
    return [[int(k[1]), 1 if v == "+" else 0] for k, v in w.items()]


def do_map(m, n, x, **kw):
    if m == "JW":
        return jordan_wigner(x, ps=True, **kw)
    if m == "PT":
        return parity_transform(x, n, ps=True, **kw)
    return bravyi_kitaev(x, n, ps=True, **kw)


def frac4(z):
    z = complex(z)
    a, b = Fraction(z.real), Fraction(z.imag)
    return [a.numerator, a.denominator, b.numerator, b.denominator]


def canon(ps):
    """exact canonical form: {sorted ((wire, letter), ...): complex}; exact zeros dropped"""
    d = {}
    for pw, c in ps.items():
        c = complex(c)
        if c == 0:
            continue
        key = tuple(sorted((int(w), str(l)) for w, l in pw.items() if l != "I"))
        d[key] = d.get(key, 0) + c
    return {k: v for k, v in d.items() if v != 0}


def out_terms(ps):
    d = canon(ps)
    return [[[list(t) for t in k], frac4(v)] for k, v in sorted(d.items())]


def ps_conj(ps):
    return PauliSentence({pw: np.conj(c) for pw, c in ps.items()})


def ps_add(a, b):
    d = dict(canon(a))
    for k, v in canon(b).items():
        d[k] = d.get(k, 0) + v
    return {k: v for k, v in d.items() if v != 0}


def ladder(m, n, p, create):
    return do_map(m, n, fw([[p, create]]))


def run(c):
    k = c["kind"]
    m, n = c.get("m"), c.get("n")
    if k == "map":
        x = fw(c["w"]) if "w" in c else fs(c["s"])
        res = do_map(m, n, x)
        out = {"out": out_terms(res), "ok": True}
        if c.get("wm"):
            wm = {int(a): int(b) for a, b in c["wm"]}
            try:
                alt = do_map(m, n, x, wire_map=wm, tol=1e-8)
                ref = {tuple(sorted((wm[w], l) for w, l in key)): v for key, v in canon(res).items()}
                out["ok"] = canon(alt) == ref
            except Exception as e:  # an image touching a wire outside the register shows up here
                out["ok"], out["err"] = False, repr(e)
        return out
    if k == "hom":
        u, v = fw(c["u"]), fw(c["v"])
        uv = u * v
        return {"items": fitems(uv), "ok": canon(do_map(m, n, uv)) == canon(do_map(m, n, u) @ do_map(m, n, v))}
    if k == "shom":     # product of sentences (word products that collide must accumulate) and integer powers
        a, b = fs(c["s"]), fs(c["t"])
        ok = canon(do_map(m, n, a * b)) == canon(do_map(m, n, a) @ do_map(m, n, b))
        ok2 = canon(do_map(m, n, a ** 2)) == canon(do_map(m, n, a) @ do_map(m, n, a))
        ok3 = canon(do_map(m, n, a * fw(c["t"][0][0]))) == canon(do_map(m, n, a) @ do_map(m, n, fw(c["t"][0][0])))
        return {"ok": bool(ok and ok2 and ok3), "parts": [bool(ok), bool(ok2), bool(ok3)]}
    if k == "adj":
        x = fw(c["w"]) if "w" in c else fs(c["s"])
        xa = x.adjoint()
        ok = canon(do_map(m, n, xa)) == canon(ps_conj(do_map(m, n, x)))
        return {"items": fitems(xa) if "w" in c else None, "ok": ok}
    if k == "shift":
        w = fw(c["w"])
        sh = w.shift_operator(c["i"], c["j"])
        return {"ok": canon(do_map(m, n, sh)) == canon(do_map(m, n, w)), "nterms": len(sh)}
    if k == "lin":
        s, t, cc = fs(c["s"]), fs(c["t"]), coef(c["c"])
        ok1 = canon(do_map(m, n, s + t)) == ps_add(do_map(m, n, s), do_map(m, n, t))
        ok2 = canon(do_map(m, n, cc * s)) == canon(cc * do_map(m, n, s))
        return {"ok": bool(ok1 and ok2)}
    if k == "car":
        ok = True
        bad = None
        ident = {(): 1 + 0j}
        for p in range(n):
            for q in range(n):
                ap, aq, cq = ladder(m, n, p, 0), ladder(m, n, q, 0), ladder(m, n, q, 1)
                e1 = ps_add(ap @ cq, cq @ ap) == (ident if p == q else {})
                e2 = ps_add(ap @ aq, aq @ ap) == {}
                e3 = canon(ps_conj(ap)) == canon(ladder(m, n, p, 1))
                if n <= 4:
                    wo = list(range(n))
                    A, B = ap.to_mat(wire_order=wo), cq.to_mat(wire_order=wo)
                    e1 = e1 and np.allclose(A @ B + B @ A, np.eye(2 ** n) * (p == q), atol=1e-12)
                if not (e1 and e2 and e3):
                    ok, bad = False, [p, q]
        return {"ok": ok, "bad": bad}
    if k == "spec":
        s = fs(c["s"])
        h = s + s.adjoint()
        wo = list(range(n))
        ev = []
        for mm in ("JW", "PT", "BK"):
            ps = do_map(mm, n, h)
            mat = ps.to_mat(wire_order=wo) if len(ps) else np.zeros((2 ** n, 2 ** n))
            herm = np.allclose(mat, mat.conj().T, atol=1e-12)
            ev.append((herm, np.sort(np.linalg.eigvalsh((mat + mat.conj().T) / 2))))
        ok = all(e[0] for e in ev) and np.allclose(ev[0][1], ev[1][1], atol=1e-9) and np.allclose(ev[0][1], ev[2][1], atol=1e-9)
        return {"ok": bool(ok)}
    raise KeyError(k)


out = []
for c in json.load(sys.stdin)["cases"]:
    try:
        r = run(c)
    except (ValueError, IndexError, TypeError) as e:
        r = {"out": "ERR", "ok": None, "err": type(e).__name__}
    except Exception as e:  # oracle evaluation itself failed: reported as a failed oracle, never a crash
        if c["kind"] == "map":
            raise
        r = {"ok": False, "err": repr(e)}
    out.append(r)
print(json.dumps(out))
