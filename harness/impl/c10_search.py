"""search for a concrete failing parameter point of one (operator instance, rule)"""
import sys, json, random, math
sys.path.insert(0, "/verif/harness")
from qrules import *
req = json.load(sys.stdin)
rng = random.Random(req["seed"] + 17)
wit = None
for tier in ("quick", "thorough"):
    for lab in ("int", "str"):
        for label, nv, f in catalog(tier, labels=lab):
            if label != req["label"]:
                continue
            install_patches(); set_cfg(8, 8, nv)
            op = f()
            for rule in rules_for(op):
                if getattr(rule, "name", str(rule))[:60] != req["rule"]:
                    continue
                pts = [[0.0] * max(nv, 1), [math.pi] * max(nv, 1), [2 * math.pi] * max(nv, 1), [-math.pi / 2] * max(nv, 1)]
                pts += [[rng.uniform(-7, 7) for _ in range(max(nv, 1))] for _ in range(200 if nv else 0)]
                for th in pts:
                    try:
                        r = numeric_rule_check(op, rule, th)
                    except Exception as e:
                        r = None
                    if r:
                        wit = r
                        break
                break
            break
        if wit: break
    if wit: break
print(json.dumps({"witness": wit}))
