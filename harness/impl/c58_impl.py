"""C58 implementation driver: runs the real PennyLane templates.
 part C  numeric: qp.matrix(template), template.decomposition() and every registered rule vs references built
         here directly with numpy from the documented formula (never from PennyLane's template code)
 part A  discrete traces (Permute swap list, Select/QROM control values, ControlledSequence powers, FlipSign)
 part B  exact obligations for the QSym engine (written to outdir/obligations.json)
JSON request on stdin: {tier, seed, outdir, parts}; one JSON line on stdout."""
import sys, json, random, math, time, warnings, itertools, functools
sys.path.insert(0, "/verif/harness")
warnings.filterwarnings("ignore")
import numpy as np
import scipy.linalg as sla
from qrules import *          # qp, rules_for, install_patches, run_rule, op_matrix_sym, ...
from qx import _get_decomp_args
from pennylane.queuing import AnnotatedQueue

TOL = 1e-8
I2 = np.eye(2)
PX = np.array([[0, 1], [1, 0]], dtype=complex)
PY = np.array([[0, -1j], [1j, 0]])
PZ = np.diag([1.0 + 0j, -1.0])
HAD = np.array([[1, 1], [1, -1]], dtype=complex) / math.sqrt(2)
PAULI = {"I": I2.astype(complex), "X": PX, "Y": PY, "Z": PZ}


# ----------------------------------------------------------------------------- numpy reference helpers
def kron_all(ms):
    return functools.reduce(np.kron, ms, np.eye(1))


def embed(M, pos, n):
    """matrix M on positions `pos` (ordered, MSB first inside M) of an n-qubit register (position 0 = MSB)"""
    k = len(pos)
    M = np.asarray(M, dtype=complex)
    T = M.reshape([2] * (2 * k))
    full = np.eye(2 ** n, dtype=complex).reshape([2] * (2 * n))
    # apply T to the row indices of identity
    full = np.tensordot(T, full, axes=(list(range(k, 2 * k)), list(pos)))
    full = np.moveaxis(full, list(range(k)), list(pos))
    return full.reshape(2 ** n, 2 ** n)


def ctrl_mat(U, nctrl, values):
    """controls first (MSB), then target block"""
    d = U.shape[0]
    out = np.eye(d * 2 ** nctrl, dtype=complex)
    idx = int("".join(str(int(v)) for v in values), 2) if nctrl else 0
    out[idx * d:(idx + 1) * d, idx * d:(idx + 1) * d] = U
    return out


def pauli_word_mat(word):
    return kron_all([PAULI[c] for c in word])


def exp_pauli(word, phi):
    """exp(-i phi P)"""
    P = pauli_word_mat(word)
    return math.cos(phi) * np.eye(P.shape[0]) - 1j * math.sin(phi) * P


def bits_of(x, n):
    return [(x >> (n - 1 - i)) & 1 for i in range(n)]


def rand_unitary(rng, d):
    g = np.array([[complex(rng.gauss(0, 1), rng.gauss(0, 1)) for _ in range(d)] for _ in range(d)])
    q, r = np.linalg.qr(g)
    return q * (np.diag(r) / np.abs(np.diag(r)))


def labels_for(rng, n):
    pool = [0, 1, 2, 3, 4, 5, 6, 7, 8, 9, "a", "b", "q", "aux", "w", 11, 12, "z", "t0", "t1"]
    return rng.sample(pool, n) if rng.random() < 0.5 else list(range(n))


# ----------------------------------------------------------------------------- routes through the implementation
def tape_matrix(ops, wo):
    """matrix of a list of operators on wire order wo + (extra wires found in ops, appended)"""
    tape = qp.tape.QuantumScript(list(ops))
    if any(o.name in ("Allocate", "Deallocate") for o in tape.operations):
        [tape], _ = qp.transforms.resolve_dynamic_wires(tape, min_int=1000)
    extra = [w for w in tape.wires if w not in wo]
    order = list(wo) + extra
    if len(order) > 11:
        raise RuntimeError("too many wires")
    M = qp.matrix(tape, wire_order=order) if len(tape.operations) else np.eye(2 ** len(order))
    return np.asarray(M), len(extra)


def routes(op, wo, skip_matrix=False):
    """{route name: (matrix, n_extra)} for qp.matrix, legacy decomposition, each registered rule"""
    out = {}
    if not skip_matrix:
        try:
            out["qp.matrix"] = (np.asarray(qp.matrix(op, wire_order=list(wo))), 0)
        except Exception as e:
            out["qp.matrix"] = ("ERR", f"{type(e).__name__}: {str(e)[:150]}")
    try:
        if op.has_decomposition:
            out["decomposition()"] = tape_matrix(op.decomposition(), wo)
    except Exception as e:
        out["decomposition()"] = ("ERR", f"{type(e).__name__}: {str(e)[:150]}")
    try:
        rs = rules_for(op)
    except Exception:
        rs = []
    for rule in rs:
        nm = "rule:" + getattr(rule, "name", str(rule))[:60]
        try:
            params, args, kwargs = _get_decomp_args(op)
            if not rule.is_applicable(**params):
                continue
            with AnnotatedQueue() as q:
                rule(*args, **kwargs)
            if any("Measure" in o.name or o.name in ("Conditional", "Cond") or type(o).__name__ in ("MidMeasureMP", "Conditional") for o in q.queue):
                continue
            out[nm] = tape_matrix(q.queue, wo)
        except Exception as e:
            out[nm] = ("ERR", f"{type(e).__name__}: {str(e)[:150]}")
    return out


def err_vs(M, k_extra, ref, cols=None, zero_extra=True):
    """max abs deviation of M (on wo + k extra wires) from ref on wo; extra wires start in |0> and must return to it
    (zero_extra) ; cols = columns of ref to compare (None = all)"""
    d = ref.shape[0]
    k = 2 ** k_extra
    cols = list(range(d)) if cols is None else list(cols)
    if k == 1:
        return float(np.abs(M[:, cols] - ref[:, cols]).max())
    M4 = M.reshape(d, k, d, k)
    e = float(np.abs(M4[:, 0, :, 0][:, cols] - ref[:, cols]).max())
    e = max(e, float(np.abs(M4[:, 1:, :, 0][:, :, cols]).max()))
    return e


RESULTS = []
COUNTS = {}
SOLVER_FAILS = []


def safe_qsvt(A, poly, **kw):
    """qp.qsvt; a failure of the angle solver (qp.poly_to_angles, a classical pre-processing utility) is counted, not judged"""
    try:
        return qp.qsvt(A, poly, **kw)
    except Exception as e:
        import traceback
        tb = traceback.extract_tb(e.__traceback__)
        if any(fr.name in ("poly_to_angles", "_compute_qsp_angle", "_complementary_poly") for fr in tb):
            SOLVER_FAILS.append({"poly": [float(x) for x in poly], "error": f"{type(e).__name__}: {str(e)[:100]}"})
            return None
        raise


def record(template, desc, rts, ref, cols=None, tol=TOL, extra=None, need=("qp.matrix",)):
    """compare every route with the reference"""
    errs = {}
    for nm, (M, k) in rts.items():
        if isinstance(M, str):
            errs[nm] = {"error": k}
            continue
        if M.shape[0] != ref.shape[0] * 2 ** k:
            errs[nm] = {"error": f"shape {M.shape} vs ref {ref.shape} (+{k} extra)"}
            continue
        errs[nm] = err_vs(M, k, ref, cols)
    bad = {nm: e for nm, e in errs.items() if isinstance(e, dict) or not e <= tol}
    item = {"template": template, "desc": desc, "routes": {k: (v if isinstance(v, dict) else float(v)) for k, v in errs.items()},
            "ok": not bad, "tol": tol}
    if bad:
        item["bad"] = {k: (v if isinstance(v, dict) else float(v)) for k, v in bad.items()}
    if extra:
        item.update(extra)
    RESULTS.append(item)
    COUNTS[template] = COUNTS.get(template, 0) + 1
    return item


def record_scalar(template, desc, name, value, bound, extra=None):
    """a scalar check: value <= bound"""
    ok = bool(value <= bound)
    item = {"template": template, "desc": desc, "routes": {name: float(value)}, "ok": ok, "tol": float(bound)}
    if not ok:
        item["bad"] = {name: float(value)}
    if extra:
        item.update(extra)
    RESULTS.append(item)
    COUNTS[template] = COUNTS.get(template, 0) + 1
    return item


# ----------------------------------------------------------------------------- random base operators with own numpy matrices
def rot_x(t): return math.cos(t / 2) * I2 - 1j * math.sin(t / 2) * PX
def rot_y(t): return math.cos(t / 2) * I2 - 1j * math.sin(t / 2) * PY
def rot_z(t): return math.cos(t / 2) * I2 - 1j * math.sin(t / 2) * PZ


CNOT_M = ctrl_mat(PX, 1, [1])
SWAP_M = np.eye(4, dtype=complex)[[0, 2, 1, 3]]


def rand_op(rng, wires, allow2=True, angle=None):
    """(PennyLane operator on a subset of `wires`, its matrix built here, positions in `wires`)"""
    two = allow2 and len(wires) >= 2 and rng.random() < 0.35
    th = (angle or (lambda: rng.uniform(-3.1, 3.1)))()
    if two:
        i, j = rng.sample(range(len(wires)), 2)
        a, b = wires[i], wires[j]
        kind = rng.choice(["CNOT", "SWAP", "CRY", "IsingXX", "CZ"])
        if kind == "CNOT": return qp.CNOT([a, b]), CNOT_M, [i, j]
        if kind == "SWAP": return qp.SWAP([a, b]), SWAP_M, [i, j]
        if kind == "CZ": return qp.CZ([a, b]), ctrl_mat(PZ, 1, [1]), [i, j]
        if kind == "CRY": return qp.CRY(th, [a, b]), ctrl_mat(rot_y(th), 1, [1]), [i, j]
        return qp.IsingXX(th, [a, b]), exp_pauli("XX", th / 2), [i, j]
    i = rng.randrange(len(wires))
    a = wires[i]
    kind = rng.choice(["X", "Y", "Z", "H", "S", "T", "RX", "RY", "RZ", "PS"])
    if kind == "X": return qp.X(a), PX, [i]
    if kind == "Y": return qp.Y(a), PY, [i]
    if kind == "Z": return qp.Z(a), PZ, [i]
    if kind == "H": return qp.Hadamard(a), HAD, [i]
    if kind == "S": return qp.S(a), np.diag([1, 1j]), [i]
    if kind == "T": return qp.T(a), np.diag([1, np.exp(1j * math.pi / 4)]), [i]
    if kind == "RX": return qp.RX(th, a), rot_x(th), [i]
    if kind == "RY": return qp.RY(th, a), rot_y(th), [i]
    if kind == "RZ": return qp.RZ(th, a), rot_z(th), [i]
    return qp.PhaseShift(th, a), np.diag([1, np.exp(1j * th)]), [i]


def rand_prod(rng, wires, nops=None, angle=None):
    """a product operator U (qp.prod, applied right-to-left like a matrix product) and its matrix on `wires`"""
    n = len(wires)
    nops = nops or rng.randint(1, 3)
    items = [rand_op(rng, wires, angle=angle) for _ in range(nops)]
    # make sure every wire is touched (so that U.wires == all wires, any order)
    touched = {p for _, _, pos in items for p in pos}
    for p in range(n):
        if p not in touched:
            items.append((qp.Hadamard(wires[p]), HAD, [p]))
    M = np.eye(2 ** n, dtype=complex)
    for _, m, pos in items:              # circuit order
        M = embed(m, pos, n) @ M
    ops = [o for o, _, _ in items]
    U = qp.prod(*ops[::-1]) if len(ops) > 1 else ops[0]
    return U, M


def mat_on(M, from_wires, to_wires):
    """re-express matrix M given on from_wires order in to_wires order (same wire set)"""
    n = len(from_wires)
    return embed(M, [list(to_wires).index(w) for w in from_wires], n)


# ============================================================================= part C : per-template numeric checks
def chk_select(rng, tier):
    c = rng.randint(1, 3)
    nt = rng.randint(1, 2)
    K = rng.randint(1, 2 ** c)
    if rng.random() < 0.3:
        K = 2 ** c
    partial = rng.random() < 0.4
    lab = labels_for(rng, c + nt + max(c - 1, 1))
    control, target, work = lab[:c], lab[c:c + nt], lab[c + nt:c + nt + max(c - 1, 0)]
    use_work = c >= 2 and rng.random() < 0.6
    items = [rand_op(rng, target) for _ in range(K)]
    ops = [o for o, _, _ in items]
    op = qp.Select(ops, control=control, work_wires=work if use_work else None, partial=partial)
    wo = control + target
    n = c + nt
    ref = np.eye(2 ** n, dtype=complex)
    dt = 2 ** nt
    for k, (_, m, pos) in enumerate(items):
        ref[k * dt:(k + 1) * dt, k * dt:(k + 1) * dt] = embed(m, pos, nt)
    cols = None
    if partial:
        cols = [k * dt + j for k in range(K) for j in range(dt)]
    return record("Select", {"c": c, "K": K, "partial": partial, "work": use_work, "control": control, "target": target,
                             "ops": [repr(o) for o in ops]}, routes(op, wo), ref, cols)


def chk_qrom(rng, tier):
    c = rng.randint(1, 3)
    b = rng.randint(1, 2 if tier == "quick" else 3)
    m = rng.randint(2 ** (c - 1) + 1 if c > 1 else 1, 2 ** c)
    c_extra = 1 if (rng.random() < 0.25 and c < 3) else 0   # documented: extra control wires = most-significant address bits
    nw = rng.choice([0, 0, 1, b, 2 * b, b + 1, 3 * b, 3 * b])
    clean = rng.random() < 0.6
    if c + c_extra + b + nw > (7 if tier == "quick" else 8):
        nw = max(0, (7 if tier == "quick" else 8) - c - c_extra - b)
    lab = labels_for(rng, c + c_extra + b + nw)
    ct = c + c_extra
    control, target, work = lab[:ct], lab[ct:ct + b], lab[ct + b:]
    data = [[rng.randint(0, 1) for _ in range(b)] for _ in range(m)]
    as_str = rng.random() < 0.5
    bitstrings = ["".join(map(str, r)) for r in data] if as_str else data
    op = qp.QROM(bitstrings, control_wires=control, target_wires=target, work_wires=work if nw else None, clean=clean)
    wo = control + target + work
    n = len(wo)
    # documented domain: QROM|i>|0> = |i>|b_i> (target register in |0>); clean=True: work wires in ANY state are
    # returned unchanged; clean=False: work wires start in |0> and may be altered; extra control wires: identity
    # unless they are all |0>.  Indices m <= i < 2^c are not specified by the documentation: not compared.
    ref = np.zeros((2 ** n, 2 ** n), dtype=complex)
    cols = []
    for col in range(2 ** n):
        bits = bits_of(col, n)
        i = int("".join(map(str, bits[:ct])), 2)
        out = list(bits)
        tz = not any(bits[ct:ct + b])
        if i < m:
            for j in range(b):
                out[ct + j] ^= data[i][j]
            if tz and (clean or not any(bits[ct + b:])):
                cols.append(col)
        elif i >= 2 ** c and tz and (clean or not any(bits[ct + b:])):
            cols.append(col)
        ref[int("".join(map(str, out)), 2), col] = 1
    desc = {"c": c, "c_extra": c_extra, "b": b, "m": m, "work": nw, "clean": clean, "data": data, "control": control, "target": target, "work_wires": work}
    rts = routes(op, wo)
    if clean or nw == 0:
        return record("QROM", desc, rts, ref, cols)
    # clean=False: compare the marginal on control+target for the inputs |i>|0>|0..0>
    worst = {}
    for nm, (M, k) in rts.items():
        if isinstance(M, str):
            worst[nm] = {"error": k}
            continue
        e = 0.0
        for col in cols:
            v = M[:, col * 2 ** k].reshape(2 ** (ct + b), -1)
            p = (np.abs(v) ** 2).sum(axis=1)
            want = int(np.argmax(np.abs(ref[:, col]))) >> nw
            e = max(e, abs(1 - p[want]))
        worst[nm] = float(e)
    bad = {nm: e for nm, e in worst.items() if isinstance(e, dict) or not e <= TOL}
    it = {"template": "QROM", "desc": desc, "routes": worst, "ok": not bad, "tol": TOL}
    if bad:
        it["bad"] = bad
    RESULTS.append(it)
    COUNTS["QROM"] = COUNTS.get("QROM", 0) + 1
    return it


def chk_permute(rng, tier):
    n = rng.randint(2, 5 if tier == "quick" else 6)
    wires = labels_for(rng, n)
    perm = list(wires)
    rng.shuffle(perm)
    op = qp.Permute(perm, wires=wires)
    # documented: `permutation` is the new ordering of the wires: position i afterwards carries what wire perm[i] carried
    ref = np.zeros((2 ** n, 2 ** n), dtype=complex)
    for col in range(2 ** n):
        bits = bits_of(col, n)
        out = [bits[wires.index(perm[i])] for i in range(n)]
        ref[int("".join(map(str, out)), 2), col] = 1
    return record("Permute", {"wires": wires, "permutation": perm}, routes(op, wires), ref)


def chk_flipsign(rng, tier):
    n = rng.randint(1, 5)
    wires = labels_for(rng, n)
    s = rng.randrange(2 ** n)
    arg = s if rng.random() < 0.5 else bits_of(s, n)
    op = qp.FlipSign(arg, wires=wires)
    ref = np.eye(2 ** n, dtype=complex)
    ref[s, s] = -1
    return record("FlipSign", {"wires": wires, "state": arg}, routes(op, wires), ref)


def chk_ctrlseq(rng, tier):
    nc = rng.randint(1, 4)
    nb = rng.randint(1, 2)
    lab = labels_for(rng, nc + nb)
    control, bw = lab[:nc], lab[nc:]
    base, m, pos = rand_op(rng, bw)
    B = embed(m, pos, nb)
    op = qp.ControlledSequence(base, control=control)
    wo = control + bw
    n = nc + nb
    ref = np.eye(2 ** n, dtype=complex)
    for i in range(nc):
        P = np.linalg.matrix_power(B, 2 ** (nc - 1 - i))
        ref = embed(ctrl_mat(P, 1, [1]), [i] + list(range(nc, n)), n) @ ref
    return record("ControlledSequence", {"control": control, "base": repr(base)}, routes(op, wo), ref)


def dft(n):
    N = 2 ** n
    w = np.exp(2j * math.pi / N)
    return np.array([[w ** (j * k) for k in range(N)] for j in range(N)]) / math.sqrt(N)


def bit_reversal(n):
    P = np.zeros((2 ** n, 2 ** n), dtype=complex)
    for c in range(2 ** n):
        P[int("".join(map(str, bits_of(c, n)[::-1])), 2), c] = 1
    return P


def aqft_ref(n, order):
    """the circuit of arXiv:1803.04933 built gate by gate here: per qubit H then at most `order` controlled phases"""
    M = np.eye(2 ** n, dtype=complex)
    for i in range(n):
        M = embed(HAD, [i], n) @ M
        for j in range(1, min(order, n - 1 - i) + 1):
            ph = np.diag([1, np.exp(2j * math.pi / 2 ** (j + 1))])
            M = embed(ctrl_mat(ph, 1, [1]), [i + j, i], n) @ M
    return bit_reversal(n) @ M


def chk_qft(rng, tier):
    n = rng.randint(1, 5 if tier == "quick" else 6)
    wires = labels_for(rng, n)
    return record("QFT", {"wires": wires}, routes(qp.QFT(wires=wires), wires), dft(n))


def chk_aqft(rng, tier):
    n = rng.randint(2, 5 if tier == "quick" else 6)
    order = rng.randint(1, n)      # order >= n-1 is the full QFT (documented, with a warning)
    wires = labels_for(rng, n)
    op = qp.AQFT(order=order, wires=wires)
    ref = aqft_ref(n, order)
    it = record("AQFT", {"wires": wires, "order": order}, routes(op, wires), ref)
    if order >= n - 1:
        record_scalar("AQFT", {"n": n, "order": order, "claim": "order>=n-1 is the exact QFT"}, "ref_vs_dft", float(np.abs(ref - dft(n)).max()), TOL)
    else:
        # documented approximation quality (arXiv:1803.04933 / Coppersmith): every dropped phase is < 2pi/2^(order+1)
        # per (i,j) pair: operator-norm distance to the exact QFT <= sum over dropped pairs of 2 pi / 2^(j+1)
        M = np.asarray(qp.matrix(op, wire_order=wires))
        bound = sum(2 * math.pi / 2 ** (j + 1) for i in range(n) for j in range(order + 1, n - i))
        record_scalar("AQFT", {"n": n, "order": order, "claim": "||AQFT-QFT|| <= sum of dropped phases"}, "opnorm_dist",
                      float(np.linalg.norm(M - dft(n), 2)), bound + 1e-9)
    return it


def reflection_ref(U, n, refl_pos, alpha):
    """R(U, alpha) = U (-I + (1 - e^{i alpha}) |0><0|_refl (x) I) U^dagger"""
    proj = np.ones(2 ** n)
    for col in range(2 ** n):
        bits = bits_of(col, n)
        proj[col] = 0 if any(bits[p] for p in refl_pos) else 1
    D = -np.eye(2 ** n, dtype=complex) + (1 - np.exp(1j * alpha)) * np.diag(proj)
    return U @ D @ U.conj().T


def chk_reflection(rng, tier):
    n = rng.randint(1, 4)
    wires = labels_for(rng, n)
    U, UM = rand_prod(rng, wires)
    alpha = rng.choice([math.pi, rng.uniform(-3.1, 3.1), rng.uniform(-6.5, 6.5), 0.0, -math.pi / 2])
    uw = list(U.wires)
    if rng.random() < 0.4 and n >= 2:
        k = rng.randint(1, n - 1)
        rw = rng.sample(uw, k)
        op = qp.Reflection(U, alpha, reflection_wires=rw)
    else:
        rw = uw
        op = qp.Reflection(U, alpha) if rng.random() < 0.5 or alpha != math.pi else qp.Reflection(U)
    ref = reflection_ref(UM, n, [wires.index(w) for w in rw], alpha)
    return record("Reflection", {"U": repr(U), "alpha": alpha, "reflection_wires": rw, "wires": wires}, routes(op, wires), ref)


def chk_grover(rng, tier):
    n = rng.randint(2, 5)
    nwk = rng.choice([0, 0, 1, 2]) if n >= 3 else 0
    lab = labels_for(rng, n + nwk)
    wires, work = lab[:n], lab[n:]
    op = qp.GroverOperator(wires=wires, work_wires=work if nwk else None)
    s = np.ones((2 ** n, 1)) / math.sqrt(2 ** n)
    ref = 2 * s @ s.T - np.eye(2 ** n)
    # work wires are auxiliary (for MultiControlledX): routes that use them must return them to |0>
    rts = routes(op, wires)
    return record("GroverOperator", {"wires": wires, "work_wires": work}, rts, ref.astype(complex))


def cheb(L, x):
    """Chebyshev polynomial T_L(x) for real x (also |x|>1) and real L"""
    x = complex(x)
    return np.real(np.cos(L * np.arccos(x)))


def chk_ampamp(rng, tier):
    n = rng.randint(1, 3)
    lab = labels_for(rng, n + 1)
    wires, work = lab[:n], lab[n]
    U, UM = rand_prod(rng, wires)
    # oracle: flips the sign of a set of basis states
    marked = rng.randrange(2 ** n)
    O = qp.FlipSign(marked, wires=wires)
    OM = np.eye(2 ** n, dtype=complex)
    OM[marked, marked] = -1
    fixed = rng.random() < 0.5
    if not fixed:
        iters = rng.randint(0, 4)
        op = qp.AmplitudeAmplification(U, O, iters=iters)
        R = reflection_ref(UM, n, list(range(n)), math.pi)
        ref = np.linalg.matrix_power(R @ OM, iters)
        it = record("AmplitudeAmplification", {"U": repr(U), "marked": marked, "iters": iters, "fixed_point": False, "wires": wires},
                    routes(op, wires), ref)
        # documented effect (arXiv:quant-ph/0005055): success amplitude sin((2k+1) theta), sin(theta) = |<phi|Psi>|
        a = abs(UM[marked, 0])
        th = math.asin(min(1.0, a))
        M = np.asarray(qp.matrix(op, wire_order=wires))
        got = abs((M @ UM[:, 0])[marked])
        record_scalar("AmplitudeAmplification", {"claim": "|<phi|A^k|Psi>| = |sin((2k+1) theta)|", "iters": iters}, "amp_dev",
                      abs(got - abs(math.sin((2 * iters + 1) * th))), TOL)
        return it
    L = rng.choice([1, 3, 5, 7, 2, 4])
    p_min = rng.choice([0.9, 0.8, 0.95, 0.99])
    op = qp.AmplitudeAmplification(U, O, iters=L, fixed_point=True, work_wire=work, p_min=p_min)
    wo = [work] + wires
    # reference: Yoder-Low-Chuang (arXiv:1409.3305) angles computed here; circuit of the template's documentation
    delta = math.sqrt(1 - p_min)
    gamma = 1 / cheb(1 / L, 1 / delta)
    ref = np.eye(2 ** (n + 1), dtype=complex)
    Hw = embed(HAD, [0], n + 1)
    cO = ctrl_mat(OM, 1, [1])
    l = L // 2
    alphas = [2 * math.atan(1 / (math.tan(2 * math.pi * j / L) * math.sqrt(1 - gamma ** 2))) for j in range(1, l + 1)]
    betas = [-alphas[l - j] for j in range(1, l + 1)]          # beta_j = -alpha_{l-j+1}
    for j in range(l):
        S_t = Hw @ cO @ Hw @ embed(np.diag([1, np.exp(1j * betas[j])]), [0], n + 1) @ Hw @ cO @ Hw
        R = np.kron(I2, reflection_ref(UM, n, list(range(n)), -alphas[j]))
        ref = R @ S_t @ ref
    cols = [c for c in range(2 ** (n + 1)) if c < 2 ** n]     # work wire starts in |0>
    it = record("AmplitudeAmplification", {"U": repr(U), "marked": marked, "iters": L, "fixed_point": True, "p_min": p_min, "wires": wires, "work": work},
                routes(op, wo), ref, cols)
    if L % 2 == 1:
        # documented guarantee: success probability P_L = 1 - delta^2 T_L(T_{1/L}(1/delta) sqrt(1-lambda))^2  (>= p_min once lambda >= w)
        lam = abs(UM[marked, 0]) ** 2
        M = np.asarray(qp.matrix(op, wire_order=wo))
        psi = M @ np.kron(np.array([1, 0]), UM[:, 0])
        psi = psi.reshape(2, -1)
        got = float((np.abs(psi[:, marked]) ** 2).sum())
        want = 1 - delta ** 2 * cheb(L, cheb(1 / L, 1 / delta) * math.sqrt(1 - lam)) ** 2
        record_scalar("AmplitudeAmplification", {"claim": "fixed-point success probability closed form", "L": L, "lambda": lam, "p_min": p_min},
                      "prob_dev", abs(got - want), 1e-7)
    return it


def qpe_ref(UM, nt, ne):
    """estimation wires first, then target: H^n ; C_i(U^(2^(ne-1-i))) ; QFT^dagger on the estimation wires"""
    n = ne + nt
    M = np.eye(2 ** n, dtype=complex)
    for i in range(ne):
        M = embed(HAD, [i], n) @ M
    for i in range(ne):
        P = np.linalg.matrix_power(UM, 2 ** (ne - 1 - i))
        M = embed(ctrl_mat(P, 1, [1]), [i] + list(range(ne, n)), n) @ M
    return embed(dft(ne).conj().T, list(range(ne)), n) @ M


def chk_qpe(rng, tier):
    ne = rng.randint(1, 3 if tier == "quick" else 4)
    nt = rng.randint(1, 2)
    lab = labels_for(rng, ne + nt)
    est, tw = lab[:ne], lab[ne:]
    kind = rng.random()
    desc = {"estimation_wires": est, "target_wires": tw}
    if kind < 0.35:
        # exact phases k/2^ne: deterministic outcomes (documented: measuring gives theta)
        ks = [rng.randrange(2 ** ne) for _ in range(2 ** nt)]
        V = rand_unitary(rng, 2 ** nt)
        UM = V @ np.diag([np.exp(2j * math.pi * k / 2 ** ne) for k in ks]) @ V.conj().T
        op = qp.QuantumPhaseEstimation(UM, target_wires=tw, estimation_wires=est)
        M = np.asarray(qp.matrix(op, wire_order=est + tw))
        worst = 0.0
        for j, k in enumerate(ks):
            psi = M @ np.kron(np.eye(2 ** ne)[0], V[:, j])
            p = (np.abs(psi.reshape(2 ** ne, -1)) ** 2).sum(axis=1)
            worst = max(worst, abs(1 - p[k]))
        record_scalar("QuantumPhaseEstimation", {"claim": "eigenphase k/2^n is measured with certainty", "ks": ks, **desc}, "prob_dev", worst, TOL)
    elif kind < 0.7:
        UM = rand_unitary(rng, 2 ** nt)
        op = qp.QuantumPhaseEstimation(UM, target_wires=tw, estimation_wires=est)
    else:
        base, m, pos = rand_op(rng, tw)
        UM = embed(m, pos, nt)
        if len(base.wires) < nt:     # operator on a subset of the target wires: add the rest
            tw = list(base.wires)
            UM = m
            nt = len(tw)
        op = qp.QuantumPhaseEstimation(base, estimation_wires=est)
        desc["unitary"] = repr(base)
    return record("QuantumPhaseEstimation", desc, routes(op, est + tw), qpe_ref(UM, nt, ne))


def chk_qmc(rng, tier):
    m = rng.randint(1, 2)
    ne = rng.randint(1, 3)
    M_ = 2 ** m
    lab = labels_for(rng, m + 1 + ne)
    tw, est = lab[:m + 1], lab[m + 1:]
    exact = rng.random() < 0.4
    p = np.array([rng.random() + 0.05 for _ in range(M_)])
    probs = p / p.sum()
    fs = [rng.random() for _ in range(M_)]
    if exact:
        # mu = (1 + cos(pi theta)) / 2 with theta = k/2^ne exactly: the outcome is k or 2^ne - k with certainty
        k = rng.randrange(2 ** ne)
        fs = [(1 + math.cos(math.pi * k / 2 ** ne)) / 2] * M_
    func = lambda i: fs[int(i)]
    op = qp.QuantumMonteCarlo(probs, func, target_wires=tw, estimation_wires=est)
    # reference built from the documented definitions: chi = R (A (x) I)|0>, Q = ((2|chi><chi| - I) V)^2, then QPE(Q)
    chi = np.zeros(2 * M_, dtype=complex)
    for i in range(M_):
        chi[2 * i] = math.sqrt(probs[i] * (1 - fs[i]))
        chi[2 * i + 1] = math.sqrt(probs[i] * fs[i])
    V = np.kron(np.eye(M_), np.diag([-1.0, 1.0]))
    W = (2 * np.outer(chi, chi.conj()) - np.eye(2 * M_)) @ V
    Q = W @ W
    R = qpe_ref(Q, m + 1, ne)                 # on est + tw
    want = R @ np.kron(np.eye(2 ** ne)[0], chi)
    wo = est + tw
    rts = routes(op, wo)
    errs = {}
    for nm, (Mx, kx) in rts.items():
        if isinstance(Mx, str):
            errs[nm] = {"error": kx}
        else:
            errs[nm] = float(np.abs(Mx[:, 0] - want).max())
    bad = {a: e for a, e in errs.items() if isinstance(e, dict) or not e <= TOL}
    it = {"template": "QuantumMonteCarlo", "desc": {"probs": list(map(float, probs)), "f": fs, "target": tw, "est": est}, "routes": errs, "ok": not bad, "tol": TOL}
    if bad:
        it["bad"] = bad
    RESULTS.append(it)
    COUNTS["QuantumMonteCarlo"] = COUNTS.get("QuantumMonteCarlo", 0) + 1
    # documented estimate: the estimation-wire distribution is the QPE distribution of +-theta with
    # mu = sum p f = (1 + cos(pi theta)) / 2  (i.e. the outcome distribution is that of the two phases +-theta, weight 1/2 each)
    mu = float(sum(probs[i] * fs[i] for i in range(M_)))
    theta = math.acos(2 * mu - 1) / math.pi
    N = 2 ** ne
    def qpe_dist(t):
        return np.array([abs(sum(np.exp(2j * math.pi * x * (t - y / N)) for x in range(N)) / N) ** 2 for y in range(N)])
    Mq = rts["qp.matrix"][0]
    if not isinstance(Mq, str):
        p = (np.abs(Mq[:, 0].reshape(N, -1)) ** 2).sum(axis=1)
        wantp = 0.5 * qpe_dist(theta) + 0.5 * qpe_dist(-theta)
        record_scalar("QuantumMonteCarlo", {"claim": "estimation distribution = QPE distribution of +-theta, mu=(1+cos(pi theta))/2", "mu": mu},
                      "dist_dev", float(np.abs(p - wantp).max()), 1e-7)
    return it


def record_fn(template, desc, rts, fn, tol=TOL, extra=None):
    """fn(M on wo (extras removed by projecting on |0>)) -> deviation"""
    errs = {}
    for nm, (M, k) in rts.items():
        if isinstance(M, str):
            errs[nm] = {"error": k}
            continue
        try:
            if k:
                d = M.shape[0] // 2 ** k
                M = M.reshape(d, 2 ** k, d, 2 ** k)[:, 0, :, 0]
            errs[nm] = float(fn(M))
        except Exception as e:
            errs[nm] = {"error": f"{type(e).__name__}: {str(e)[:120]}"}
    bad = {a: e for a, e in errs.items() if isinstance(e, dict) or not e <= tol}
    it = {"template": template, "desc": desc, "routes": errs, "ok": not bad, "tol": tol}
    if bad:
        it["bad"] = bad
    if extra:
        it.update(extra)
    RESULTS.append(it)
    COUNTS[template] = COUNTS.get(template, 0) + 1
    return it


PYTH_VECS = {2: [(3, 4), (4, 3), (5, 12), (8, 15)], 3: [(1, 2, 2), (2, 3, 6), (2, 1, 2), (6, 2, 3)], 4: [(1, 1, 1, 1), (2, 4, 5, 6), (1, 2, 2, 4), (1, 1, 3, 5)]}


def rand_pauli_sum(rng, tw, nterms=None, pyth=False, commuting=False, allow_identity=False):
    """(list of coeffs, list of words over len(tw) wires, PennyLane operator, matrix on tw)"""
    nt = len(tw)
    nterms = nterms or rng.randint(2, 4)
    words = []
    tries = 0
    while len(words) < nterms and tries < 200:
        tries += 1
        w = "".join(rng.choice("IXYZ") for _ in range(nt))
        if set(w) == {"I"} and not allow_identity:
            continue
        if w in words:
            continue
        if commuting and any(sum(1 for a, b in zip(w, v) if a != "I" and b != "I" and a != b) % 2 for v in words):
            continue
        words.append(w)
    nterms = len(words)
    if pyth and nterms in PYTH_VECS:
        v = rng.choice(PYTH_VECS[nterms])
        nrm = math.isqrt(sum(x * x for x in v))
        # coefficients proportional to squares so that sqrt(|c_i|/lambda) is rational
        coeffs = [rng.choice([1, -1]) * (x * x) / (nrm * nrm) for x in v]
        coeffs = [c for c in coeffs]
    else:
        coeffs = [rng.choice([-1, 1]) * rng.uniform(0.1, 1.0) for _ in range(nterms)]
    keep = [(c, w) for c, w in zip(coeffs, words) if c != 0]
    coeffs, words = [c for c, _ in keep], [w for _, w in keep]
    ops = []
    for w in words:
        fs = [getattr(qp, {"X": "X", "Y": "Y", "Z": "Z"}[ch])(tw[i]) for i, ch in enumerate(w) if ch != "I"]
        ops.append(qp.prod(*fs) if len(fs) > 1 else (fs[0] if fs else qp.Identity(tw[0])))
    Hm = sum(c * pauli_word_mat(w) for c, w in zip(coeffs, words))
    return coeffs, words, ops, Hm


def chk_psp(rng, tier, which=None):
    nt = rng.randint(1, 2)
    nterms = rng.randint(2, 4)
    lab = labels_for(rng, nt + 3)
    tw = lab[:nt]
    coeffs, words, ops, Hm = rand_pauli_sum(rng, tw, nterms, pyth=rng.random() < 0.3)
    nterms = len(words)
    if nterms < 2:
        return None          # a single bare Pauli word is not a linear combination (lcu.terms() undefined): not a documented input
    nc = max(1, math.ceil(math.log2(nterms))) + (1 if rng.random() < 0.2 else 0)
    control = lab[nt:nt + nc]
    which = which or rng.choice(["PrepSelPrep", "Qubitization"])
    cplx = which == "PrepSelPrep" and rng.random() < 0.45
    if cplx:      # complex LCU coefficients (PrepSelPrep absorbs their phases into the unitaries)
        coeffs = [c * complex(math.cos(a), math.sin(a)) for c, a in zip(coeffs, [rng.choice([math.pi / 2, -math.pi / 2, rng.uniform(-3, 3)]) for _ in coeffs])]
        Hm = sum(c * pauli_word_mat(w) for c, w in zip(coeffs, words))
    # operator wires: use the wires actually present in the sum (a wire carrying only identities may be absent)
    Hop = qp.dot(coeffs, ops) if (cplx or rng.random() < 0.7) else qp.Hamiltonian(coeffs, ops)
    tw_used = [w for w in tw if w in Hop.wires]
    if len(tw_used) != nt:
        Hm = None
        keep = [tw.index(w) for w in tw_used]
        Hm = sum(c * pauli_word_mat("".join(w[i] for i in keep)) for c, w in zip(coeffs, words)) if keep else None
        if Hm is None:
            return None
        tw = tw_used
        nt = len(tw)
    lam = sum(abs(c) for c in coeffs)
    dt = 2 ** nt
    wo = control + tw
    desc = {"coeffs": [[complex(c).real, complex(c).imag] for c in coeffs], "words": words, "control": control, "target": tw}
    if which == "PrepSelPrep":
        op = qp.PrepSelPrep(Hop, control=control)
        def f(M):
            e = np.abs(M[:dt, :dt] - Hm / lam).max()
            return max(e, np.abs(M.conj().T @ M - np.eye(M.shape[0])).max())
        return record_fn("PrepSelPrep", desc, routes(op, wo), f)
    op = qp.Qubitization(Hop, control=control)
    psp = np.asarray(qp.matrix(qp.PrepSelPrep(Hop, control=control), wire_order=wo))
    Rz = np.kron(np.diag([1.0] + [-1.0] * (2 ** nc - 1)), np.eye(dt))           # 2|0><0| - I on the control register
    evs = np.linalg.eigvalsh(Hm)
    def f(M):
        e = np.abs(M[:dt, :dt] - Hm / lam).max()                                   # block encoding of H / lambda
        e = max(e, np.abs(M.conj().T @ M - np.eye(M.shape[0])).max())              # unitary
        e = max(e, np.abs(M - psp @ Rz).max())                                     # Q = Prep^dag Sel Prep (2|0><0| - I)
        sp = np.linalg.eigvals(M)
        for E in evs:                                                              # walk-operator spectrum e^{+-i arccos(E/lambda)}
            for sgn in (1, -1):
                z = np.exp(sgn * 1j * math.acos(max(-1, min(1, E / lam))))
                e = max(e, np.abs(sp - z).min() ** 2)                             # (eigenvalue perturbation ~ sqrt(eps) near +-1)
        return e
    return record_fn("Qubitization", desc, routes(op, wo), f)


def chk_blockencode(rng, tier):
    shape = rng.choice([(1, 1), (2, 2), (2, 3), (3, 2), (4, 4), (2, 4), (3, 3), (1, 2)])
    cplx = rng.random() < 0.4
    A = np.array([[complex(rng.uniform(-1, 1), rng.uniform(-1, 1) if cplx else 0) for _ in range(shape[1])] for _ in range(shape[0])])
    scale = rng.choice([0.3, 1.0, 2.5])
    A = A * scale / max(1e-9, np.linalg.norm(A, 2))
    if not cplx:
        A = A.real
    n, m = shape
    nw = math.ceil(math.log2(n + m)) + (1 if rng.random() < 0.3 else 0)
    nw = max(nw, 1)
    wires = labels_for(rng, nw)
    op = qp.BlockEncode(A, wires=wires)
    norm = float(np.real(op.hyperparameters["norm"]))
    # documented: "If the operator norm of A is greater than 1, we normalize it ... the norm is computed as the maximum
    # of ||A A^dag|| and ||A^dag A||" (the code uses the infinity norm, which dominates ||A||_2^2, and divides only when it is > 1)
    if shape == (1, 1):
        N = abs(A[0, 0])
    else:
        N = max(np.linalg.norm(A @ A.conj().T, np.inf), np.linalg.norm(A.conj().T @ A, np.inf))
    alpha = max(N, 1.0)
    An = A / alpha
    M = np.asarray(qp.matrix(op, wire_order=wires))
    e_block = float(np.abs(M[:n, :m] - An).max())
    e_unit = float(np.abs(M.conj().T @ M - np.eye(M.shape[0])).max())
    # documented full form [[A, sqrt(I - A A^dag)], [sqrt(I - A^dag A), -A^dag]] padded with identity
    U = np.block([[An, sla.sqrtm(np.eye(n) - An @ An.conj().T)], [sla.sqrtm(np.eye(m) - An.conj().T @ An), -An.conj().T]])
    ref = np.eye(2 ** nw, dtype=complex)
    ref[:n + m, :n + m] = U
    e_full = float(np.abs(M - ref).max())
    record_scalar("BlockEncode", {"shape": shape, "scale": scale, "complex": cplx, "wires": wires, "norm": norm, "alpha": alpha}, "block|unitary|full|norm",
                  max(e_block, e_unit, e_full, abs(norm - N)), 1e-7, {"parts": [e_block, e_unit, e_full, abs(norm - N)]})
    # the adjoint is the block encoding of A^dagger (documented top-left-block semantics for the adjoint operator)
    Ma = np.asarray(qp.matrix(qp.adjoint(op), wire_order=wires))
    record_scalar("BlockEncode", {"claim": "adjoint(BlockEncode(A)) = U(A)^dagger", "shape": shape}, "adjoint_dev", float(np.abs(Ma - M.conj().T).max()), 1e-7)


def chk_fable(rng, tier, fixed=None):
    shape = rng.choice([(2, 2), (2, 2), (4, 4), (2, 3), (3, 4), (4, 2)])
    A = np.array([[rng.uniform(-1, 1) for _ in range(shape[1])] for _ in range(shape[0])])
    if rng.random() < 0.3:
        A[rng.randrange(shape[0])] = 0.0
    if rng.random() < 0.2:
        A = np.round(A * 2) / 2          # structured matrices: many equal entries, hence many vanishing rotation angles
    if fixed is not None:
        A = np.array(fixed[0], dtype=float)
        shape = A.shape
    s = max(1, math.ceil(math.log2(max(shape))))
    dim = 2 ** s
    nw = 2 * s + 1
    wires = labels_for(rng, nw)
    tol = rng.choice([0, 0, 0, 1e-3, 1e-2, 0.05])
    if fixed is not None:
        tol = fixed[1]
    op = qp.FABLE(A, wires=wires, tol=tol)
    Ap = np.zeros((dim, dim))
    Ap[:shape[0], :shape[1]] = A
    rts = routes(op, wires)
    if tol == 0:
        return record_fn("FABLE", {"shape": shape, "tol": 0, "wires": wires, "A": A.tolist()}, rts,
                         lambda M: max(np.abs(dim * M[:dim, :dim] - Ap).max(), np.abs(M.conj().T @ M - np.eye(M.shape[0])).max()), tol=1e-8)
    # approximate mode: rotation angles below tol are dropped; arXiv:2205.00081 Thm: ||A - A~||_2 <= N^3 tol
    bound = dim ** 3 * tol
    return record_fn("FABLE", {"shape": shape, "tol": tol, "wires": wires, "A": A.tolist(), "bound": bound}, rts,
                     lambda M: max(np.linalg.norm(dim * M[:dim, :dim] - Ap, 2), 0.0), tol=bound + 1e-9)


# ----------------------------------------------------------------------------- time evolution
def trotter_ref(term_mats, t, n, order):
    """[S_m(t/n)]^n with S_1(t) = prod_j e^{i t O_j} (operator product, j = 0 leftmost), S_2, S_{2k} as documented"""
    def expi(M, x):
        return sla.expm(1j * x * M)
    def S(m, x):
        if m == 1:
            out = np.eye(term_mats[0].shape[0], dtype=complex)
            for O in term_mats:
                out = out @ expi(O, x)
            return out
        if m == 2:
            out = np.eye(term_mats[0].shape[0], dtype=complex)
            for O in term_mats:
                out = out @ expi(O, x / 2)
            for O in term_mats[::-1]:
                out = out @ expi(O, x / 2)
            return out
        p = 1 / (4 - 4 ** (1 / (m - 1)))
        a = S(m - 2, p * x)
        b = S(m - 2, (1 - 4 * p) * x)
        return a @ a @ b @ a @ a
    return np.linalg.matrix_power(S(order, t / n), n)


def chk_trotter(rng, tier):
    nt = rng.randint(1, 3)
    tw = labels_for(rng, nt)
    coeffs, words, ops, Hm = rand_pauli_sum(rng, tw, rng.randint(2, 4))
    if len(words) < 2:
        return None
    Hop = qp.dot(coeffs, ops)
    if set(Hop.wires) != set(tw):
        return None
    t = rng.uniform(-2, 2)
    n = rng.randint(1, 3)
    order = rng.choice([1, 1, 2, 4])
    op = qp.TrotterProduct(Hop, t, n=n, order=order)
    wo = tw
    mats = [c * pauli_word_mat(w) for c, w in zip(coeffs, words)]
    ref = trotter_ref(mats, t, n, order)
    it = record("TrotterProduct", {"coeffs": coeffs, "words": words, "wires": tw, "t": t, "n": n, "order": order}, routes(op, wo), ref)
    # approximation quality.  The docstring documents no numeric bound; the standard commutator bounds of the
    # product-formula theory (Childs et al. 2021, Prop. 9/10) are checked for orders 1 and 2, and exactness
    # when all terms commute.
    exact = sla.expm(1j * t * Hm)
    dist = float(np.linalg.norm(exact - ref, 2))
    def comm(a, b):
        return a @ b - b @ a
    nrm = lambda X: float(np.linalg.norm(X, 2))
    bound = None
    if order == 1:
        bound = t * t / (2 * n) * sum(nrm(comm(mats[j], mats[k])) for j in range(len(mats)) for k in range(j + 1, len(mats)))
    elif order == 2:
        b = 0.0
        for j in range(len(mats) - 1):
            rest = sum(mats[j + 1:])
            b += nrm(comm(rest, comm(rest, mats[j]))) / 12 + nrm(comm(mats[j], comm(mats[j], rest))) / 24
        bound = abs(t) ** 3 / n ** 2 * b
    if bound is not None:
        record_scalar("TrotterProduct", {"claim": "||e^(iHt) - [S_m(t/n)]^n|| <= commutator bound (theory; exact when terms commute)", "t": t, "n": n,
                                         "order": order, "coeffs": coeffs, "words": words}, "trotter_error", dist, bound + 1e-9)
    return it


def chk_ate(rng, tier):
    nt = rng.randint(1, 3)
    tw = labels_for(rng, nt)
    coeffs, words, ops, Hm = rand_pauli_sum(rng, tw, rng.randint(1, 4))
    Hop = qp.Hamiltonian(coeffs, ops) if rng.random() < 0.5 else qp.dot(coeffs, ops)
    if set(Hop.wires) != set(tw) or len(words) < 1 or not hasattr(Hop, "terms"):
        return None
    t = rng.uniform(-2, 2)
    n = rng.randint(1, 3)
    op = qp.ApproxTimeEvolution(Hop, t, n)
    wo = list(op.wires)
    # documented: U ~ prod_{k=1..n} prod_j e^{-i H_j t / n}; adjoint(TrotterProduct(order=1)) "recovers the behaviour":
    # circuit order j = 0 first
    step = np.eye(2 ** nt, dtype=complex)
    for c, w in zip(coeffs, words):
        step = exp_pauli(w, c * t / n) @ step
    ref = mat_on(np.linalg.matrix_power(step, n), tw, wo)
    it = record("ApproxTimeEvolution", {"coeffs": coeffs, "words": words, "wires": tw, "t": t, "n": n}, routes(op, wo), ref)
    # documented relation with TrotterProduct
    if len(words) >= 2:
        try:
            Mt = np.asarray(qp.matrix(qp.adjoint(qp.TrotterProduct(qp.dot(coeffs, ops), t, order=1, n=n)), wire_order=wo))
            record_scalar("ApproxTimeEvolution", {"claim": "= adjoint(TrotterProduct(order=1))", "coeffs": coeffs, "words": words}, "vs_adjoint_trotter",
                          float(np.abs(Mt - ref).max()), TOL)
        except Exception:
            pass
    return it


def chk_commuting(rng, tier):
    nt = rng.randint(1, 3)
    tw = labels_for(rng, nt)
    coeffs, words, ops, Hm = rand_pauli_sum(rng, tw, rng.randint(1, 4), commuting=True)
    Hop = qp.Hamiltonian(coeffs, ops) if rng.random() < 0.5 else qp.dot(coeffs, ops)
    if set(Hop.wires) != set(tw):
        return None
    t = rng.uniform(-3, 3)
    kw = {}
    if rng.random() < 0.3:
        ev = np.linalg.eigvalsh(Hm)
        fr = sorted({round(abs(a - b), 9) for a in ev for b in ev if abs(a - b) > 1e-9})
        kw["frequencies"] = tuple(fr)
    op = qp.CommutingEvolution(Hop, t, **kw)
    wo = list(op.wires)
    ref = mat_on(sla.expm(-1j * t * Hm), tw, wo)
    return record("CommutingEvolution", {"coeffs": coeffs, "words": words, "wires": tw, "t": t, "freq": bool(kw)}, routes(op, wo), ref)


# ----------------------------------------------------------------------------- QSVT / GQSP
def pcphase_mat(phi, dim, n):
    return np.diag([np.exp(1j * phi) if i < dim else np.exp(-1j * phi) for i in range(2 ** n)])


def rand_parity_poly(rng, deg):
    """real polynomial of definite parity with max |P| <= ~0.85 on [-1,1]; coefficients lowest power first"""
    c = np.zeros(deg + 1)
    for k in range(deg % 2, deg + 1, 2):
        c[k] = rng.uniform(-1, 1)
    if abs(c[deg]) < 0.2:
        c[deg] = 0.5 * (1 if rng.random() < 0.5 else -1)
    xs = np.linspace(-1, 1, 801)
    mx = np.abs(np.polyval(c[::-1], xs)).max()
    return c * (rng.uniform(0.3, 0.85) / mx)


def polyval_mat(c, A):
    out = np.zeros_like(A, dtype=complex)
    P = np.eye(A.shape[0], dtype=complex)
    for ck in c:
        out = out + ck * P
        P = P @ A
    return out


def chk_qsvt(rng, tier):
    kind = rng.random()
    if kind < 0.45:
        # (a) circuit structure with arbitrary phases: alternating projector phases and U / U^dagger (circuit order P0, U, P1, U^dag, ...)
        n = rng.randint(1, 3)
        wires = labels_for(rng, n)
        src = rng.random()
        if src < 0.5:
            U, UM = rand_prod(rng, wires)
            wo = wires
        elif src < 0.8:
            r, c = rng.choice([(1, 1), (2, 2), (1, 2), (2, 1)]) if n >= 2 else (1, 1)
            A = np.array([[rng.uniform(-0.6, 0.6) for _ in range(c)] for _ in range(r)])
            A = A / max(1.0, 1.2 * np.linalg.norm(A, 2))
            U = qp.BlockEncode(A, wires=wires)
            UM = np.eye(2 ** n, dtype=complex)
            UM[:r + c, :r + c] = np.block([[A, sla.sqrtm(np.eye(r) - A @ A.T)], [sla.sqrtm(np.eye(c) - A.T @ A), -A.T]])
            wo = wires
        else:
            UM = rand_unitary(rng, 2 ** n)
            U = qp.QubitUnitary(UM, wires=wires)
            wo = wires
        npj = rng.randint(1, 6)
        dims = [rng.randint(1, 2 ** n) for _ in range(2)]
        phis = [rng.uniform(-3, 3) for _ in range(npj)]
        projs = [qp.PCPhase(ph, dim=dims[i % 2], wires=wires) for i, ph in enumerate(phis)]
        op = qp.QSVT(U, projs)
        ref = np.eye(2 ** n, dtype=complex)
        for i, ph in enumerate(phis):
            ref = pcphase_mat(ph, dims[i % 2], n) @ ref
            if i < npj - 1:
                ref = (UM if i % 2 == 0 else UM.conj().T) @ ref
        return record("QSVT", {"kind": "structure", "U": repr(U)[:80], "phis": phis, "dims": dims, "wires": wires}, routes(op, wo), ref)
    # (b) documented semantics of qp.qsvt: Re(top-left block) = poly(A)
    deg = rng.randint(1, 5)
    poly = rand_parity_poly(rng, deg)
    enc = rng.choice(["embedding", "embedding", "fable", "prepselprep", "qubitization", "rect", "rect"])
    if enc == "rect":
        # rectangular A with block_encoding="embedding": singular value transformation  W P(S) V^dag (odd P, top-left r x c block)
        # or V P(S) V^dag (even P, top-left c x c block); the projectors alternate between dimensions c and r
        r, c = rng.choice([(2, 3), (3, 2), (1, 2), (2, 1), (1, 3), (3, 4)])
        A = np.array([[rng.uniform(-1, 1) for _ in range(c)] for _ in range(r)])
        A = A / max(np.linalg.norm(A @ A.T, np.inf), np.linalg.norm(A.T @ A, np.inf), 1e-9) ** 0.5 * rng.uniform(0.3, 0.95)
        nw = max(1, math.ceil(math.log2(r + c)))
        wires = labels_for(rng, nw)
        op = safe_qsvt(A, poly, encoding_wires=wires, block_encoding="embedding")
        if op is None:
            return None
        W, S, Vh = np.linalg.svd(A, full_matrices=False)
        PS = np.array([sum(float(cf) * sv ** k for k, cf in enumerate(poly)) for sv in S])
        odd = (len(poly) - 1) % 2 == 1
        if odd:
            target, shp = W @ np.diag(PS) @ Vh, (r, c)
        else:
            # even polynomial: P(0) on the null space of A as well (V completed to a full basis)
            Wf, Sf, Vhf = np.linalg.svd(A, full_matrices=True)
            Sfull = np.concatenate([Sf, np.zeros(c - len(Sf))])
            target, shp = Vhf.T @ np.diag([sum(float(cf) * sv ** k for k, cf in enumerate(poly)) for sv in Sfull]) @ Vhf, (c, c)
        def f(M):
            return np.abs(M[:shp[0], :shp[1]].real - target).max()
        return record_fn("QSVT", {"kind": "qsvt:rectangular", "shape": [r, c], "poly": poly.tolist(), "wires": wires}, routes(op, wires), f, tol=2e-6)
    if enc in ("embedding", "fable"):
        d = rng.choice([1, 2, 2, 4]) if enc == "embedding" else 2
        G = np.array([[rng.uniform(-1, 1) for _ in range(d)] for _ in range(d)])
        A = (G + G.T) / 2
        A = A / np.linalg.norm(A, 2) * rng.uniform(0.2, 0.9)
        if enc == "fable":
            A = A / (d * np.abs(A).max()) * rng.uniform(0.3, 0.99)     # documented requirement: max-dim * max|A_ij| <= 1
            nw = 2 * max(1, math.ceil(math.log2(d))) + 1
        else:
            nw = max(1, math.ceil(math.log2(2 * d)))
        wires = labels_for(rng, nw)
        op = safe_qsvt(A, poly, encoding_wires=wires, block_encoding=enc)
        if op is None:
            return None
        wo = wires
        Aeff = A
        if enc == "embedding" and d > 1:
            # BlockEncode's documented normalisation (hyperparameters["norm"] = max(||A A^dag||, ||A^dag A||), infinity norm in the
            # code) also applies when ||A||_2 <= 1 < ||A A^dag||_inf: the block-encoded matrix is then A / norm
            Nn = max(np.linalg.norm(A @ A.conj().T, np.inf), np.linalg.norm(A.conj().T @ A, np.inf))
            Aeff = A / max(Nn, 1.0)
            if Nn > 1:
                COUNTS["QSVT:embedding-normalised"] = COUNTS.get("QSVT:embedding-normalised", 0) + 1
        target = polyval_mat(poly, Aeff.astype(complex))
        dd = d
    else:
        nt = rng.randint(1, 2)
        lab = labels_for(rng, nt + 2)
        tw = lab[:nt]
        coeffs, words, ops, Hm = rand_pauli_sum(rng, tw, rng.randint(2, 4))
        Hop = qp.dot(coeffs, ops)
        if set(Hop.wires) != set(tw) or len(words) < 2:
            return None
        nc = max(1, math.ceil(math.log2(len(words))))
        control = lab[nt:nt + nc]
        op = safe_qsvt(Hop, poly, encoding_wires=control, block_encoding=enc)
        if op is None:
            return None
        wo = control + tw
        lam = sum(abs(c) for c in coeffs)
        target = polyval_mat(poly, (Hm / lam).astype(complex))
        dd = 2 ** nt
    def f(M):
        # "the polynomial transformation is encoded as the real part of the top left term": for complex Hermitian A the
        # real part of the block P(A) = poly(A) + i q(A) is its Hermitian part (identical to the entrywise real part for real A)
        B = M[:dd, :dd]
        return np.abs((B + B.conj().T) / 2 - target).max()
    return record_fn("QSVT", {"kind": "qsvt:" + enc, "poly": poly.tolist(), "wires": wo}, routes(op, wo), f, tol=2e-6)


def gqsp_R(theta, phi, lam):
    return np.array([[np.exp(1j * (lam + phi)) * math.cos(theta), np.exp(1j * phi) * math.sin(theta)],
                     [np.exp(1j * lam) * math.sin(theta), -math.cos(theta)]])


def chk_gqsp(rng, tier):
    n = rng.randint(1, 2)
    lab = labels_for(rng, n + 1)
    control, tw = lab[0], lab[1:]
    U, UM = rand_prod(rng, tw)
    d = rng.randint(1, 4)
    dim = 2 ** n
    A0 = np.kron(np.diag([1.0, 0.0]), UM) + np.kron(np.diag([0.0, 1.0]), np.eye(dim))      # 0-controlled U
    if rng.random() < 0.5:
        angles = np.array([[rng.uniform(-3, 3) for _ in range(d + 1)] for _ in range(3)])
        op = qp.GQSP(U, angles, control=control)
        ref = np.kron(gqsp_R(angles[0][0], angles[1][0], angles[2][0]), np.eye(dim))
        for j in range(1, d + 1):
            ref = np.kron(gqsp_R(angles[0][j], angles[1][j], angles[2][j]), np.eye(dim)) @ A0 @ ref
        return record("GQSP", {"kind": "structure", "U": repr(U), "angles": angles.tolist(), "control": control, "wires": tw}, routes(op, [control] + tw), ref)
    # documented semantics: angles = poly_to_angles(poly, "GQSP") put poly(U) in the top-left block
    c = np.array([complex(rng.uniform(-1, 1), rng.uniform(-1, 1)) for _ in range(d + 1)])
    if d >= 1 and abs(c[-1]) < 0.1:
        c[-1] = 0.4
    c = c / (np.abs(c).sum() * rng.uniform(1.05, 2.0))        # |P(z)| < 1 on the unit circle
    angles = qp.poly_to_angles(list(c), "GQSP")
    op = qp.GQSP(U, angles, control=control)
    target = polyval_mat(c, UM)
    return record_fn("GQSP", {"kind": "poly", "poly": [str(x) for x in c], "U": repr(U), "control": control, "wires": tw}, routes(op, [control] + tw),
                     lambda M: np.abs(M[:dim, :dim] - target).max(), tol=1e-6)


# ============================================================================= part A : discrete traces for the Coq models
def run_rule_ops(op, rule_filter=None):
    """[(rule name, [queued ops])] for the registered rules of op (measurement-based rules skipped)"""
    out = []
    for rule in rules_for(op):
        nm = getattr(rule, "name", str(rule))
        if rule_filter and not rule_filter(nm):
            continue
        params, args, kwargs = _get_decomp_args(op)
        if not rule.is_applicable(**params):
            continue
        try:
            with AnnotatedQueue() as q:
                rule(*args, **kwargs)
        except Exception as e:
            TRACE_ERRORS.append({"kind": "error", "template": type(op).__name__, "route": "rule:" + nm, "case": repr(op)[:200], "error": f"{type(e).__name__}: {str(e)[:150]}"})
            continue
        out.append((nm, list(q.queue)))
    return out


TRACE_ERRORS = []


def legacy_ops(op, name, f):
    try:
        return [(name, f())]
    except Exception as e:
        TRACE_ERRORS.append({"kind": "error", "template": type(op).__name__, "route": name, "case": repr(op)[:200], "error": f"{type(e).__name__}: {str(e)[:150]}"})
        return []


def traces(rng, tier):
    T = []
    nrep = 30 if tier == "quick" else 200
    # ---- Permute
    for i in range(nrep):
        n = rng.randint(2, 7 if tier == "quick" else 10)
        wires = rng.sample(range(0, 40), n)
        perm = list(wires)
        rng.shuffle(perm)
        if i == 0:
            n, wires, perm = 5, [0, 1, 2, 3, 4], [4, 2, 0, 1, 3]      # documentation example
        op = qp.Permute(perm, wires=wires)
        routes_ = legacy_ops(op, "decomposition()", op.decomposition) + run_rule_ops(op)
        for nm, ops in routes_:
            if not all(o.name == "SWAP" for o in ops):
                TRACE_ERRORS.append({"kind": "error", "template": "Permute", "route": nm, "case": repr(op), "error": "emits operators other than SWAP"})
                continue
            swaps = [[int(o.wires[0]), int(o.wires[1])] for o in ops]
            ok = True
            if n <= 6:
                ref = np.zeros((2 ** n, 2 ** n))
                for col in range(2 ** n):
                    bits = bits_of(col, n)
                    ref[int("".join(str(bits[wires.index(perm[k])]) for k in range(n)), 2), col] = 1
                M = qp.matrix(qp.tape.QuantumScript(ops), wire_order=wires) if ops else np.eye(2 ** n)
                ok = bool(np.abs(np.asarray(M) - ref).max() < 1e-9)
            T.append({"kind": "permute", "route": nm, "wires": wires, "perm": perm, "swaps": swaps, "realises": ok})
    # ---- Select (non-partial): control values of the emitted controlled operators
    for c in range(1, 5 if tier == "quick" else 6):
        for K in sorted({1, 2, 2 ** c, 2 ** c - 1, rng.randint(1, 2 ** c)}):
            if K > 2 ** c:
                continue
            control = list(range(c))
            ops = [qp.RX(0.1 * (k + 1), wires=c) for k in range(K)]
            op = qp.Select(ops, control=control)
            routes_ = legacy_ops(op, "decomposition()", op.decomposition) + run_rule_ops(op, lambda nm: nm == "_select_decomp_multi_control")
            for nm, dops in routes_:
                states, idx = [], []
                for o in dops:
                    cv = [bool(v) for v in o.control_values]
                    cw = list(o.control_wires)
                    states.append([cv[cw.index(w)] for w in control])       # in the order of the control register
                    idx.append(round(float(o.base.data[0]) / 0.1) - 1)
                T.append({"kind": "select", "route": nm, "c": c, "K": K, "states": states, "op_index": idx})
    # ---- ControlledSequence exponents
    for n in range(1, 7 if tier == "quick" else 10):
        control = list(range(n))
        op = qp.ControlledSequence(qp.RX(1.0, wires=n), control=control)
        routes_ = legacy_ops(op, "compute_decomposition(lazy)", lambda op=op: op.compute_decomposition(base=op.base, control_wires=op.control, lazy=True)) + run_rule_ops(op)
        for nm, dops in routes_:
            exps, cws = [], []
            for o in dops:
                if hasattr(o, "z"):
                    exps.append(int(o.z)); cws.append(o.base.control_wires[0] if hasattr(o.base, "control_wires") else o.base.wires[0])
                else:   # simplified to a CRX with the scaled angle
                    exps.append(int(round(float(o.data[0])))); cws.append(o.wires[0])
            T.append({"kind": "ctrlseq", "route": nm, "n": n, "exps": exps, "control_order_ok": [int(w) for w in cws] == control})
    # ---- FlipSign: sign pattern of the emitted circuit
    for n in range(1, 5 if tier == "quick" else 7):
        for s in sorted({0, 2 ** n - 1, rng.randrange(2 ** n), rng.randrange(2 ** n)}):
            state = bits_of(s, n)
            op = qp.FlipSign(state, wires=list(range(n)))
            for nm, dops in run_rule_ops(op):
                M = np.asarray(qp.matrix(qp.tape.QuantumScript(dops), wire_order=list(range(n))))
                diag_ok = bool(np.abs(M - np.diag(np.diag(M))).max() < 1e-12 and np.abs(np.abs(np.diag(M)) - 1).max() < 1e-12)
                signs = [bool(np.real(x) < 0) for x in np.diag(M)]
                T.append({"kind": "flipsign", "route": nm, "state": [bool(b) for b in state], "signs": signs, "diag_ok": diag_ok})
    # ---- QROM layout (rule _qrom_decomposition, clean=False shows the layout once)
    for i in range(12 if tier == "quick" else 60):
        c = rng.randint(1, 3)
        b = rng.randint(1, 2)
        m = rng.randint(2 ** (c - 1) + 1 if c > 1 else 1, 2 ** c)
        nw = rng.choice([0, b, 3 * b, 3 * b, 3 * b + 1, 7 * b])
        if i % 3 == 0:
            c, b, nw = rng.randint(2, 3), 1, 3            # depth 4 (two swap-control bits) with few enough wires for the matrix oracle
        m = min(m, 2 ** c) if m > 2 ** (c - 1) else 2 ** c
        control = list(range(c)); target = list(range(c, c + b)); work = list(range(c + b, c + b + nw))
        data = [[rng.randint(0, 1) for _ in range(b)] for _ in range(m)]
        op = qp.QROM(data, control_wires=control, target_wires=target, work_wires=work or None, clean=False)
        for nm, dops in run_rule_ops(op, lambda nm: nm == "_qrom_decomposition"):
            rows, triples, sel_ctrl = [], [], []
            first = dops[0]
            prods = list(first.ops) if first.name == "Select" else [o for o in dops if o.name not in ("CSWAP",) and "SWAP" not in o.name]
            if first.name == "Select":
                sel_ctrl = list(first.control)
            swap_wires = None
            for pr in prods:
                fs = list(pr.operands) if hasattr(pr, "operands") else [pr]
                fs = sorted(fs, key=lambda f: min(int(w) for w in f.wires))
                rows.append([([bool(int(v)) for v in f.parameters[0]] if f.name == "BasisState" else None) for f in fs])
                swap_wires = [int(w) for f in fs for w in f.wires]
            depth = len(rows[0])
            cs_wires = control[len(sel_ctrl):]
            for o in dops:
                if o.name == "CSWAP" or (hasattr(o, "base") and getattr(o.base, "name", "") == "SWAP"):
                    cw, a, bb = int(o.wires[0]), int(o.wires[1]), int(o.wires[2])
                    if (swap_wires.index(a) % b) == 0:
                        triples.append([cs_wires.index(cw), swap_wires.index(a) // b, swap_wires.index(bb) // b])
            # what is actually loaded for every address (matrix of the emitted circuit)
            loaded = None
            wo = control + target + work
            if len(wo) <= 9:
                M = np.asarray(qp.matrix(qp.tape.QuantumScript(dops), wire_order=wo))
                loaded = []
                for k in range(2 ** c):
                    col = k << (b + nw)
                    v = np.abs(M[:, col]) ** 2
                    p = v.reshape(2 ** c, 2 ** b, -1).sum(axis=2)
                    kk, tt = np.unravel_index(int(np.argmax(p)), p.shape)
                    loaded.append([bool(x) for x in bits_of(int(tt), b)] if (kk == k and p[kk, tt] > 1 - 1e-9) else None)
            T.append({"kind": "qrom", "route": nm, "c": c, "b": b, "depth": depth, "s": int(round(math.log2(depth))), "data": [[bool(x) for x in r] for r in data],
                      "rows": rows, "triples": triples, "loaded": loaded, "sel_ctrl_is_prefix": sel_ctrl == control[:len(sel_ctrl)]})
    return T


# ============================================================================= part B : exact obligations (QSym engine)
from qsym import Lin, Sym, NotExtractable, set_cfg, CFG
from qx import (op_matrix_sym, spot_check, mat_to_sym, s_ident, s_mul, s_adj, s_ctrl, s_embed, g_gate, g_mat, g_nats,
                install_patches, bind_numeric, num_mat)
from fractions import Fraction as Fr


def is_template(o):
    return type(o).__module__.startswith("pennylane.templates")


def sym_gates(ops, wo, rng, depth=0):
    """fully decompose `ops` (nested templates through their decomposition()) into [(wire idx, Sym matrix)]"""
    gates = []
    for o in ops:
        if o.name in ("Barrier", "Snapshot", "WireCut"):
            continue
        if len(o.wires) == 0:      # GlobalPhase without wires
            S = op_matrix_sym(o)
            gates.append(([0], [[S[0][0], Sym.of(0)], [Sym.of(0), S[0][0]]]))
            continue
        if is_template(o) and depth < 6:
            try:
                sub = o.decomposition()
            except Exception as e:
                raise NotExtractable(f"{o.name}.decomposition(): {type(e).__name__}: {str(e)[:100]}")
            gates += sym_gates(sub, wo, rng, depth + 1)
            continue
        try:
            S = op_matrix_sym(o)
        except NotExtractable:
            if o.has_decomposition and depth < 6:
                gates += sym_gates(o.decomposition(), wo, rng, depth + 1)
                continue
            raise
        ok, w = spot_check(o, S, rng)
        if not ok:
            raise NotExtractable(f"spot-check of {o.name} failed ({w})")
        if len(o.wires) > 4 and False:
            raise NotExtractable("gate too large")
        gates.append(([wo.index(x) for x in o.wires], S))
    return gates


def lin_t(j=0):
    return Lin.var(j)


def s_const(M):
    return mat_to_sym(np.asarray(M, dtype=complex))


def s_exp_pauli(word, phi):
    """exp(-i phi P) for a Lin angle phi: cos(phi) I - i sin(phi) P"""
    P = pauli_word_mat(word)
    c, s = phi.cos(), phi.sin()
    d = P.shape[0]
    mi = Sym.of(-1j)
    return [[(c if i == j else Sym.of(0)) + (mi * s * Sym.of(complex(P[i, j])) if P[i, j] != 0 else Sym.of(0)) for j in range(d)] for i in range(d)]


def s_rx(phi):
    """RX(phi) for a Lin angle phi"""
    return s_exp_pauli("X", phi * Fr(1, 2))


def s_diag(entries):
    d = len(entries)
    return [[entries[i] if i == j else Sym.of(0) for j in range(d)] for i in range(d)]


OBLIG = []
B_ITEMS = []


def g_circ(gates):
    return "[" + ";\n  ".join(g_gate(w, S) for w, S in gates) + "]"


def add_cols_ok(label, route, n, gates, ows, M, cols):
    name = f"ob_{len(OBLIG)}"
    stmt = f"cols_ok {CFG.N // 2}%Z {n}%nat\n  {g_circ(gates)}\n  {g_nats(ows)}\n  {g_mat(M)}\n  {g_nats(cols)} = true"
    OBLIG.append({"name": name, "stmt": stmt, "label": label, "route": route, "kind": "cols_ok", "hz": CFG.N // 2, "D": CFG.D, "n": n, "n_gates": len(gates), "nvars": CFG.nvars})


def add_circ_eq(label, route, n, gates, ref_gates, cols):
    name = f"ob_{len(OBLIG)}"
    stmt = f"circ_cols_eq {CFG.N // 2}%Z {n}%nat\n  {g_circ(gates)}\n  {g_circ(ref_gates)}\n  {g_nats(cols)} = true"
    OBLIG.append({"name": name, "stmt": stmt, "label": label, "route": route, "kind": "circ_cols_eq", "hz": CFG.N // 2, "D": CFG.D, "n": n, "n_gates": len(gates), "nvars": CFG.nvars})


def impl_routes_ops(op):
    """[(route, ops)]: legacy decomposition() and each registered (measurement-free) rule"""
    out = []
    try:
        out.append(("decomposition()", list(op.decomposition())))
    except Exception:
        pass
    try:
        for nm, ops in run_rule_ops(op):
            if any("Measure" in o.name or type(o).__name__ in ("MidMeasureMP", "Conditional", "Allocate", "Deallocate") for o in ops):
                continue
            out.append(("rule:" + nm, ops))
    except Exception as e:
        B_ITEMS.append({"label": repr(op)[:60], "route": "rules", "status": "error", "detail": f"{type(e).__name__}: {str(e)[:100]}"})
    return out


def b_case(label, nvars, build, cfgs=((8, 8), (8, 16), (16, 16))):
    """build() -> (op, wo, ref) with ref = ("matrix", ows, M, cols) or ("circuit", ref_gates, cols); executed under each ring
    configuration until the extraction succeeds"""
    install_patches()
    last = ""
    for (N, D) in cfgs:
        set_cfg(N, D, nvars)
        try:
            op, wo, ref = build()
            n = len(wo)
            rts = impl_routes_ops(op)
            done = 0
            for route, ops in rts:
                extra = [w for o in ops for w in o.wires if w not in wo]
                if extra:
                    B_ITEMS.append({"label": label, "route": route, "status": "skipped", "detail": "uses extra wires"})
                    continue
                gates = sym_gates(ops, wo, RNG_B)
                if ref[0] == "matrix":
                    add_cols_ok(label, route, n, gates, ref[1], ref[2], ref[3])
                elif ref[0] == "block":
                    add_cols_ok(label, route, n, gates + [([0], ref[1])], list(range(n)), ref[2], ref[3])
                else:
                    add_circ_eq(label, route, n, gates, ref[1], ref[2])
                B_ITEMS.append({"label": label, "route": route, "status": "ok", "cfg": [N, D], "n": n, "n_gates": len(gates), "nvars": nvars, "lemma": OBLIG[-1]["name"]})
                done += 1
            return done
        except NotExtractable as e:
            last = last or f"[N={N},D={D}] {e}"
            # drop obligations of a half-finished configuration
            while OBLIG and OBLIG[-1]["label"] == label:
                OBLIG.pop()
            while B_ITEMS and B_ITEMS[-1]["label"] == label:
                B_ITEMS.pop()
            continue
        except Exception as e:
            B_ITEMS.append({"label": label, "route": "-", "status": "error", "detail": f"{type(e).__name__}: {str(e)[:200]}"})
            return 0
    B_ITEMS.append({"label": label, "route": "-", "status": "notex", "detail": last[:300]})
    return 0


RNG_B = random.Random(7)


def var(j):
    return var_array(j)


def all_cols(n):
    return list(range(2 ** n))


def part_b(rng, tier):
    global RNG_B
    RNG_B = random.Random(rng.random())
    thorough = tier != "quick"
    # ---- Permute (no parameters): against the permutation matrix
    for _ in range(2 if not thorough else 10):
        n = rng.randint(2, 4)
        wires = list(range(n)); perm = wires[:]; rng.shuffle(perm)
        def build(wires=wires, perm=perm, n=n):
            ref = np.zeros((2 ** n, 2 ** n))
            for col in range(2 ** n):
                bits = bits_of(col, n)
                ref[int("".join(str(bits[wires.index(perm[k])]) for k in range(n)), 2), col] = 1
            return qp.Permute(perm, wires=wires), wires, ("matrix", list(range(n)), s_const(ref), all_cols(n))
        b_case(f"Permute{perm}", 0, build)
    # ---- FlipSign
    for _ in range(2 if not thorough else 8):
        n = rng.randint(1, 4); s = rng.randrange(2 ** n)
        def build(n=n, s=s):
            ref = np.eye(2 ** n); ref[s, s] = -1
            return qp.FlipSign(bits_of(s, n), wires=list(range(n))), list(range(n)), ("matrix", list(range(n)), s_const(ref), all_cols(n))
        b_case(f"FlipSign[{n},{s}]", 0, build)
    # ---- Select with formal rotation angles: block-diagonal matrix sum_k |k><k| (x) U_k
    for trial in range(2 if not thorough else 8):
        c = rng.randint(1, 2); K = rng.randint(2, 2 ** c)
        kinds = [rng.choice(["RX", "RY", "RZ", "X", "H", "PS"]) for _ in range(K)]
        nv = sum(1 for k in kinds if k in ("RX", "RY", "RZ", "PS"))
        def build(c=c, K=K, kinds=kinds):
            ops, j = [], 0
            for k in kinds:
                if k in ("RX", "RY", "RZ"):
                    ops.append(getattr(qp, k)(var(j), wires=c)); j += 1
                elif k == "PS":
                    ops.append(qp.PhaseShift(var(j), wires=c)); j += 1
                else:
                    ops.append(qp.X(c) if k == "X" else qp.Hadamard(c))
            op = qp.Select(ops, control=list(range(c)))
            n = c + 1
            M = s_ident(2 ** n)
            for k, o in enumerate(ops):
                S = op_matrix_sym(o)
                for a in range(2):
                    for b in range(2):
                        M[2 * k + a][2 * k + b] = S[a][b]
            return op, list(range(n)), ("matrix", list(range(n)), M, all_cols(n))
        b_case(f"Select[c={c},{'/'.join(kinds)}]", max(nv, 0), build)
    # ---- QROM small tables: on the documented domain (target register |0>)
    for trial in range(2 if not thorough else 8):
        c = rng.randint(1, 2); b = rng.randint(1, 2); m = rng.randint(2 ** (c - 1) + (1 if c > 1 else 0), 2 ** c)
        nw = rng.choice([0, b]); clean = rng.random() < 0.5
        data = [[rng.randint(0, 1) for _ in range(b)] for _ in range(m)]
        def build(c=c, b=b, m=m, nw=nw, clean=clean, data=data):
            n = c + b + nw
            wo = list(range(n))
            op = qp.QROM(data, control_wires=wo[:c], target_wires=wo[c:c + b], work_wires=wo[c + b:] or None, clean=clean)
            ref = np.zeros((2 ** n, 2 ** n)); cols = []
            for col in range(2 ** n):
                bits = bits_of(col, n); i = int("".join(map(str, bits[:c])), 2); out = list(bits)
                if i < m:
                    for j in range(b):
                        out[c + j] ^= data[i][j]
                    if not any(bits[c:c + b]) and (clean or not any(bits[c + b:])):
                        cols.append(col)
                ref[int("".join(map(str, out)), 2), col] = 1
            if not clean and nw:
                raise NotExtractable("clean=False with work wires: work register not specified")
            return op, wo, ("matrix", wo, s_const(ref), cols)
        b_case(f"QROM[c={c},b={b},m={m},work={nw},clean={clean}]", 0, build)
    # ---- Reflection about U|0> with formal angle alpha: U D(alpha) U^dagger, D = -I + (1 - e^{i alpha}) |0><0|
    for trial in range(2 if not thorough else 8):
        n = rng.randint(1, 3)
        kinds = [rng.choice(["H", "X", "S", "RYp"]) for _ in range(n)]
        with_cnot = n >= 2 and rng.random() < 0.5
        sub = n >= 2 and rng.random() < 0.4
        def build(n=n, kinds=kinds, with_cnot=with_cnot, sub=sub):
            alpha = Lin.var(0)
            us = []
            for w, k in enumerate(kinds):
                us.append({"H": qp.Hadamard(w), "X": qp.X(w), "S": qp.S(w), "RYp": qp.RY(math.pi / 2, w)}[k])
            if with_cnot:
                us.append(qp.CNOT([0, 1]))
            U = qp.prod(*us[::-1]) if len(us) > 1 else us[0]
            rw = [0] if sub else list(range(n))
            op = qp.Reflection(U, var(0), reflection_wires=rw) if sub else qp.Reflection(U, var(0))
            wo = list(range(n))
            ug = [([wo.index(x) for x in o.wires], op_matrix_sym(o)) for o in us]
            udg = [(w, s_adj(S)) for w, S in ug[::-1]]
            e = (alpha * 1j).exp()
            k = len(rw)
            D = s_diag([(Sym.of(-1) + (Sym.of(1) - e)) if i == 0 else Sym.of(-1) for i in range(2 ** k)])
            return op, wo, ("circuit", udg + [([wo.index(x) for x in rw], D)] + ug, all_cols(n))
        b_case(f"Reflection[{''.join(kinds)},cnot={with_cnot},sub={sub}]", 1, build)
    # ---- GroverOperator n <= 4 : 2|s><s| - I
    for n in ((2, 3) if not thorough else (2, 3, 4)):
        def build(n=n):
            ref = 2 * np.ones((2 ** n, 2 ** n)) / 2 ** n - np.eye(2 ** n)
            return qp.GroverOperator(wires=list(range(n))), list(range(n)), ("matrix", list(range(n)), s_const(ref), all_cols(n))
        b_case(f"GroverOperator[{n}]", 0, build)
    # ---- ControlledSequence of RX(theta): product of C_i(RX(2^(n-1-i) theta))
    for nc in ((2, 3) if not thorough else (1, 2, 3, 4)):
        def build(nc=nc):
            op = qp.ControlledSequence(qp.RX(var(0), wires=nc), control=list(range(nc)))
            refg = [([i, nc], s_ctrl(s_rx(Lin.var(0) * (2 ** (nc - 1 - i))), [1])) for i in range(nc)]
            return op, list(range(nc + 1)), ("circuit", refg, all_cols(nc + 1))
        b_case(f"ControlledSequence[RX,{nc}]", 1, build, cfgs=((8, 8), (8, 16), (8, 32)))
    # ---- QFT / AQFT for n <= 3 (entries in Q(zeta_8))
    for n in ((2, 3) if not thorough else (1, 2, 3)):
        def build(n=n):
            return qp.QFT(wires=list(range(n))), list(range(n)), ("matrix", list(range(n)), s_const(dft(n)), all_cols(n))
        b_case(f"QFT[{n}]", 0, build)
    for n, order in (((3, 1),) if not thorough else ((2, 1), (3, 1), (3, 2))):
        def build(n=n, order=order):
            return qp.AQFT(order=order, wires=list(range(n))), list(range(n)), ("matrix", list(range(n)), s_const(aqft_ref(n, order)), all_cols(n))
        b_case(f"AQFT[{n},order={order}]", 0, build)
    # ---- time evolution with formal time t (rational coefficients): product formula built here from exp(-i c t P) factors
    ham_sets = [([Fr(1), Fr(1, 2)], ["XI", "ZZ"]), ([Fr(1, 2), Fr(-1), Fr(3, 2)], ["X", "Z", "Y"]), ([Fr(1), Fr(-1, 2)], ["XX", "YY"]),
                ([Fr(1, 2), Fr(1), Fr(1, 2)], ["ZI", "XX", "IY"])]
    def ham_op(coeffs, words):
        ops = []
        for w in words:
            fs = [getattr(qp, ch)(i) for i, ch in enumerate(w) if ch != "I"]
            ops.append(qp.prod(*fs) if len(fs) > 1 else fs[0])
        return ops
    for coeffs, words in (ham_sets if thorough else ham_sets[:2]):
        nt = len(words[0]); wo = list(range(nt))
        fl = [float(c) for c in coeffs]
        for order, nst in (((2, 1), (1, 2)) if not thorough else ((1, 1), (2, 1), (1, 2), (2, 2))):
            def build(coeffs=coeffs, words=words, order=order, nst=nst, fl=fl, nt=nt, wo=wo):
                t = Lin.var(0)
                H = qp.dot(fl, ham_op(coeffs, words))
                op = qp.TrotterProduct(H, var(0), n=nst, order=order)
                # [S_m(t/n)]^n with S_1(x) = prod_j e^{i x O_j} (matrix product, j=0 leftmost => applied last)
                def S1(x, idx):
                    return [(wo, s_exp_pauli(words[j], t * (-coeffs[j] * x))) for j in idx]      # exp(+i c x t P) = exp(-i (-c x t) P)
                J = list(range(len(words)))
                if order == 1:
                    step = S1(Fr(1, nst), J[::-1])
                else:
                    # S_2 = prod_{j=0..N} e^{i t/2 O_j} . prod_{j=N..0} e^{i t/2 O_j}: rightmost factor (j=0 of the second product) acts first
                    step = S1(Fr(1, 2 * nst), J) + S1(Fr(1, 2 * nst), J[::-1])
                return op, wo, ("circuit", step * nst, all_cols(nt))
            b_case(f"TrotterProduct[{words},order={order},n={nst}]", 1, build, cfgs=((8, 8), (8, 16), (8, 32)))
        for nst in ((2,) if not thorough else (1, 2)):
            def build(coeffs=coeffs, words=words, nst=nst, fl=fl, nt=nt, wo=wo):
                t = Lin.var(0)
                H = qp.Hamiltonian(fl, ham_op(coeffs, words))
                op = qp.ApproxTimeEvolution(H, var(0), nst)
                step = [(wo, s_exp_pauli(words[j], t * (coeffs[j] * Fr(1, nst)))) for j in range(len(words))]
                return op, wo, ("circuit", step * nst, all_cols(nt))
            b_case(f"ApproxTimeEvolution[{words},n={nst}]", 1, build, cfgs=((8, 8), (8, 16), (8, 32)))
    # commuting Hamiltonians: exp(-i H t) = product of the factors in any order
    for coeffs, words in [([Fr(1), Fr(1, 2)], ["XX", "YY"]), ([Fr(1, 2), Fr(-1), Fr(1)], ["ZI", "IZ", "ZZ"])]:
        nt = len(words[0]); wo = list(range(nt)); fl = [float(c) for c in coeffs]
        def build(coeffs=coeffs, words=words, fl=fl, nt=nt, wo=wo):
            t = Lin.var(0)
            op = qp.CommutingEvolution(qp.Hamiltonian(fl, ham_op(coeffs, words)), var(0))
            refg = [(wo, s_exp_pauli(words[j], t * coeffs[j])) for j in range(len(words))][::-1]      # deliberately the opposite order
            return op, wo, ("circuit", refg, all_cols(nt))
        b_case(f"CommutingEvolution[{words}]", 1, build, cfgs=((8, 8), (8, 16), (8, 32)))
    # ---- PrepSelPrep / Qubitization, 2-term Pauli sums with Pythagorean coefficient vectors: block encoding statement
    #      (<0| (x) I) W (|0> (x) I) = H / lambda, as  P0 . W  =  |0><0| (x) H/lambda  on the columns with control = 0
    for (p, q, r), words, signs in [((3, 4, 5), ["X", "Z"], (1, 1)), ((4, 3, 5), ["ZI", "XY"], (1, -1)), ((5, 12, 13), ["Y", "X"], (-1, 1))]:
        for which in ("PrepSelPrep", "Qubitization"):
            def build(p=p, q=q, r=r, words=words, signs=signs, which=which):
                nt = len(words[0])
                coeffs = [signs[0] * Fr(p * p, r * r), signs[1] * Fr(q * q, r * r)]          # lambda = 1, sqrt(|c|) rational
                opsH = []
                for w in words:
                    fs = [getattr(qp, ch)(1 + i) for i, ch in enumerate(w) if ch != "I"]
                    opsH.append(qp.prod(*fs) if len(fs) > 1 else fs[0])
                H = qp.dot([float(c) for c in coeffs], opsH)
                op = (qp.PrepSelPrep if which == "PrepSelPrep" else qp.Qubitization)(H, control=[0])
                wo = list(range(1 + nt))
                Hm = sum(float(c) * pauli_word_mat(w) for c, w in zip(coeffs, words))
                proj = s_const(np.diag([1.0, 0.0]))
                Mfull = s_const(np.kron(np.diag([1.0, 0.0]), Hm))
                return op, wo, ("block", proj, Mfull, [cidx for cidx in range(2 ** (1 + nt)) if cidx < 2 ** nt])
            b_case(f"{which}[{p},{q},{r};{words}]", 0, build)


# MAIN
CHECKS = [("Select", chk_select, 20), ("QROM", chk_qrom, 24), ("Permute", chk_permute, 16), ("FlipSign", chk_flipsign, 12),
          ("ControlledSequence", chk_ctrlseq, 14), ("QFT", chk_qft, 8), ("AQFT", chk_aqft, 12), ("Reflection", chk_reflection, 20),
          ("GroverOperator", chk_grover, 10), ("AmplitudeAmplification", chk_ampamp, 20), ("QuantumPhaseEstimation", chk_qpe, 16),
          ("QuantumMonteCarlo", chk_qmc, 12), ("PrepSelPrep/Qubitization", chk_psp, 24), ("BlockEncode", chk_blockencode, 16),
          ("FABLE", chk_fable, 16), ("QSVT", chk_qsvt, 30), ("GQSP", chk_gqsp, 16), ("TrotterProduct", chk_trotter, 12),
          ("ApproxTimeEvolution", chk_ate, 14), ("CommutingEvolution", chk_commuting, 10)]


def corpus(rng, tier):
    """hand-picked / regression cases first"""
    # regression: the registered FABLE rule used to crash when >= 2 CNOTs were pending at the end (repaired in /repo)
    chk_fable(rng, tier, fixed=([[0.0, 0.3], [0.3, 0.0]], 0))
    chk_fable(rng, tier, fixed=([[0.5, 0.5], [0.5, 0.5]], 0.01))
    chk_fable(rng, tier, fixed=([[0.1, 0.2], [0.3, -0.2]], 0))            # documentation example
    # documentation examples
    op = qp.Select([qp.X(2), qp.X(3), qp.Y(2), qp.SWAP([2, 3])], control=[0, 1])
    ref = np.eye(16, dtype=complex)
    for k, m in enumerate([embed(PX, [0], 2), embed(PX, [1], 2), embed(PY, [0], 2), SWAP_M]):
        ref[4 * k:4 * k + 4, 4 * k:4 * k + 4] = m
    record("Select", {"doc_example": True}, routes(op, [0, 1, 2, 3]), ref)
    op = qp.Select([qp.X(2), qp.X(3), qp.SWAP([2, 3])], control=[0, 1], partial=True)
    ref2 = np.eye(16, dtype=complex)
    for k, m in enumerate([embed(PX, [0], 2), embed(PX, [1], 2), SWAP_M]):
        ref2[4 * k:4 * k + 4, 4 * k:4 * k + 4] = m
    record("Select", {"doc_example": "partial"}, routes(op, [0, 1, 2, 3]), ref2, cols=list(range(12)))
    H = qp.dot([0.3, -0.1], [qp.X(2), qp.Z(2)])
    record_fn("PrepSelPrep", {"doc_example": True}, routes(qp.PrepSelPrep(H, control=[0, 1]), [0, 1, 2]),
              lambda M: np.abs(M[:2, :2] - (0.3 * PX - 0.1 * PZ) / 0.4).max())
    A = np.array([[0.1, 0.2], [0.3, 0.4]])
    M = np.asarray(qp.matrix(qp.BlockEncode(A, wires=range(2))))
    record_scalar("BlockEncode", {"doc_example": True}, "block", float(np.abs(M[:2, :2] - A).max()), 1e-12)


def main():
    req = json.load(sys.stdin)
    tier, seed, outdir = req["tier"], req["seed"], req["outdir"]
    parts = req.get("parts", "ABC")
    out = {"wall": {}}
    t0 = time.time()
    if "C" in parts:
        rng = random.Random(seed * 7919 + 1)
        corpus(rng, tier)
        mult = 1 if tier == "quick" else 8
        for name, f, cnt in CHECKS:
            t1 = time.time()
            for _ in range(cnt * mult):
                try:
                    f(rng, tier)
                except Exception as e:
                    import traceback
                    RESULTS.append({"template": name, "desc": {"harness_exception": traceback.format_exc()[-600:]}, "routes": {"harness": {"error": f"{type(e).__name__}: {str(e)[:200]}"}},
                                    "ok": False, "tol": 0, "bad": {"harness": {"error": f"{type(e).__name__}: {str(e)[:200]}"}}})
            out["wall"][name] = round(time.time() - t1, 2)
        out["results"] = RESULTS
        out["counts"] = COUNTS
        out["solver_fails"] = SOLVER_FAILS
    if "A" in parts:
        t1 = time.time()
        try:
            out["traces"] = traces(random.Random(seed * 104729 + 2), tier)
            out["trace_errors"] = TRACE_ERRORS
        except Exception as e:
            import traceback
            out["traces"] = []
            out["trace_errors"] = TRACE_ERRORS + [{"kind": "error", "template": "trace-harness", "route": "-", "case": traceback.format_exc()[-500:], "error": f"{type(e).__name__}: {str(e)[:150]}"}]
        out["wall"]["traces"] = round(time.time() - t1, 2)
    if "B" in parts:
        t1 = time.time()
        part_b(random.Random(seed * 1299709 + 3), tier)
        json.dump(OBLIG, open(outdir + "/obligations.json", "w"))
        out["b_items"] = B_ITEMS
        out["n_oblig"] = len(OBLIG)
        out["wall"]["obligations"] = round(time.time() - t1, 2)
    out["wall"]["total"] = round(time.time() - t0, 2)
    print(json.dumps(out, default=str))


if __name__ == "__main__":
    main()
