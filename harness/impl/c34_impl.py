"""C34 driver, Part A.  stdin: {"seed":..,"n_circ":..,"n_proof":..,"corpus":[spec...]}
Pushes formal-parameter tapes through the real gradient transforms and emits Coq obligations, plus the certified
reference polynomials (serialised) for Part B (impl/c34_cfg_impl.py)."""
import sys, json, random
sys.path.insert(0, "/verif/harness")
from gradgen import *
import gradgen

req = json.load(sys.stdin)
rng = random.Random(req["seed"])
gradgen.set_rng(rng)


def obligations_for(spec, ci, transforms):
    """Part A for one circuit: returns (obligations, reference polynomials per scalar component, stats)"""
    tape, tp = formal_tape(spec)
    wo = list(range(spec["nw"]))
    n0 = len(wo)
    g0 = tape_gates(tape, wo)
    st0 = sym_state(g0, n0)
    obl, refs = [], []
    # reference polynomials (certified by expval_is / deriv_is obligations)
    for mi, m in enumerate(tape.measurements):
        for ci2, (lab, obs) in enumerate(meas_components(m, wo)):
            E = sym_expect(st0, obs, n0)
            dEs = [sym_pderiv(E, j) for j in range(len(tp))]
            refs.append({"m": mi, "c": ci2, "E": E, "dE": dEs})
            obl.append((f"c{ci}_E_m{mi}_{ci2}", f"expval_is {qsym.hz()} {n0}%nat\n {g_tape(g0, obs)}\n {E.gallina()} = true"))
            for j, dE in enumerate(dEs):
                obl.append((f"c{ci}_dE_m{mi}_{ci2}_p{j}", f"deriv_is {qsym.hz()} {DCFG} {j}%nat\n {E.gallina()}\n {dE.gallina()} = true"))
    stats = {}
    for tname, tr, kw in transforms:
        try:
            gt, fn = tr(tape, **kw)
        except Exception as e:  # transform does not accept the circuit
            stats[tname] = "rejected:" + type(e).__name__
            continue
        awo = list(dict.fromkeys(list(wo) + [w for t in gt for w in t.wires if w not in wo]))
        n = len(awo)
        try:
            C, slots = linear_coefficients(fn, gt, rng)
            rows = []
            for mi, m in enumerate(tape.measurements):
                comps = meas_components(m, awo)
                for j in range(len(tape.trainable_params)):
                    for ci2, (lab, obs) in enumerate(comps):
                        rows.append((mi, j, ci2, obs))
            if len(rows) != len(C):
                raise NotExtractable(f"unexpected output structure {len(rows)} vs {len(C)}")
            g0a = tape_gates(tape, awo)
            ub = {(k, b): u for k, b, u in expand_batches(gt)}
            gk = {kb: tape_gates(u, awo) for kb, u in ub.items()}
            cache = {}
            for r, (mi, j, ci2, obs) in enumerate(rows):
                cs, ts = [], []
                for s, (k, b, m2, i2) in enumerate(slots):
                    c = C[r][s]
                    if abs(c) < 1e-12:
                        continue
                    key = (k, m2)
                    if key not in cache:
                        cache[key] = meas_components(gt[k].measurements[m2], awo)
                    cs.append(Sym.of(c))
                    ts.append((gk[(k, b)], cache[key][i2][1]))
                stmt = (f"shift_rule_ok {qsym.hz()} {DCFG} {n}%nat {j}%nat\n [{'; '.join(c.gallina() for c in cs)}]\n"
                        f" [{'; '.join(g_tape(g, o) for g, o in ts)}]\n {g_tape(g0a, obs)} = true")
                obl.append((f"c{ci}_{tname}_m{mi}_p{j}_{ci2}", stmt))
            stats[tname] = f"ok:{len(gt)}tapes"
        except NotExtractable as e:
            stats[tname] = "notex:" + str(e)[:80]
    return obl, refs, tp, stats


def main():
    out = {"obligations": [], "specs": [], "stats": {"transforms": {}, "circuits": 0, "notex": 0}}
    specs = list(req.get("corpus", []))
    while len(specs) < req["n_circ"]:
        specs.append(gen_spec())
    TR = [("ps", qp.gradients.param_shift, {}),
          ("psb", qp.gradients.param_shift, {"broadcast": True}),
          ("had", qp.gradients.hadamard_grad, {"aux_wire": "aux", "mode": "standard"}),
          ("hadrev", qp.gradients.hadamard_grad, {"aux_wire": "aux", "mode": "reversed"}),
          ("haddir", qp.gradients.hadamard_grad, {"mode": "direct"}),
          ("hadrd", qp.gradients.hadamard_grad, {"mode": "reversed-direct"})]
    for ci, spec in enumerate(specs):
        try:
            if ci < req.get("n_proof", len(specs)):
                obl, _, tp, st = obligations_for(spec, ci, TR)
                out["obligations"] += [(n, s2, ci) for n, s2 in obl]
                for k, v in st.items():
                    key = k + ":" + v.split(":")[0]
                    out["stats"]["transforms"][key] = out["stats"]["transforms"].get(key, 0) + 1
            else:
                _, tp = formal_tape(spec)
            refs = all_refs(spec, tp)
        except NotExtractable as e:
            out["stats"]["notex"] += 1
            continue
        out["stats"]["circuits"] += 1
        sref = []
        for r in refs:
            e = {"kind": r["kind"], "E": ser(r["E"]), "dE": [ser(x) for x in r["dE"]]}
            if r["kind"] == "var":
                e["E2"] = ser(r["E2"])
                e["dE2"] = [ser(x) for x in r["dE2"]]
            sref.append(e)
        out["specs"].append({"spec": spec, "tp": tp, "refs": sref, "D": DCFG})
    print(json.dumps(out))


main()
