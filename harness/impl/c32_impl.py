"""C32 driver: executes measurement requests on real PennyLane devices / interfaces / diff methods and
prints the shape tree of every returned object.  JSON on stdin -> one JSON line on stdout.

tree encoding:  {"L": [dims]}  array-like,  "O"  dict (counts),  {"T": [...]}  tuple/list,
                "ERR:<ExceptionType>"  the call raised.
"""
import json, os, sys, warnings, time

os.environ.setdefault("XLA_FLAGS", "--xla_cpu_multi_thread_eigen=false intra_op_parallelism_threads=1")
os.environ.setdefault("MKL_NUM_THREADS", "1")
warnings.filterwarnings("ignore")
import numpy as np
import pennylane as qp
from pennylane import numpy as pnp
import jax
import jax.numpy as jnp
import torch
from pennylane.workflow.interfaces.jax_jit import _result_shape_dtype_struct, _jac_shape_dtype_struct
from pennylane.workflow.jacobian_products import TransformJacobianProducts, DeviceDerivatives

jax.config.update("jax_enable_x64", True)
torch.set_num_threads(1)


def tree(x):
    if isinstance(x, dict):
        return "O"
    if isinstance(x, (tuple, list)):
        return {"T": [tree(y) for y in x]}
    if isinstance(x, jax.ShapeDtypeStruct):
        return {"L": [int(d) for d in x.shape]}
    if isinstance(x, torch.Tensor):
        return {"L": [int(d) for d in x.shape]}
    return {"L": [int(d) for d in np.shape(x)]}


def dec_shots(s):
    if s is None or isinstance(s, int):
        return s
    return tuple(tuple(i) if isinstance(i, list) else i for i in s)


def obs(o, nw):
    if o == 0:
        return qp.Z(0)
    if o == 1:
        return qp.X(nw - 1)
    if o == 2:
        return qp.Y(0) @ qp.Z(1)
    return qp.Hamiltonian([0.5, 0.25], [qp.Z(0), qp.X(1)])


def mk_mp(m, nw):
    k, w, o = m["k"], m.get("w", 0), m.get("o", 0)
    wires = list(range(w))
    if k == "expval":
        return qp.expval(obs(o, nw))
    if k == "var":
        return qp.var(obs(o % 3, nw))
    if k == "probs":
        return qp.probs(wires=wires) if w else qp.probs()
    if k == "sample":
        return qp.sample(wires=wires) if w else qp.sample()
    if k == "sampleobs":
        return qp.sample(obs(o % 3, nw))
    if k == "counts":
        if o == 1:
            return qp.counts(obs(0, nw))
        return qp.counts(wires=wires, all_outcomes=bool(o == 2)) if w else qp.counts()
    if k == "state":
        return qp.state()
    if k == "dm":
        return qp.density_matrix(wires=wires)
    raise ValueError(k)


def ops_for(args, pshapes, nw, B, bparam):
    """the gates: fixed entangling part + one rotation per parameter entry (+ a broadcast RX)"""
    out = [qp.Hadamard(0), qp.CNOT([0, 1])]
    for i, a in enumerate(args):
        sh = pshapes[i]
        if bparam and i == 0:
            out.append(qp.RX(a, 0))                      # a has shape (B,): the broadcast axis
        elif len(sh) == 0:
            out.append(qp.RX(a, i % nw))
        elif len(sh) == 1:
            out += [qp.RY(a[j], (i + j) % nw) for j in range(sh[0])]
        else:
            out += [qp.RZ(a[j][l], (i + j + l) % nw) if (j + l) % 2 else qp.RY(a[j][l], (i + j + l) % nw)
                    for j in range(sh[0]) for l in range(sh[1])]
    if B is not None and not bparam:
        out.append(qp.RX(np.linspace(0.1, 0.9, B), nw - 1))
    out.append(qp.CNOT([nw - 1, 0]))
    return out


def make_qnode(case):
    req = case["req"]
    nw, B = req["nw"], req["B"]
    dev = qp.device(case["dev"], wires=nw)
    pshapes = case.get("params", [])
    bparam = case.get("bparam", False)
    iface = case["iface"]
    kw = {"interface": None if iface == "numpy" else iface, "diff_method": case["diff"]}

    def circuit(*args):
        for op in ops_for(args, pshapes, nw, B, bparam):
            qp.apply(op)
        ms = [mk_mp(m, nw) for m in req["mps"]]
        return ms[0] if len(ms) == 1 else tuple(ms)

    qn = qp.set_shots(dec_shots(req["shots"]))(qp.QNode(circuit, dev, **kw))
    vals = [np.full(tuple(s), 0.3) + 0.05 * np.arange(int(np.prod(s)) if s else 1).reshape(tuple(s))
            for s in pshapes]
    return qn, vals


def to_iface(vals, iface):
    if iface == "autograd":
        return [pnp.array(v, requires_grad=True) for v in vals]
    if iface == "jax":
        return [jnp.array(v) for v in vals]
    if iface == "torch":
        return [torch.tensor(v, requires_grad=True) for v in vals]
    return [np.array(v) for v in vals]


def make_tape(req, P=0, iface="numpy"):
    nw, B = req["nw"], req["B"]
    vals = to_iface([np.array(0.3 + 0.1 * i) for i in range(P)], iface)
    ops = ops_for(vals, [[]] * P, nw, B, False)
    t = qp.tape.QuantumScript(ops, [mk_mp(m, nw) for m in req["mps"]], shots=dec_shots(req["shots"]))
    # the rotations created from the P values come right after H, CNOT: parameter indices 0..P-1
    t.trainable_params = list(range(P))
    return t


def run_case(case):
    mode = case["mode"]
    if mode == "res":
        qn, vals = make_qnode(case)
        return tree(qn(*to_iface(vals, case["iface"])))
    if mode == "jac":
        qn, vals = make_qnode(case)
        iface = case["iface"]
        a = to_iface(vals, iface)
        if iface == "autograd":
            return tree(qp.jacobian(qn)(*a))
        if iface == "jax":
            return tree(jax.jacobian(qn, argnums=0 if len(a) == 1 else list(range(len(a))))(*a))
        if iface == "torch":
            return tree(torch.autograd.functional.jacobian(qn, a[0] if len(a) == 1 else tuple(a)))
        raise ValueError(iface)
    if mode == "batch":
        dev = qp.device(case["dev"], wires=max(r["nw"] for r in case["reqs"]))
        tapes = [make_tape(r, 1, case["iface"]) for r in case["reqs"]]
        iface = None if case["iface"] == "numpy" else case["iface"]
        return tree(qp.execute(tapes, dev, diff_method=case["diff"], interface=iface))
    if mode == "struct":
        req = case["req"]
        return tree(_result_shape_dtype_struct(make_tape(req, 1), qp.device(case["dev"], wires=req["nw"])))
    if mode == "jacstruct":
        req = case["req"]
        return tree(_jac_shape_dtype_struct(make_tape(req, case["P"]), qp.device(case["dev"], wires=req["nw"])))
    if mode == "tapejac":
        req = case["req"]
        dev = qp.device(case["dev"], wires=req["nw"])
        tape = make_tape(req, case["P"])
        if case["diff"] == "adjoint":
            cfg = qp.devices.ExecutionConfig(gradient_method="adjoint", use_device_gradient=True)
            if not dev.supports_derivatives(cfg, tape):
                return "ERR:unsupported"
            jpc = DeviceDerivatives(dev, cfg)
        else:
            tr = qp.gradients.param_shift if case["diff"] == "parameter-shift" else qp.gradients.finite_diff
            jpc = TransformJacobianProducts(lambda ts: qp.execute(ts, dev, diff_method=None), tr)
        jacs = jpc.compute_jacobian((tape,))
        if len(jacs) != 1:
            return {"T": [tree(j) for j in jacs]}
        return tree(jacs[0])
    raise ValueError(mode)


def main():
    payload = json.load(sys.stdin)
    out = []
    t0 = time.time()
    for case in payload["cases"]:
        try:
            r = run_case(case)
        except Exception as e:  # the property is about shapes: an exception is recorded by type only
            r = "ERR:" + type(e).__name__
        out.append(r)
    sys.stderr.write(f"c32_impl: {len(out)} cases in {time.time() - t0:.1f}s\n")
    print(json.dumps(out))


main()
