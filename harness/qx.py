"""PennyLane-facing part of the QSym translator: builds operator instances with formal parameters,
runs PennyLane's own matrix code / decomposition rules on them and returns exact symbolic objects.
Harness-process-only patches are applied in install_patches() (no change to /repo)."""
from __future__ import annotations
import inspect, itertools, math, warnings
from fractions import Fraction as Fr
import numpy as np

warnings.filterwarnings("ignore")
import pennylane as qp
from pennylane.decomposition.utils import _get_decomp_args
from pennylane.queuing import AnnotatedQueue
import qsym
from qsym import Lin, Sym, NotExtractable, CFG, set_cfg, sym_array, num_mat, var_array, lin_array

_PATCHED = False


def install_patches():
    global _PATCHED
    if _PATCHED:
        return
    from pennylane.core.operator import operator2
    operator2._init_arg_types = lambda op: None      # dtype validation rejects dtype=object
    # casting helpers call np.asarray(x, dtype=complex), which cannot hold ring elements: pass object arrays through
    import pennylane.math as qmath
    for modname in ("pennylane.math", "pennylane.math.utils", "pennylane.math.multi_dispatch", "pennylane.math.single_dispatch"):
        try:
            mod = __import__(modname, fromlist=["x"])
        except Exception:
            continue
        for fn in ("cast_like", "cast", "convert_like"):
            orig = getattr(mod, fn, None)
            if orig is None or getattr(orig, "_qsym", False):
                continue
            def wrapped(x, *a, _orig=orig, **k):
                if isinstance(x, np.ndarray) and x.dtype == object or isinstance(x, (Lin, Sym)):
                    return x
                like = a[0] if a else k.get("like", k.get("tensor2"))
                if isinstance(like, (Lin, Sym)) or (isinstance(like, np.ndarray) and like.dtype == object):
                    return x
                return _orig(x, *a, **k)
            wrapped._qsym = True
            setattr(mod, fn, wrapped)
    # bare ring elements reaching autoray-dispatched functions (backend name = module name 'qsym')
    try:
        import autoray
        for fn, impl in (("sqrt", lambda x: x.sqrt()), ("cos", lambda x: x.cos()), ("sin", lambda x: x.sin()), ("exp", lambda x: x.exp()),
                         ("conj", lambda x: x.conjugate()), ("real", lambda x: x.real), ("imag", lambda x: x.imag), ("abs", lambda x: abs(x)),
                         ("shape", lambda x: ()), ("ndim", lambda x: 0), ("to_numpy", lambda x: x), ("asarray", lambda x, *a, **k: x)):
            autoray.register_function("qsym", fn, impl)
    except Exception:
        pass
    # numpy refuses matrix_power on stacks of object arrays: do it slice by slice
    _mp = np.linalg.matrix_power
    if not getattr(_mp, "_qsym", False):
        def matrix_power(a, n):
            if isinstance(a, np.ndarray) and a.dtype == object and a.ndim == 3:
                return np.stack([_mp(a[i], n) for i in range(a.shape[0])])
            return _mp(a, n)
        matrix_power._qsym = True
        np.linalg.matrix_power = matrix_power
    _PATCHED = True


def is_symbolic(x):
    if isinstance(x, (Lin, Sym)):
        return True
    if isinstance(x, np.ndarray) and x.dtype == object:
        return any(isinstance(v, (Lin, Sym)) for v in x.flat)
    return False


def unbatch(M):
    M = np.asarray(M) if not isinstance(M, np.ndarray) else M
    if M.ndim == 3:
        if M.shape[0] != 1:
            raise NotExtractable("unexpected batch size")
        M = M[0]
    return M


def mat_to_sym(M):
    M = unbatch(M)
    if M.ndim != 2:
        raise NotExtractable(f"matrix of ndim {M.ndim}")
    return [[Sym.of(x) for x in row] for row in M]


# ----------------------------------------------------------------------------- symbolic matrix helpers (Python side)
def s_ident(d):
    return [[Sym.of(1 if i == j else 0) for j in range(d)] for i in range(d)]


def s_mul(A, B):
    n, m, p = len(A), len(B), len(B[0])
    out = []
    for i in range(n):
        row = []
        for j in range(p):
            acc = Sym.of(0)
            for k in range(m):
                a = A[i][k]
                if a.t:
                    b = B[k][j]
                    if b.t:
                        acc = acc + a * b
            row.append(acc)
        out.append(row)
    return out


def s_adj(A):
    return [[A[j][i].conjugate() for j in range(len(A))] for i in range(len(A[0]))]


def s_ctrl(base, control_values):
    """control wires first (most significant), then base wires"""
    d = len(base)
    k = len(control_values)
    D = d * (1 << k)
    out = s_ident(D)
    pat = 0
    for b in control_values:
        pat = (pat << 1) | (1 if b else 0)
    off = pat * d
    for i in range(d):
        for j in range(d):
            out[off + i][off + j] = base[i][j]
    return out


def s_pow(A, k):
    if k < 0:
        A = s_adj(A)    # unitary inputs only; checked by spot check
        k = -k
    R = s_ident(len(A))
    for _ in range(k):
        R = s_mul(R, A)
    return R


def s_embed(A, wires, all_wires):
    """matrix on `wires` (ordered) -> matrix on all_wires (ordered), MSB first"""
    n = len(all_wires)
    pos = [all_wires.index(w) for w in wires]
    k = len(wires)
    D = 1 << n
    out = [[Sym.of(0) for _ in range(D)] for _ in range(D)]
    rest = [i for i in range(n) if i not in pos]
    for r in range(D):
        rb = [(r >> (n - 1 - i)) & 1 for i in range(n)]
        rs = 0
        for p in pos:
            rs = (rs << 1) | rb[p]
        for x in range(1 << k):
            cb = list(rb)
            for t, p in enumerate(pos):
                cb[p] = (x >> (k - 1 - t)) & 1
            c = 0
            for b in cb:
                c = (c << 1) | b
            out[r][c] = A[rs][x]
    return out


# ----------------------------------------------------------------------------- operator -> symbolic matrix
def op_data_symbolic(op):
    return any(is_symbolic(d) for d in getattr(op, "data", ()))


def _name(op):
    return type(op).__name__


def op_matrix_sym(op, depth=0, strict=False):
    """exact matrix of `op` in the order of op.wires (work wires of Controlled excluded, as PennyLane does).
    Raises NotExtractable."""
    install_patches()
    from pennylane.ops.op_math import Adjoint, Pow, Controlled, Prod, SProd
    errs = []
    # 0. GlobalPhase without wires
    try:
        if op.name == "GlobalPhase" and len(op.wires) == 0:
            phi = op.data[0]
            v = phi.flat[0] if isinstance(phi, np.ndarray) and phi.dtype == object else phi
            return [[(Lin.of(v) * (-1j)).exp() if isinstance(v, Lin) else Sym.of(cmath_exp(-1j * float(v)))]]
    except NotExtractable as e:
        errs.append(str(e))
    # 1. PennyLane's own matrix code, symbolically
    try:
        with warnings.catch_warnings():
            warnings.simplefilter("ignore")
            try:
                M = op.matrix()
            except TypeError:
                M = lift_op(op).matrix()      # mixed float / formal parameters: lift the floats
        M = unbatch(M)
        if M.dtype == object:
            return mat_to_sym(M)
        if not op_data_symbolic(op):
            return mat_to_sym(M)                   # numeric: recognise constants entrywise
    except NotExtractable as e:
        errs.append("matrix(): " + str(e))
    except Exception as e:                         # PennyLane code not polymorphic here
        errs.append(f"matrix(): {type(e).__name__}: {str(e)[:120]}")
    # 2. structural fall-backs
    if strict:
        raise NotExtractable(f"{op.name} (strict): " + " | ".join(errs)[:300])
    try:
        if isinstance(op, Adjoint):
            return s_adj(op_matrix_sym(op.base, depth + 1))
        if isinstance(op, Pow):
            z = op.z
            if isinstance(z, (int, np.integer)) or float(z) == int(z):
                return s_pow(op_matrix_sym(op.base, depth + 1), int(z))
        if isinstance(op, Controlled) or hasattr(op, "control_values") and hasattr(op, "base"):
            base = op_matrix_sym(op.base, depth + 1)
            bw = list(op.base.wires)
            full = s_ctrl(base, list(op.control_values))
            order = list(op.control_wires) + bw
            if order != list(op.wires)[:len(order)]:
                full = s_embed(full, order, list(op.wires)[:len(order)])
            return full
        if isinstance(op, Prod) or type(op).__name__ == "ChangeOpBasis":
            ws = list(op.wires)
            R = s_ident(1 << len(ws))
            for f in op.operands:
                R = s_mul(R, s_embed(op_matrix_sym(f, depth + 1), list(f.wires), ws))
            return R
        if isinstance(op, SProd):
            c = Sym.of(op.scalar if not isinstance(op.scalar, np.ndarray) else op.scalar.flat[0])
            return [[c * x for x in row] for row in op_matrix_sym(op.base, depth + 1)]
    except NotExtractable as e:
        errs.append("structural: " + str(e))
    # 3. through its own decomposition (only when forced by callers)
    raise NotExtractable(f"{op.name}: " + " | ".join(errs)[:400])


def lift_op(op):
    """replace plain numeric scalar leaves by exact angle expressions (q*pi or rational), so that an operator
    with mixed float/formal parameters can run through numpy's object-array dispatch"""
    from pennylane.pytrees import flatten, unflatten
    leaves, struct = flatten(op)
    new = []
    for d in leaves:
        if isinstance(d, (float, np.floating)) or (isinstance(d, np.ndarray) and d.dtype.kind == 'f' and d.ndim == 0):
            new.append(lin_array(Lin.of(float(d))))
        elif isinstance(d, np.ndarray) and d.dtype == object:
            e = np.empty(d.shape, dtype=object)
            for i, v in enumerate(d.flat):
                e.flat[i] = v if isinstance(v, (Lin, Sym)) else Lin.of(v)
            new.append(e)
        else:
            new.append(d)
    return unflatten(new, struct)


def cmath_exp(z):
    import cmath
    return cmath.exp(z)


def op_matrix_num(op, thetas):
    """float matrix of the same operator with formal parameters replaced by numbers (independent float run)"""
    nop = bind_numeric(op, thetas)
    if nop.name == "GlobalPhase" and len(nop.wires) == 0:
        return np.array([[np.exp(-1j * float(np.asarray(nop.data[0]).ravel()[0]))]])
    return np.asarray(qp.matrix(nop, wire_order=list(nop.wires)))


def num_of(x, thetas):
    if isinstance(x, Lin):
        v = x.num(thetas)
        return v
    if isinstance(x, Sym):
        return x.num(thetas)
    return x


def bind_numeric(op, thetas):
    """same operator with every formal parameter evaluated at `thetas` (via PennyLane's pytree
    flatten/unflatten, which rebuilds nested symbolic operators structurally)"""
    if not op_data_symbolic(op):
        return op
    from pennylane.pytrees import flatten, unflatten
    leaves, struct = flatten(op)
    new = []
    for d in leaves:
        if isinstance(d, np.ndarray) and d.dtype == object:
            vals = np.array([num_of(v, thetas) for v in d.flat])
            if np.all(np.abs(np.imag(vals)) == 0):
                vals = np.real(vals).astype(float)
            vals = vals.reshape(d.shape)
            new.append(vals[0] if (d.ndim >= 1 and d.shape[0] == 1) else vals)
        elif isinstance(d, (Lin, Sym)):
            v = num_of(d, thetas)
            new.append(float(np.real(v)) if abs(np.imag(v)) == 0 else v)
        else:
            new.append(d)
    return unflatten(new, struct)


def spot_check(op, S, rng, tol=1e-9):
    """numeric validation of an extracted symbolic matrix against an independent float execution"""
    pts = [[rng.uniform(-7, 7) for _ in range(max(CFG.nvars, 1))] for _ in range(2)]
    pts += [[0.0] * max(CFG.nvars, 1), [math.pi] * max(CFG.nvars, 1), [2 * math.pi, -math.pi, 4 * math.pi][:max(CFG.nvars, 1)] + [0.0] * max(0, CFG.nvars - 3)]
    worst = 0.0
    for th in pts:
        ref = op_matrix_num(op, th)
        got = num_mat(S, th)
        if ref.shape != got.shape:
            return False, f"shape {ref.shape} vs {got.shape}"
        worst = max(worst, float(np.abs(ref - got).max()))
    return worst < tol, worst


# ----------------------------------------------------------------------------- running a decomposition rule
class RuleRun:
    def __init__(self):
        self.ops = []            # [(op, [wire labels])]
        self.op_wires = []
        self.extra_zero = []     # extra wire labels that must start (and end) in |0>
        self.extra_any = []      # extra wire labels in arbitrary state (borrowed / state="any")
        self.has_mcm = False
        self.notes = []


def run_rule(rule, op):
    """execute the rule on `op` (possibly with formal parameters); resolve dynamic allocations to fresh labels"""
    install_patches()
    params, args, kwargs = _get_decomp_args(op)
    with AnnotatedQueue() as q:
        rule(*args, **kwargs)
    rr = RuleRun()
    rr.op_wires = list(op.wires)
    wm = {}
    hyper = getattr(op, "hyperparameters", {}) or {}
    ww = list(hyper.get("work_wires", []) or getattr(op, "work_wires", []) or [])
    wtype = hyper.get("work_wire_type", "borrowed")
    for o in q.queue:
        nm = o.name
        if nm == "Allocate":
            for w in o.wires:
                lab = f"_dyn{len(wm)}"
                wm[w] = lab
                st = str(getattr(o, "state", "zero")).lower()
                (rr.extra_zero if "zero" in st else rr.extra_any).append(lab)
            continue
        if nm == "Deallocate":
            continue
        if "Measure" in nm or nm == "Conditional" or type(o).__name__ in ("Conditional", "MidMeasureMP", "MidMeasure", "PauliMeasure"):
            rr.has_mcm = True
        o2 = o.map_wires(wm) if wm and any(w in wm for w in o.wires) else o
        rr.ops.append(o2)
    used = []
    for o in rr.ops:
        for w in o.wires:
            if w not in used:
                used.append(w)
    for w in used:
        if w in rr.op_wires or w in rr.extra_zero or w in rr.extra_any:
            continue
        if w in ww:
            (rr.extra_zero if str(wtype).lower().startswith("zero") else rr.extra_any).append(w)
        else:
            rr.notes.append(f"rule touches foreign wire {w!r}")
            rr.extra_any.append(w)
    return rr


def all_wires_of(rr):
    return rr.op_wires + rr.extra_zero + rr.extra_any


# ----------------------------------------------------------------------------- Gallina emission
def g_mat(S):
    return "[" + ";\n   ".join("[" + "; ".join(e.gallina() for e in row) + "]" for row in S) + "]"


def g_nats(l):
    return "[" + "; ".join(f"{int(x)}%nat" for x in l) + "]"


def g_gate(wire_idx, S):
    return f"({g_nats(wire_idx)}, {g_mat(S)})"


GEN_HEADER = """From Coq Require Import List ZArith QArith Bool.
From PLV Require Import Alg.Poly Lin.Vec Lin.PVec.
Import ListNotations.
Open Scope Q_scope.
"""


# ----------------------------------------------------------------------------- exact reference circuits
import math as _math
PYTH = [(3, 4, 5), (4, 3, 5), (5, 12, 13), (12, 5, 13), (8, 15, 17), (15, 8, 17), (7, 24, 25), (24, 7, 25), (20, 21, 29)]


def pyth_angle(rng, half=True):
    """an angle theta such that cos(theta/2), sin(theta/2) are rational (so every standard rotation matrix has
    Gaussian-rational entries), or a multiple of pi/4"""
    if rng.random() < 0.25:
        return rng.choice([0.0, _math.pi / 2, _math.pi, -_math.pi / 2, 3 * _math.pi / 2, 2 * _math.pi, -_math.pi])
    p, q, r = rng.choice(PYTH)
    s = rng.choice([1, -1])
    return 2 * _math.atan2(s * q, p)


def exact_circuit_gallina(ops, wire_order):
    """Gallina list of gates (constant matrices over Q(zeta_8)) for numeric operators `ops`; raises NotExtractable"""
    install_patches()
    set_cfg(8, 8, 0)
    gates = []
    for o in ops:
        if o.name in ("Barrier", "Snapshot", "WireCut"):
            continue
        if o.name == "GlobalPhase" or len(o.wires) == 0:
            S = op_matrix_sym(o) if len(o.wires) == 0 else op_matrix_sym(o)
            gates.append(g_gate([wire_order.index(w) for w in o.wires], S))
            continue
        M = np.asarray(qp.matrix(o, wire_order=list(o.wires)))
        S = mat_to_sym(M)
        gates.append(g_gate([wire_order.index(w) for w in o.wires], S))
    return "[" + ";\n ".join(gates) + "]"
