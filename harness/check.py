"""./check <PID> [--tier quick|thorough] [--replay file]"""
import argparse, importlib, json, os, sys, traceback
from pathlib import Path
sys.path.insert(0, str(Path(__file__).resolve().parent))
import vlib


def main():
    ap = argparse.ArgumentParser()
    ap.add_argument("pid")
    ap.add_argument("--tier", default=os.environ.get("VERIF_TIER", "quick"))
    ap.add_argument("--replay", default=None)
    a = ap.parse_args()
    tier = a.tier if a.tier in ("quick", "thorough") else "quick"
    seed = int(os.environ.get("VERIF_SEED", "0") or 0)
    mod = importlib.import_module(f"props.{a.pid.lower()}")
    ctx = vlib.Ctx(a.pid, tier, seed, mod.META)
    ctx.replay = json.loads(Path(a.replay).read_text()) if a.replay else None
    try:
        mod.run(ctx)
    except vlib.CoqError as ex:
        ctx.broken_obligation("coq", "generated-or-static", str(ex)[-4000:])
    except Exception as ex:  # harness failure: the property is no longer shown to hold
        ctx.broken_obligation("harness", type(ex).__name__, traceback.format_exc()[-4000:])
    sys.exit(ctx.finish())


main()
